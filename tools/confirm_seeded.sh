#!/bin/bash
# confirm a sub-agent's seeded change in a scratch export of /repo's HEAD:
#   clean tree: builds, suite passes, demo exits 0;  patched tree: builds, suite passes, demo exits non-zero
# usage: tools/confirm_seeded.sh <ID> [srcdir=/tmp/seeded-<ID>]    -> prints a one-line verdict, writes <srcdir>/confirm.log
ID=$1; SRC=${2:-/tmp/seeded-$ID}; SCR=${VERIF_CONFIRM_SCRATCH:-/var/tmp}/confirm-$ID.$$
[ -f "$SRC/patch.diff" ] || { echo "$ID: no patch.diff"; exit 2; }
rm -rf "$SCR"; mkdir -p "$SCR"; trap 'rm -rf "$SCR"' EXIT
git -C /repo archive HEAD | tar -x -C "$SCR"
LOG=$SRC/confirm.log; : > "$LOG"
suite() { (cd "$SCR" && make -j16 it >/dev/null 2>>"$LOG" && make test 2>&1 | grep -E "^[0-9]+%: Checks" | tr '\n' ' '); }
cd "$SCR"
echo "== clean build+suite" >> "$LOG"; S0=$(suite); echo "$S0" >> "$LOG"
echo "== clean demo" >> "$LOG"; (cd "$SRC" && timeout 900 bash ./demo.sh "$SCR") >> "$LOG" 2>&1; D0=$?
echo "== apply" >> "$LOG"; git apply "$SRC/patch.diff" >> "$LOG" 2>&1 || { echo "$ID: patch does not apply"; exit 2; }
echo "== patched build+suite" >> "$LOG"; S1=$(suite); echo "$S1" >> "$LOG"
echo "== patched demo" >> "$LOG"; (cd "$SRC" && timeout 900 bash ./demo.sh "$SCR") >> "$LOG" 2>&1; D1=$?
f0=$(echo "$S0" | grep -o "Failures: [0-9]*" | awk '{s+=$2} END{print s+0}'); n0=$(echo "$S0" | grep -o "Checks: [0-9]*" | awk '{s+=$2} END{print s+0}')
f1=$(echo "$S1" | grep -o "Failures: [0-9]*" | awk '{s+=$2} END{print s+0}'); n1=$(echo "$S1" | grep -o "Checks: [0-9]*" | awk '{s+=$2} END{print s+0}')
echo "$ID: clean suite $n0 checks/$f0 failures demo=$D0 | patched suite $n1 checks/$f1 failures demo=$D1"
[ "$n0" = 22 ] && [ "$f0" = 0 ] && [ "$D0" = 0 ] && [ "$n1" = 22 ] && [ "$f1" = 0 ] && [ "$D1" != 0 ] && [ "$D1" != 124 ] && echo "$ID: CONFIRMED" || echo "$ID: NOT CONFIRMED"

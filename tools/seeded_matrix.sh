#!/bin/bash
# tools/seeded_matrix.sh [tier]  : run every stored seeded change (/verif/seeded/<name>/patch.diff) against the check of its
# property and rewrite /verif/seeded/RESULTS.txt. /repo must be clean; it is restored after every change. Development only.
cd "$(dirname "$0")/.." || exit 2
TIER=${1:-quick}
for d in $(ls seeded | grep "^[CLMSX][0-9]"); do tools/try_seeded.sh "$d" "$TIER" 2>&1 | head -1; done | tee seeded/RESULTS.txt
echo "caught: $(grep -c 'exit 1;' seeded/RESULTS.txt) of $(grep -c '^seeded' seeded/RESULTS.txt)"

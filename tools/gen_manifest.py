#!/usr/bin/env python3
# regenerates MANIFEST.json from tools/manifest_checks.json (claimed checks) and properties.jsonl
import json, os
V = os.path.dirname(os.path.dirname(os.path.abspath(__file__)))
props = [json.loads(l)['id'] for l in open(os.path.join(V, 'properties.jsonl'))]
claimed = json.load(open(os.path.join(V, 'tools', 'manifest_checks.json')))
na = claimed.get('_not_applicable', {})
checks = []
for pid in props:
    c = claimed.get(pid)
    if not c: continue
    checks.append({
        "property_id": pid,
        "quick_cmd": "tools/check %s quick" % pid,
        "thorough_cmd": "tools/check %s thorough" % pid,
        "evidence_file": "evidence/%s.json" % pid,
        "replay_cmd_template": "tools/check --replay {path}",
        "engine": "simq",
        "level_claimed": {"category": c["level"], "text": c["text"], "design_ref": c["design_ref"]},
        "level_note": c["note"],
        "technique": c["technique"],
    })
m = {
 "version": 1,
 "setup_cmd": "tools/setup.sh",
 "hooks": {"guard": "NOTQMAIL_VERIF",
           "enable": "tools/build_repo.sh copies /repo's working tree to a scratch directory, compiles it with -DNOTQMAIL_VERIF plus ASan/UBSan and relinks every program as a shared object with -Wl,--wrap=<libc call>; no source hook exists in /repo (the seam is the libc boundary), so the guard is passed but nothing in the tree tests it",
           "baseline_off_cmd": "tools/baseline.sh", "source_commits": [], "add_only": True},
 "engines": [{"name": "simq", "path": "sim/", "serves_properties": [c["property_id"] for c in checks],
              "kind_free_text": "deterministic simulation with fault injection: a simulated POSIX kernel (simos) runs the unmodified qmail programs as coroutines in one process; one seed decides every interleaving, I/O split, directory order, fault and crash image; ghost-state oracles and reference models check each run; violations are minimised and replayed in a fresh process"}],
 "checks": checks,
 "notes": "All checks: exit 0 held / 1 violation (VIOLATION line, minimised replay file under out/replays/) / 2 infrastructure problem. VERIF_SEED, VERIF_TIER and VERIF_BUDGET_S are honoured. known_findings.txt lists recorded findings (KNOWN-FINDING lines).",
 "not_applicable": [{"property_id": p, "reason": na.get(p, "check not built yet (DESIGN.md section 9 build order); nothing is claimed for it at this commit")} for p in props if p not in claimed],
}
json.dump(m, open(os.path.join(V, 'MANIFEST.json'), 'w'), indent=1)
print("manifest: %d checks, %d not claimed" % (len(checks), len(m["not_applicable"])))

#!/bin/bash
# tools/try_mutant.sh <patch-file|-e sed-expr file> <ID> [tier]  : apply to /repo, run check, revert. For development only.
set -u
cd /repo
if [ "$1" = "-e" ]; then sed -i -e "$2" "$3"; shift 3; else git apply "$1" || exit 2; shift; fi
git diff --stat | tail -1
/verif/tools/check "$@" | grep -v "^simq:   " | tail -8
rc=${PIPESTATUS[0]}
git checkout -- . 
exit $rc

#!/bin/bash
# build_repo.sh - build the simulator images (one .so per qmail program) from /repo's CURRENT WORKING TREE.
# Prints the image directory on stdout. Exit 2 on any infrastructure problem.
# Cache: /verif/out/build/<hash-of-tree>/ ; scratch copies live outside /repo and /verif and are removed.
set -u
REPO=${VERIF_REPO:-/repo}
VERIF=$(cd "$(dirname "$0")/.." && pwd)
OUT=$VERIF/out/build
VARIANT=${VERIF_VARIANT:-default}     # default | small (conf-split=1, conf-spawn=3) | cov (development: block coverage, see tools/coverage.sh)
mkdir -p "$OUT"

PROGS="qmail-queue qmail-send qmail-clean qmail-start qmail-lspawn qmail-rspawn qmail-local qmail-remote qmail-getpw qmail-newu qmail-newmrh qmail-pw2u qmail-smtpd qmail-qmtpd qmail-qmqpd qmail-pop3d qmail-popup qmail-inject"
WRAPS="open close read write lseek fstat stat lstat fsync ftruncate link unlink rename utimes mkdir umask chdir fcntl opendir readdir closedir flock pipe select sleep alarm sigaction sigprocmask fork vfork execv execvp execve waitpid wait _exit exit kill time getpid getppid getuid geteuid getgid getegid setuid setgid setgroups initgroups getpwnam getgrnam gethostname malloc realloc calloc free strdup socket connect getpeername ioctl res_query res_search __res_init res_init"
# pure functions (no kernel interaction) the images may import from libc/libresolv
ALLOW='^(strlen|strcmp|strncmp|strcpy|memcmp|memcpy|memset|memmove|sigemptyset|sigaddset|sigfillset|sigismember|dn_expand|__dn_expand|__errno_location|__h_errno_location|__res_state|environ|__environ|__stack_chk_fail|__cxa_finalize|_ITM_.*|__gmon_start__|__asan_.*|__ubsan_.*|__sanitizer_.*|__wrap_.*|__assert_fail|abort|htons|ntohs|htonl|ntohl)$'

cd "$REPO" || exit 2
FILES=$(git ls-files -co --exclude-standard | LC_ALL=C sort)
HASH=$( (echo "variant=$VARIANT"; echo "wraps=$WRAPS"; for f in $FILES; do [ -f "$f" ] && { echo "$f"; cat "$f"; }; done) | sha256sum | cut -c1-20)
DIR=$OUT/$HASH
exec 9>"$OUT/.lock"
flock 9
if [ -f "$DIR/.complete" ]; then echo "$DIR"; exit 0; fi
rm -rf "$DIR"; mkdir -p "$DIR"
SCR=${VERIF_SCRATCH:-/var/tmp}/verif-build.$$
rm -rf "$SCR"; mkdir -p "$SCR/r"
trap 'rm -rf "$SCR"' EXIT
for f in $FILES; do [ -f "$f" ] && cp --parents "$f" "$SCR/r/"; done
cd "$SCR/r" || exit 2
CC1='gcc -O1 -g1 -fPIC -fno-omit-frame-pointer -fsanitize=address,undefined -fno-sanitize-recover=all -fno-common -U_FORTIFY_SOURCE -DNOTQMAIL_VERIF'
[ "$VARIANT" = cov ] && CC1="$CC1 -fsanitize-coverage=trace-pc"
sed -i "1s|.*|$CC1|" conf-cc
sed -i '1s|.*|gcc -fsanitize=address,undefined|' conf-ld
if [ "$VARIANT" = cov ]; then   # the build's own helper executables need the callback too; the images get it from the simulator
  echo 'void __sanitizer_cov_trace_pc(void){}' > "$SCR/covstub.c"; gcc -c -o "$SCR/covstub.o" "$SCR/covstub.c" || exit 2
  sed -i "1s|.*|gcc -fsanitize=address,undefined $SCR/covstub.o|" conf-ld
fi
if [ "$VARIANT" = small ]; then sed -i '1s/.*/1/' conf-split; sed -i '1s/.*/3/' conf-spawn; fi
if ! ASAN_OPTIONS=detect_leaks=0 make -j16 it >"$DIR/build.log" 2>&1; then
  echo "build_repo: make failed, see $DIR/build.log" >&2; tail -20 "$DIR/build.log" >&2; exit 2
fi
WL=""; for s in $WRAPS; do WL="$WL -Wl,--wrap=$s"; done
for p in $PROGS; do
  line=$(make -n -W $p.o $p 2>/dev/null | sed -e ':a' -e '/\\$/N; s/\\\n/ /; ta' | grep "^\./load $p " | head -1)
  if [ -z "$line" ]; then echo "build_repo: no link line for $p" >&2; exit 2; fi
  args=${line#./load $p }
  if ! sh -c "gcc -shared -fPIC -fsanitize=address,undefined -Wl,-Bsymbolic -o '$DIR/$p.so' $p.o $args $WL" >>"$DIR/build.log" 2>&1; then
    echo "build_repo: relink of $p failed" >&2; tail -5 "$DIR/build.log" >&2; exit 2
  fi
  bad=$(nm -D -u "$DIR/$p.so" | awk '{print $2}' | sed 's/@.*//' | grep -Ev "$ALLOW" | tr '\n' ' ')
  if [ -n "$bad" ]; then echo "build_repo: unmodelled libc symbol(s) in $p: $bad" >&2; exit 2; fi
done
# conf-derived constants for the worlds
{
  echo "{"
  echo "  \"split\": $(head -1 conf-split),"
  echo "  \"spawn\": $(head -1 conf-spawn),"
  echo "  \"patrn\": \"$(head -1 conf-patrn)\","
  echo "  \"break\": \"$(head -1 conf-break)\","
  echo "  \"qmail\": \"$(head -1 conf-qmail)\","
  echo "  \"users\": [$(head -8 conf-users | sed 's/.*/"&"/' | paste -sd, )],"
  echo "  \"groups\": [$(head -2 conf-groups | sed 's/.*/"&"/' | paste -sd, )],"
  echo "  \"variant\": \"$VARIANT\","
  echo "  \"tree_hash\": \"$HASH\""
  echo "}"
} > "$DIR/conf.json"
touch "$DIR/.complete"
# keep the cache small: drop all but the 6 most recent builds
ls -1dt "$OUT"/*/ 2>/dev/null | tail -n +7 | xargs -r rm -rf
echo "$DIR"

#!/usr/bin/env python3
# coverage_report.py <imagedir> <covdir> - merge the block hits written by sim/cov.cc and map them to source lines.
import sys, os, re, glob, subprocess, collections, json
img, cov = sys.argv[1], sys.argv[2]
call_re = re.compile(r'^\s*([0-9a-f]+):\s.*\bcall\s+[0-9a-f]+ <__sanitizer_cov_trace_pc@plt>')
hits = collections.defaultdict(lambda: collections.defaultdict(set))   # image -> offset -> {property}
for d in sorted(glob.glob(cov + '/raw/*')):
    prop = os.path.basename(d)
    for f in glob.glob(d + '/*.cov'):
        image = os.path.basename(f).rsplit('.', 2)[0]
        for l in open(f):
            hits[image][int(l, 16)].add(prop)
# (file, function) -> line -> [instrumented blocks, reached blocks, properties]
lines = collections.defaultdict(lambda: collections.defaultdict(lambda: [0, 0, set()]))
images = sorted(os.path.basename(p)[:-3] for p in glob.glob(img + '/*.so'))
for image in images:
    so = img + '/' + image + '.so'
    dis = subprocess.run(['objdump', '-d', '--no-show-raw-insn', so], capture_output=True, text=True).stdout
    calls = [int(m.group(1), 16) for m in map(call_re.match, dis.splitlines()) if m]
    if not calls: continue
    a2l = subprocess.run(['addr2line', '-f', '-e', so] + [hex(c) for c in calls], capture_output=True, text=True).stdout.splitlines()
    for i, c in enumerate(calls):
        fn = a2l[2 * i]; loc = a2l[2 * i + 1].split(' ')[0]
        file, _, ln = loc.rpartition(':'); file = os.path.basename(file)
        try: ln = int(ln)
        except ValueError: ln = 0
        e = lines[(file, fn)][ln]
        props = hits[image].get(c + 5, set())
        # the same source block is linked into several programs: count it once, reached if any program reached it
        key = (image, c)
        e[0] += 1
        if props: e[1] += 1; e[2] |= props
byfile = collections.defaultdict(list)
for (file, fn), ls in lines.items(): byfile[file].append((fn, ls))
tot_l = tot_r = 0
summary = []
for file in sorted(byfile):
    fl = fr = 0; out = []
    for fn, ls in sorted(byfile[file]):
        nl = len(ls); nr = sum(1 for v in ls.values() if v[1] > 0)
        fl += nl; fr += nr
        miss = sorted(l for l, v in ls.items() if v[1] == 0)
        props = set().union(*[v[2] for v in ls.values()]) if ls else set()
        out.append('    %-28s lines with blocks %3d reached %3d  %s%s' % (fn, nl, nr, ('NEVER RUN' if nr == 0 else 'by ' + ','.join(sorted(props))), ('' if not miss or nr == 0 else '   unreached lines: ' + ','.join(map(str, miss)))))
    print('%s: %d/%d' % (file, fr, fl)); print('\n'.join(out))
    summary.append((file, fr, fl)); tot_l += fl; tot_r += fr
with open(cov + '/summary.txt', 'w') as f:
    f.write('source lines that start a basic block, reached by at least one simulated run / instrumented: %d/%d (%.1f%%)\n' % (tot_r, tot_l, 100.0 * tot_r / max(1, tot_l)))
    for file, fr, fl in sorted(summary, key=lambda x: (x[1] / max(1, x[2]), x[0])):
        f.write('  %-22s %4d/%-4d %5.1f%%\n' % (file, fr, fl, 100.0 * fr / max(1, fl)))

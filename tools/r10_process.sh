#!/bin/bash
# development aid for seeded round 8: tools/r8_process.sh C12  -> confirm /tmp/r10/C12/out, store as seeded/X12, try it against the check
C=$1; N=Z${C#C}; SRC=/tmp/seeded10-$N
rm -rf "$SRC"; mkdir -p "$SRC"; cp -r /tmp/r10/$C/out/. "$SRC/" || exit 2
rm -f "$SRC"/*.so "$SRC"/*.o
V=$(/verif/tools/confirm_seeded.sh $N "$SRC" 2>&1 | tail -2); echo "$V"
echo "$V" | grep -q ": CONFIRMED" || { echo "$N not confirmed; see $SRC/confirm.log"; exit 1; }
rm -rf /verif/seeded/$N; mkdir -p /verif/seeded/$N; cp -r "$SRC"/. /verif/seeded/$N/
git -C /repo worktree remove --force /tmp/r10/$C/wt 2>/dev/null; rm -rf /tmp/r10/$C/clean /tmp/r10/$C/wt
/verif/tools/try_seeded.sh $N quick 2>&1 | cut -c1-600

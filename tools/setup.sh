#!/bin/bash
# setup: build the simulator from /verif/sim (offline, files on disk only)
set -e
cd "$(dirname "$0")/.."
mkdir -p out
make -C sim -j16 >out/setup.log 2>&1 || { tail -30 out/setup.log; exit 2; }
echo "simq built: $(ls -la out/simq | awk '{print $5}') bytes"
# differential self-test of the simulated kernel against this host's kernel (informational; see DESIGN 10.7)
IMG=$(tools/build_repo.sh 2>>out/setup.log) && out/simq selftest --images "$IMG" --n 1000 2>/dev/null | tail -3 || true

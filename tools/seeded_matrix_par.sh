#!/bin/bash
# tools/seeded_matrix_par.sh [tier] [name-regex] : like seeded_matrix.sh but against scratch copies of /repo's HEAD (VERIF_REPO),
# one sequential lane per property, several lanes in parallel; /repo itself is not touched. Results: /var/tmp/matrix_par.results
# (and seeded/RESULTS.txt when run over everything). Development only.
cd "$(dirname "$0")/.." || exit 2
TIER=${1:-quick}; RE=${2:-.}
W=/var/tmp/verif-matrix.$$; mkdir -p "$W"; trap 'rm -rf "$W"' EXIT
lane() {
  ID=$1; shift; R="$W/repo-$ID"; mkdir -p "$R"; git -C /repo archive HEAD | tar -x -C "$R"
  (cd "$R" && git init -q . && git add -A >/dev/null 2>&1 && git -c user.email=x@x -c user.name=x commit -qm base)
  for N in "$@"; do
    (cd "$R" && git apply --whitespace=nowarn /verif/seeded/$N/patch.diff) || { echo "seeded $N vs $ID $TIER: patch does not apply"; continue; }
    mkdir -p "$W/ev-$ID"; VERIF_REPO="$R" VERIF_EVIDENCE_DIR="$W/ev-$ID" /verif/tools/check "$ID" "$TIER" > "$W/out-$N" 2>&1; r=$?
    echo "seeded $N vs $ID $TIER: exit $r; $(grep -c '^VIOLATION' "$W/out-$N") VIOLATION line(s): $(grep -m3 'class=' "$W/out-$N" | tr -s ' ' | tr '\n' ';')"
    (cd "$R" && git checkout -q -- . && git clean -qfd)
  done
}
export -f lane; export W TIER
declare -A L
for d in $(ls seeded | grep "^[CLMSXY][0-9]" | grep -E "$RE"); do
  DEF=${d%%-*}; case "$DEF" in C[0-9][0-9]) ;; *) DEF=$(jq -r '.breaks_property // .property' "seeded/$d/meta.json" 2>/dev/null | grep -o "C[0-9][0-9]" | head -1) ;; esac
  L[$DEF]="${L[$DEF]} $d"
done
for id in "${!L[@]}"; do echo "$id ${L[$id]}"; done | xargs -P 5 -L 1 bash -c 'lane "$@"' _ | tee "$W/results"
sort -k2,2 "$W/results" > /var/tmp/matrix_par.results
[ "$RE" = . ] && cp /var/tmp/matrix_par.results seeded/RESULTS.txt
echo "caught: $(grep -c 'exit 1;' /var/tmp/matrix_par.results) of $(grep -c '^seeded' /var/tmp/matrix_par.results)"

#!/bin/bash
# baseline with the guard OFF: the repository's own build and test suite on a scratch copy of the working tree
set -e
SCR=${VERIF_SCRATCH:-/var/tmp}/verif-baseline.$$
rm -rf "$SCR"; mkdir -p "$SCR"; trap 'rm -rf "$SCR"' EXIT
cd /repo
git ls-files -co --exclude-standard -z | xargs -0 cp --parents -t "$SCR"
cd "$SCR"
make -j16 it >build.log 2>&1 || { tail -20 build.log; exit 1; }
make test

#!/bin/bash
# tools/coverage.sh [tier] [IDs...] - DEVELOPMENT AID, not a check: which basic blocks of the real notqmail code do the
# simulated batches execute? Builds the images once more with gcc's -fsanitize-coverage=trace-pc (VERIF_VARIANT=cov),
# runs the given properties' batches (default: all, quick) with the simulator recording block hits (sim/cov.cc), and
# writes out/coverage/report.txt: per source file and function, blocks reached / instrumented, and the source lines of
# blocks never reached. Evidence files are not touched (VERIF_EVIDENCE_DIR). Used to find what the generators never
# reach (DESIGN 10.8); a block reached is not a block checked.
cd "$(dirname "$0")/.." || exit 2
V=$(pwd)
TIER=${1:-quick}; shift
IDS=${*:-C01 C02 C03 C04 C05 C06 C07 C08 C09 C10 C11 C12 C13 C14 C15 C16 C17 C18 C19 C20}
SIMQ=${VERIF_SIMQ:-out/simq}
IMG=$(VERIF_VARIANT=cov tools/build_repo.sh) || exit 2
COV=$V/out/coverage; rm -rf "$COV"; mkdir -p "$COV/raw" /var/tmp/verif-cov-evidence
for id in $IDS; do
  mkdir -p "$COV/raw/$id"
  VERIF_COV_DIR="$COV/raw/$id" VERIF_EVIDENCE_DIR=/var/tmp/verif-cov-evidence $SIMQ check "$id" "$TIER" --images "$IMG" --verif "$V" 2>/dev/null | grep "^simq: [0-9]" | sed "s/^/$id /"
done
python3 tools/coverage_report.py "$IMG" "$COV" > "$COV/report.txt"
head -60 "$COV/summary.txt"
rm -rf /var/tmp/verif-cov-evidence

#!/bin/bash
# tools/try_seeded.sh <seeded-dir-name> [tier] [property IDs...]  : apply /verif/seeded/<name>/patch.diff to /repo, run the
# checks of the named properties (default: the property in meta.json / the name's prefix), undo. Evidence goes to a scratch
# directory so the committed evidence keeps describing the unchanged tree. Development only.
set -u
N=$1; TIER=${2:-quick}; shift; shift 2>/dev/null
P=/verif/seeded/$N/patch.diff; [ -f "$P" ] || { echo "no $P"; exit 2; }
DEF=${N%%-*}; case "$DEF" in C[0-9][0-9]) ;; *) DEF=$(jq -r '.breaks_property // .property' "/verif/seeded/$N/meta.json" 2>/dev/null | grep -o "C[0-9][0-9]" | head -1) ;; esac
IDS=${*:-$DEF}
[ -z "$(git -C /repo status --porcelain --untracked-files=no)" ] || { echo "/repo is not clean"; exit 2; }
trap '' PIPE                                   # a reader that stops early must not keep us from restoring /repo
trap 'git -C /repo checkout -- . 2>/dev/null' EXIT
git -C /repo apply --whitespace=nowarn "$P" || exit 2
export VERIF_EVIDENCE_DIR=/var/tmp/verif-seeded-evidence; mkdir -p $VERIF_EVIDENCE_DIR
rc=0
for ID in $IDS; do
  /verif/tools/check "$ID" "$TIER" > /var/tmp/try_seeded.$$.out 2>&1; r=$?
  echo "seeded $N vs $ID $TIER: exit $r; $(grep -c '^VIOLATION' /var/tmp/try_seeded.$$.out) VIOLATION line(s): $(grep -m3 'class=' /var/tmp/try_seeded.$$.out | tr -s ' ' | tr '\n' ';')"
  grep -m2 -A1 "class=" /var/tmp/try_seeded.$$.out | cut -c1-400
  [ $r -ne 0 ] && rc=1
done
rm -f /var/tmp/try_seeded.$$.out
git -C /repo checkout -- .
exit $rc

// util.h - PRNG, hashing, tiny JSON. No host nondeterminism in here.
#pragma once
#include <stdint.h>
#include <string>
#include <vector>
#include <map>
#include <memory>
#include <stdexcept>

namespace sim {

static inline uint64_t splitmix64(uint64_t &x) {
  uint64_t z = (x += 0x9e3779b97f4a7c15ULL);
  z = (z ^ (z >> 30)) * 0xbf58476d1ce4e5b9ULL;
  z = (z ^ (z >> 27)) * 0x94d049bb133111ebULL;
  return z ^ (z >> 31);
}
static inline uint64_t mix64(uint64_t a, uint64_t b) {
  uint64_t x = a ^ (b + 0x9e3779b97f4a7c15ULL + (a << 6) + (a >> 2));
  return splitmix64(x);
}

struct Rng {  // xoshiro256**
  uint64_t s[4];
  explicit Rng(uint64_t seed = 1) { reseed(seed); }
  void reseed(uint64_t seed) { for (int i = 0; i < 4; i++) s[i] = splitmix64(seed); }
  static inline uint64_t rotl(uint64_t x, int k) { return (x << k) | (x >> (64 - k)); }
  uint64_t next() {
    uint64_t r = rotl(s[1] * 5, 7) * 9, t = s[1] << 17;
    s[2] ^= s[0]; s[3] ^= s[1]; s[1] ^= s[2]; s[0] ^= s[3]; s[2] ^= t; s[3] = rotl(s[3], 45);
    return r;
  }
  // uniform in [0,n)
  uint64_t below(uint64_t n) { return n ? next() % n : 0; }
  // inclusive range
  int64_t range(int64_t lo, int64_t hi) { return lo + (int64_t)below((uint64_t)(hi - lo + 1)); }
  bool chance(double p) { return (next() >> 11) * (1.0 / 9007199254740992.0) < p; }
  double unit() { return (next() >> 11) * (1.0 / 9007199254740992.0); }
  template <class T> const T &pick(const std::vector<T> &v) { return v[below(v.size())]; }
};

struct Hash64 {  // FNV-1a 64 with a final mix; order-sensitive
  uint64_t h = 1469598103934665603ULL;
  void bytes(const void *p, size_t n) {
    const unsigned char *c = (const unsigned char *)p;
    for (size_t i = 0; i < n; i++) { h ^= c[i]; h *= 1099511628211ULL; }
  }
  void u64(uint64_t v) { bytes(&v, 8); }
  void str(const std::string &s) { u64(s.size()); bytes(s.data(), s.size()); }
  uint64_t get() const { uint64_t x = h; return splitmix64(x); }
};
static inline uint64_t hash_str(const std::string &s) { Hash64 h; h.str(s); return h.get(); }

// ---------------------------------------------------------------- JSON
struct Json;
typedef std::shared_ptr<Json> JsonP;
struct Json {
  enum T { NUL, BOOL, NUM, STR, ARR, OBJ } t = NUL;
  bool b = false;
  double num = 0; int64_t inum = 0; bool is_int = false;
  std::string s;
  std::vector<Json> a;
  std::vector<std::pair<std::string, Json>> o;  // insertion order kept (deterministic output)

  Json() {}
  Json(bool v) : t(BOOL), b(v) {}
  Json(int v) : t(NUM), num(v), inum(v), is_int(true) {}
  Json(unsigned v) : t(NUM), num(v), inum(v), is_int(true) {}
  Json(long v) : t(NUM), num((double)v), inum(v), is_int(true) {}
  Json(long long v) : t(NUM), num((double)v), inum(v), is_int(true) {}
  Json(unsigned long v) : t(NUM), num((double)v), inum((int64_t)v), is_int(true) {}
  Json(unsigned long long v) : t(NUM), num((double)v), inum((int64_t)v), is_int(true) {}
  Json(double v) : t(NUM), num(v), inum((int64_t)v), is_int(false) {}
  Json(const char *v) : t(STR), s(v) {}
  Json(const std::string &v) : t(STR), s(v) {}
  static Json arr() { Json j; j.t = ARR; return j; }
  static Json obj() { Json j; j.t = OBJ; return j; }

  bool is_null() const { return t == NUL; }
  bool has(const std::string &k) const { for (auto &p : o) if (p.first == k) return true; return false; }
  const Json &operator[](const std::string &k) const {
    static Json nul; for (auto &p : o) if (p.first == k) return p.second; return nul;
  }
  Json &set(const std::string &k, const Json &v) {
    if (t != OBJ) { t = OBJ; }
    for (auto &p : o) if (p.first == k) { p.second = v; return *this; }
    o.emplace_back(k, v); return *this;
  }
  Json &at(const std::string &k) {
    if (t != OBJ) t = OBJ;
    for (auto &p : o) if (p.first == k) return p.second;
    o.emplace_back(k, Json()); return o.back().second;
  }
  void erase(const std::string &k) { for (size_t i = 0; i < o.size(); i++) if (o[i].first == k) { o.erase(o.begin() + i); return; } }
  Json &push(const Json &v) { if (t != ARR) t = ARR; a.push_back(v); return *this; }
  int64_t i(int64_t d = 0) const { return t == NUM ? (is_int ? inum : (int64_t)num) : (t == BOOL ? b : d); }
  double d(double dflt = 0) const { return t == NUM ? num : dflt; }
  bool bo(bool d = false) const { return t == BOOL ? b : (t == NUM ? num != 0 : d); }
  const std::string &str() const { return s; }
  std::string str_or(const std::string &d) const { return t == STR ? s : d; }
  int64_t geti(const std::string &k, int64_t d = 0) const { const Json &j = (*this)[k]; return j.t == NUL ? d : j.i(d); }
  double getd(const std::string &k, double d = 0) const { const Json &j = (*this)[k]; return j.t == NUL ? d : j.d(d); }
  bool getb(const std::string &k, bool d = false) const { const Json &j = (*this)[k]; return j.t == NUL ? d : j.bo(d); }
  std::string gets(const std::string &k, const std::string &d = "") const { const Json &j = (*this)[k]; return j.t == STR ? j.s : d; }
  size_t size() const { return t == ARR ? a.size() : o.size(); }

  std::string dump(int indent = -1) const;
  static Json parse(const std::string &text);  // throws std::runtime_error
};

// binary-safe string <-> JSON string: bytes outside printable ASCII become \u00XX
std::string json_escape(const std::string &s);

std::string read_file_host(const std::string &path);  // host fs; throws
bool write_file_host(const std::string &path, const std::string &data);
std::string hex64(uint64_t v);
std::string printable(const std::string &s, size_t max = 200);  // for messages

}  // namespace sim

// cov.cc - development aid, not part of any check: basic-block coverage of the REAL qmail code while it runs under
// the simulator. Images built with VERIF_VARIANT=cov carry gcc's -fsanitize-coverage=trace-pc, which calls
// __sanitizer_cov_trace_pc() at every basic block; the simulator owns that symbol and, when VERIF_COV_DIR is set,
// marks the block's offset in a bitmap that lives on the simulator's side (so segment snapshots of the images do not
// touch it). Every worker writes <dir>/<image>.<pid>.cov (one hex offset per line) when it ends; tools/coverage.sh
// merges them and maps offsets to functions and lines. With ordinary images the callback is never called.
#include <cstdint>
#include <cstdio>
#include <cstdlib>
#include <string>
#include <vector>
#include <unistd.h>
#include "simos.h"

namespace sim {
struct CovImg { uintptr_t lo, hi; std::string name; std::vector<uint8_t> hit; };
static std::vector<CovImg *> g_cov;
static CovImg *g_cov_last = nullptr;
static const char *g_cov_dir = nullptr;

void cov_register(const std::string &name, uintptr_t lo, uintptr_t hi) {
  static bool asked = false;
  if (!asked) { asked = true; g_cov_dir = getenv("VERIF_COV_DIR"); }
  if (!g_cov_dir || hi <= lo) return;
  for (CovImg *x : g_cov) if (x->name == name) { if (hi > x->hi) { x->hit.resize(hi - x->lo, 0); x->hi = hi; } return; }
  CovImg *c = new CovImg{lo, hi, name, std::vector<uint8_t>(hi - lo, 0)};
  g_cov.push_back(c);
}
void cov_dump() {
  if (!g_cov_dir) return;
  for (CovImg *c : g_cov) {
    std::string fn = std::string(g_cov_dir) + "/" + c->name + "." + std::to_string((long)getpid()) + ".cov";
    FILE *f = fopen(fn.c_str(), "w"); if (!f) continue;
    for (size_t i = 0; i < c->hit.size(); i++) if (c->hit[i]) fprintf(f, "%zx\n", i);
    fclose(f);
  }
}
}  // namespace sim

extern "C" __attribute__((no_sanitize("address", "undefined"))) void __sanitizer_cov_trace_pc() {
  using namespace sim;
  if (g_cov.empty()) return;
  uintptr_t pc = (uintptr_t)__builtin_return_address(0);
  CovImg *c = g_cov_last;
  if (!c || pc < c->lo || pc >= c->hi) {
    c = nullptr;
    for (CovImg *x : g_cov) if (pc >= x->lo && pc < x->hi) { c = x; break; }
    if (!c) return;
    g_cov_last = c;
  }
  c->hit[pc - c->lo] = 1;
}

// simos.h - simulated POSIX kernel for running the unmodified qmail programs in one process.
// See DESIGN.md section 2. Single host thread; every simulated process is a coroutine.
#pragma once
#include "util.h"
#include <sys/types.h>
#include <sys/stat.h>
#include <sys/select.h>
#include <sys/time.h>
#include <dirent.h>
#include <pwd.h>
#include <grp.h>
#include <signal.h>
#include <ucontext.h>
#include <functional>
#include <set>
#include <deque>

namespace sim {

// ---------------------------------------------------------------- calls / events
enum CallId {
  C_ANY = 0, C_OPEN, C_CLOSE, C_READ, C_WRITE, C_FSYNC, C_FTRUNCATE, C_STAT, C_LINK, C_UNLINK, C_RENAME,
  C_UTIMES, C_CHDIR, C_OPENDIR, C_READDIR, C_CLOSEDIR, C_FLOCK, C_PIPE, C_SELECT, C_SLEEP, C_FORK, C_EXEC,
  C_WAITPID, C_EXIT, C_SETUID, C_SETGID, C_SETGROUPS, C_SIGNAL, C_CONNECT, C_DNS, C_MALLOC, C_SPAWN,
  C_CRASH, C_KILL, C_ALARM, C_MKDIR, C_GETPW, C_FSTAT, C_NCALLS
};
const char *call_name(CallId c);
CallId call_by_name(const std::string &s);

struct Proc;
struct Pipe;
struct Inode;
struct OFile;

struct Event {
  uint64_t seq = 0;
  int64_t t = 0;
  int pid = 0;
  Proc *proc = nullptr;
  CallId call = C_ANY;
  std::string path, path2;  // canonical absolute paths where applicable
  Inode *ino = nullptr;     // inode acted on (valid during the callback)
  Pipe *pipe = nullptr;     // pipe/stream acted on
  int fd = -1;
  int64_t off = -1;         // file offset at which a read/write took place
  const char *data = nullptr; size_t len = 0;  // payload of read/write (valid during callback)
  int64_t a = 0, b = 0;     // call-specific (flags, signal number, timeout, status ...)
  int64_t ret = 0; int err = 0;
  bool injected = false;    // result was produced by an injected fault
};

struct Observer {
  virtual ~Observer() {}
  virtual void on_event(const Event &e) = 0;
  virtual void on_idle(int64_t from, int64_t to) {}   // everything is blocked; the clock is about to jump
};

// ---------------------------------------------------------------- choices
enum ChoiceKind { CH_SCHED = 0, CH_SPLIT, CH_DIR, CH_IMAGE, CH_TICK, CH_MISC, CH_NKINDS };

struct Chooser {
  Rng rng{1};
  bool replaying = false;
  std::vector<uint32_t> replay; size_t pos = 0;
  std::vector<uint32_t> log; bool logging = false;
  uint64_t counts[CH_NKINDS] = {0};
  // returns a value in [0,n); gen() proposes one when not replaying. Default (end of replay list) is 0.
  uint32_t choose(uint32_t n, ChoiceKind k, const std::function<uint32_t(Rng &)> &gen) {
    counts[k]++;
    uint32_t v;
    if (n <= 1) v = 0;
    else if (replaying) v = pos < replay.size() ? replay[pos] % n : 0;
    else { v = gen(rng); if (v >= n) v %= n; }
    if (n > 1) { pos++; if (logging) log.push_back(v); }
    return v;
  }
};

// ---------------------------------------------------------------- faults
struct Fault {
  std::string actor;     // prefix of "role#ordinal" ("" = any actor)
  CallId call = C_ANY;   // C_ANY = any fault-eligible call
  std::string path;      // substring of canonical path ("" = any)
  int nth = 1;           // 1-based index among matching calls
  std::string kind;      // error | short | kill | crash | eintr | stall | signal | null(alloc) | garbage ...
  int err = 0;           // errno for kind=error
  int64_t arg = 0;       // bytes for short/partial, seconds for stall, signal number ...
  std::string image;     // crash: worst | best | random
  // runtime
  int seen = 0; bool fired = false;
  Json to_json() const; static Fault from_json(const Json &j);
};

// ---------------------------------------------------------------- file system
enum InoType { T_REG, T_DIR, T_FIFO };

struct WriteOp { uint64_t off; std::string bytes; };

struct Pipe {
  uint64_t id = 0;
  std::string buf;            // buffered bytes (front at rdpos)
  size_t rdpos = 0;
  size_t cap = 65536;
  int readers = 0, writers = 0;
  uint64_t w_counter = 0;     // number of writer opens ever (FIFO HUP semantics)
  bool is_fifo = false;
  bool preloaded = false;     // source pipe: capacity ignored
  bool reset = false;         // stream socket: connection reset
  std::string label;
  size_t avail() const { return buf.size() - rdpos; }
  size_t space() const { size_t a = avail(); return a >= cap ? 0 : cap - a; }
  uint64_t total_written = 0, total_read = 0;
};

struct Inode {
  uint64_t ino = 0;
  InoType type = T_REG;
  uint32_t mode = 0; uint32_t uid = 0, gid = 0;
  int nlink = 0;
  int64_t atime = 0, mtime = 0, ctime = 0;
  uint64_t hole = 0;             // sparse tail: this many zero bytes follow `data` (files planted by a world, read-only use: sizes beyond 4 GiB without the memory)
  std::string data;                // current content (REG)
  std::string synced;              // content as of last fsync
  std::vector<WriteOp> unsynced;   // ops since last fsync
  std::map<std::string, uint64_t> ents;  // DIR
  uint64_t parent = 0;             // DIR
  Pipe *fifo = nullptr;            // FIFO
  int opens = 0;                   // open file descriptions referring to it
  OFile *lock_owner = nullptr;     // flock
  std::string exec;                // exec-table binding for executables ("" = not executable image)
};

enum OKind { O_FILE, O_PIPE_R, O_PIPE_W, O_SINK, O_NULL, O_SOCK, O_DIRFD };

struct Sink { std::string label; std::string data; };

struct OFile {
  int refs = 0;
  OKind kind = O_FILE;
  Inode *ino = nullptr;
  int64_t pos = 0;
  int flags = 0;        // O_APPEND | O_NONBLOCK | access mode
  Pipe *pipe = nullptr; // O_PIPE_*, O_SOCK (rx)
  Pipe *tx = nullptr;   // O_SOCK
  Sink *sink = nullptr;
  uint64_t f_version = 0;  // FIFO reader: w_counter at open
  std::string path;     // canonical path at open (files)
  // socket state
  int sock_state = 0;   // 0 fresh, 1 connecting, 2 connected, 3 failed
  int sock_err = 0;
  int64_t sock_ready_at = 0;
  uint32_t peer_ip = 0; uint16_t peer_port = 0;
};

struct FdEnt { OFile *of = nullptr; bool cloexec = false; };

struct DirHandle {
  std::vector<std::string> names; size_t pos = 0; Inode *dir = nullptr; std::string path;
  struct dirent ent;
};

// ---------------------------------------------------------------- images / instances / tasks
struct Image;
struct Instance;
struct Task;

typedef int (*MainFn)(int, char **);
typedef std::function<int(int argc, char **argv)> NativeMain;

struct SigAct { void (*handler)(int) = SIG_DFL; };

struct Proc {
  int pid = 0, ppid = 0;
  uint32_t uid = 0, euid = 0, gid = 0, egid = 0;
  std::vector<uint32_t> groups;
  Inode *cwd = nullptr; std::string cwd_path;
  int after_signal = 0;          // fault kind signal_after: deliver this signal when the current call returns
  uint32_t umask_ = 022;
  std::vector<FdEnt> fds;
  SigAct sig[65];
  uint64_t blocked = 0, pending = 0;
  int64_t alarm_at = 0;          // 0 = none
  enum St { LIVE, ZOMBIE, GONE } st = LIVE;
  int status = 0;                // wait status
  Task *task = nullptr;
  std::string role;              // basename of executed image or stub name
  int ordinal = 0;
  std::string actor() const { return role + "#" + std::to_string(ordinal); }
  bool in_vfork = false; Proc *vfork_parent = nullptr;
  bool immortal = false;         // driver: survives machine crash, not a simulated process proper
  bool autoreap = false;         // children are reaped automatically (driver)
  std::vector<std::string> argv_s, env_s;
  uint64_t ncalls = 0;           // fault-eligible calls entered
  uint64_t nallocs = 0;
  struct passwd pw; std::string pw_name, pw_dir, pw_shell, pw_passwd; // getpwnam result storage
  struct group gr; std::string gr_name; char *gr_mem[1];
  void *user = nullptr;          // world-specific tag
  std::string tag;               // world-specific label (e.g. logical message id of an injector)
};

struct VforkFrame {
  ucontext_t ctx;
  Proc *parent = nullptr; Proc *child = nullptr;
  char *lo = nullptr; size_t len = 0; std::string save, shadow;
  volatile int resumed = 0; volatile int childpid = 0;
};

struct Task {
  int id = 0;
  ucontext_t ctx;
  char *stack = nullptr; size_t stack_sz = 0;
  Proc *proc = nullptr;
  Instance *inst = nullptr;      // null for native tasks
  bool native = false;
  enum St { READY, BLOCKED, DEAD } st = READY;
  std::function<bool()> ready;   // when BLOCKED
  int64_t deadline = -1;         // virtual time, -1 none
  bool interruptible = true;
  bool idle_only = false;        // runnable only when nothing else is
  int wake = 0;                  // reason set by scheduler
  bool killed = false;           // native: throw TaskKilled on resume
  std::vector<VforkFrame *> vforks;
  std::function<void()> entry;
  void *fake_stack = nullptr;
  uint64_t prio = 0; int streak = 0;  // PCT
  bool started = false;
};

struct TaskKilled {};  // thrown inside native tasks when their process is killed

struct PwEnt { std::string name; uint32_t uid, gid; std::string dir, shell; };
struct GrEnt { std::string name; uint32_t gid; };

enum { W_READY = 1, W_TIMEOUT = 2, W_SIGNAL = 3 };

struct Knobs {
  size_t pipe_cap = 65536, pipe_buf = 4096;
  int ino_policy = 0;          // 0 sequential, 1 lowest-free, 2 random small range
  double tick_p = 0.0;         // probability of +1s at a yield point
  double stick = 0.7;          // probability of not switching at a yield point
  bool pct = false; std::vector<uint64_t> pct_points;
  double split_p = 0.3;        // probability that a stream read is split
  double dir_shuffle_p = 0.5;
  uint64_t max_steps = 200000;
  uint64_t cpu_steps = 2000;   // yield points without clock movement that cost one virtual second
  int64_t max_sim_s = 60LL * 86400;
  size_t alloc_cap = 256u << 20;
};

struct Kernel {
  // --- configuration
  Knobs knobs;
  Chooser ch;
  std::vector<Fault> faults;
  std::vector<Observer *> observers;
  std::string image_dir;

  // --- state
  int64_t clock = 1000000000; int64_t start_clock_ = 1000000000;
  uint64_t seq = 0;           // event sequence
  uint64_t steps = 0;         // yield points
  int64_t last_clock_seen = 0; uint64_t steps_at_clock = 0;
  int64_t idle_total = 0;     // sum of idle clock jumps (time that passed while every process was blocked)
  Hash64 trace_hash;
  std::map<uint64_t, Inode *> inodes; uint64_t next_ino = 100; Inode *root = nullptr;
  std::map<int, Proc *> procs; int next_pid = 300;
  std::vector<Task *> tasks; int next_task = 1;
  Task *cur = nullptr;        // running task (null in scheduler)
  ucontext_t sched_ctx;
  std::vector<PwEnt> passwd; std::vector<GrEnt> group;
  std::string hostname = "sim.example";
  std::map<std::string, int> role_count;
  std::map<std::string, NativeMain> natives;   // exec-table: "stub:<name>" -> function
  std::deque<Pipe *> pipes; uint64_t next_pipe = 1;
  std::vector<Sink *> sinks;
  uint64_t fault_fired[64] = {0};
  std::map<std::string, uint64_t> fault_counts;   // by kind, fired
  std::map<std::string, uint64_t> probes;
  bool stop = false;          // ask the scheduler loop to end
  std::string abort_reason;   // infrastructure abort ("inconclusive: ...")
  bool crashed_flag = false;  // set by machine_crash; driver clears
  int crash_count = 0;
  bool keep_trace = false; std::vector<std::string> trace_lines; size_t trace_cap = 4000;
  // scheduler request from a task
  enum Req { R_NONE, R_YIELD, R_EXIT, R_EXEC, R_VFORK_DONE } req = R_NONE;

  Kernel();
  ~Kernel();

  // ---- file system helpers (host side, used by worlds to build/inspect state; no events, no yields)
  Inode *new_inode(InoType t, uint32_t mode, uint32_t uid, uint32_t gid);
  Inode *lookup(const std::string &abspath);                 // null if absent
  Inode *mkdir_p(const std::string &abspath, uint32_t mode = 0755, uint32_t uid = 0, uint32_t gid = 0);
  Inode *put_file(const std::string &abspath, const std::string &data, uint32_t mode = 0644, uint32_t uid = 0, uint32_t gid = 0);
  Inode *put_fifo(const std::string &abspath, uint32_t mode = 0622, uint32_t uid = 0, uint32_t gid = 0);
  Inode *put_exec(const std::string &abspath, const std::string &binding, uint32_t mode = 0755, uint32_t uid = 0, uint32_t gid = 0);
  bool remove_path(const std::string &abspath);              // unlink (host side)
  std::vector<std::string> listdir(const std::string &abspath);  // sorted names without . ..
  std::string worst_image(const Inode *i) const { return i->synced; }
  const std::string &best_image(const Inode *i) const { return i->data; }
  void free_inode_if_unused(Inode *i);
  Pipe *new_pipe(const std::string &label = "");
  Sink *new_sink(const std::string &label);

  // ---- processes
  struct FdSpec { int fd; OFile *of; };
  OFile *of_sink(Sink *s); OFile *of_null(); OFile *of_pipe_r(Pipe *p); OFile *of_pipe_w(Pipe *p);
  OFile *of_preloaded(const std::string &data, const std::string &label = "");   // read end of a pre-filled, writer-less pipe
  OFile *of_file(const std::string &abspath, int flags);
  // start a process from the exec table as a child of `parent` (may be null). Returns pid or -1.
  int spawn(Proc *parent, const std::string &abspath, const std::vector<std::string> &argv,
            const std::vector<std::string> &env, const std::vector<FdSpec> &fds, uint32_t uid, uint32_t gid,
            const std::string &cwd, const std::string &tag = "");
  int spawn_native(Proc *parent, const std::string &role, NativeMain fn, const std::vector<FdSpec> &fds,
                   uint32_t uid, uint32_t gid, const std::string &cwd, bool immortal = false);
  Proc *find_proc(int pid);
  Proc *find_role(const std::string &role);   // first live process with that role
  void post_signal(Proc *p, int sig);
  void kill_proc(Proc *p, int sig);           // immediate death with signal status (fault / SIGKILL)
  void machine_crash(const std::string &image_mode);   // everything but immortal procs dies; fs -> crash image

  // ---- scheduler
  void run();                                  // until no task can ever run, stop is set, or budget exhausted
  int block(std::function<bool()> ready, int64_t deadline, bool interruptible = true, bool idle_only = false);
  void yield_point();
  bool deliverable_signal(Proc *p);
  void deliver_signals();
  Proc *cp() { return cur ? cur->proc : nullptr; }
  void emit(Event &e);
  Fault *match_fault(CallId c, const std::string &path);
  void probe(const std::string &name, uint64_t n = 1) { probes[name] += n; }
  void note_fault(const std::string &kind) { fault_counts[kind]++; }

  // ---- system calls (operate on the current process; set errno; may yield/block)
  void after_syscall();
  int sys_open(const char *path, int flags, int mode);
  int sys_close(int fd);
  ssize_t sys_read(int fd, void *buf, size_t n);
  ssize_t sys_write(int fd, const void *buf, size_t n);
  off_t sys_lseek(int fd, off_t off, int whence);
  int sys_fstat(int fd, struct stat *st);
  int sys_stat(const char *path, struct stat *st);
  int sys_fsync(int fd);
  int sys_ftruncate(int fd, off_t len);
  int sys_link(const char *a, const char *b);
  int sys_unlink(const char *p);
  int sys_rename(const char *a, const char *b);
  int sys_utimes(const char *p, const struct timeval tv[2]);
  int sys_mkdir(const char *p, int mode);
  mode_t sys_umask(mode_t m);
  int sys_chdir(const char *p);
  int sys_fcntl(int fd, int cmd, long arg);
  DirHandle *sys_opendir(const char *p);
  struct dirent *sys_readdir(DirHandle *d);
  int sys_closedir(DirHandle *d);
  int sys_flock(int fd, int op);
  int sys_pipe(int fds[2]);
  int sys_select(int nfds, fd_set *r, fd_set *w, fd_set *e, struct timeval *tv);
  unsigned sys_sleep(unsigned s);
  unsigned sys_alarm(unsigned s);
  int sys_sigaction(int sig, const struct sigaction *sa, struct sigaction *old);
  int sys_sigprocmask(int how, const sigset_t *set, sigset_t *old);
  pid_t sys_fork();
  int sys_execve(const char *path, char *const argv[], char *const envp[], bool search_path);
  pid_t sys_waitpid(pid_t pid, int *status, int options);
  [[noreturn]] void sys_exit(int status);
  int sys_kill(pid_t pid, int sig);
  time_t sys_time(time_t *t);
  pid_t sys_getpid();
  uid_t sys_getuid();
  int sys_setuid(uid_t u); int sys_setgid(gid_t g); int sys_setgroups(size_t n, const gid_t *g);
  int sys_initgroups(const char *user, gid_t g);
  struct passwd *sys_getpwnam(const char *name);
  struct group *sys_getgrnam(const char *name);
  int sys_gethostname(char *buf, size_t n);
  void *sys_malloc(size_t n); void *sys_realloc(void *p, size_t n); void *sys_calloc(size_t a, size_t b); void sys_free(void *p);

  // ---- internals
  struct Walk { Inode *dir = nullptr; Inode *ino = nullptr; std::string name; std::string canon; int err = 0; };
  Walk walk(const std::string &path);            // relative to current process cwd
  int alloc_fd(Proc *p, OFile *of, int minfd = 0);
  OFile *get_of(int fd);
  void of_ref(OFile *of) { of->refs++; }
  void of_unref(OFile *of);
  void close_all_fds(Proc *p);
  bool readable(OFile *of); bool writable(OFile *of);
  void reap_to_zombie(Proc *p, int status);
  Proc *clone_proc(Proc *parent);
  Task *new_task(Proc *p, bool native, std::function<void()> entry);
  void free_task(Task *t);
  void switch_to_task(Task *t);
  [[noreturn]] void back_to_sched_forever();
  void to_sched();
  void advance_clock_to(int64_t t);
  int64_t next_deadline();
  void fire_alarms();
  void apply_crash_image(Inode *i, const std::string &mode);
  uint64_t alloc_ino_number();
  void trace(const Event &e);
  void finish_exec(Proc *p, Inode *exe, const std::vector<std::string> &argv, const std::vector<std::string> &env);
  // pending scheduler requests
  Proc *req_proc = nullptr; Inode *req_exe = nullptr; std::vector<std::string> req_argv, req_env; int req_status = 0;
  Task *req_task = nullptr;
  std::set<uint64_t> free_inos;
};

extern Kernel *K;  // the kernel of the run in progress (one at a time per host process)

// images (sched.cc)
struct Image {
  std::string name; void *handle = nullptr; MainFn main_fn = nullptr;
  struct Seg { char *addr; size_t len; };
  std::vector<Seg> segs; std::string pristine; size_t total = 0;
  Instance *resident = nullptr;
};
struct Instance {
  Image *img = nullptr;
  std::string saved;            // segment bytes while not resident
  std::set<void *> heap;
  char **environ_ = nullptr;
  int refs = 1;
};
Image *load_image(const std::string &dir, const std::string &name);  // cached per host process
void make_resident(Instance *in);
void raw_copy(void *dst, const void *src, size_t n);
// development aid (cov.cc): block coverage of the real code when VERIF_COV_DIR is set and the images are the cov variant
void cov_register(const std::string &name, uintptr_t lo, uintptr_t hi);
void cov_dump();

}  // namespace sim

// kpriv.h - shared by kernel_*.cc and sched.cc
#pragma once
#include "simos.h"
namespace sim {
// Generic pre-effect handling for fault kinds that are not call-specific. Returns true if fully handled.
bool generic_fault(Kernel *k, Fault *f);
}
#define ENTER(callid, pathstr)                                   \
  yield_point();                                                 \
  Fault *flt = match_fault(callid, pathstr);                     \
  if (flt && generic_fault(this, flt)) flt = nullptr;

#define FAIL_INJECTED(ev, kindname)                              \
  { note_fault(kindname); ev.ret = -1; ev.err = flt->err ? flt->err : EIO; ev.injected = true; emit(ev); errno = ev.err; return -1; }


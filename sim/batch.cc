// batch.cc - seeded search over plans on worker processes; minimisation; replay gate; evidence
#include "batch.h"
#include <stdio.h>
#include <string.h>
#include <stdlib.h>
#include <unistd.h>
#include <signal.h>
#include <poll.h>
#include <time.h>
#include <dirent.h>
#include <sys/wait.h>
#include <sys/stat.h>
#include <algorithm>

namespace sim {

static double now_s() { struct timespec ts; clock_gettime(CLOCK_MONOTONIC, &ts); return ts.tv_sec + ts.tv_nsec * 1e-9; }
static const char *argv_val(int argc, char **argv, const char *name, const char *dflt) { for (int i = 1; i + 1 < argc; i++) if (!strcmp(argv[i], name)) return argv[i + 1]; return dflt; }
static bool argv_flag(int argc, char **argv, const char *name) { for (int i = 1; i < argc; i++) if (!strcmp(argv[i], name)) return true; return false; }

static PropertyDef *find_prop(const std::string &id) { for (auto &d : property_registry()) if (d.id == id) return &d; return nullptr; }

// ------------------------------------------------------------------ shrinking
static bool still_fails(const Plan &p, const std::string &cls, const std::string &images, RunResult *out, int *runs) {
  (*runs)++;
  RunResult r = run_plan(p, images, false);
  bool f = r.verdict == "violation" && r.cls() == cls;
  if (f && out) *out = r;
  return f;
}

Plan shrink_plan(const Plan &p0, const std::string &cls, const std::string &images, int max_runs, int *runs_used) {
  Plan best = p0; int runs = 0; RunResult last;
  bool progress = true;
  while (progress && runs < max_runs) {
    progress = false;
    // 1. drop ops, largest chunks first
    for (size_t chunk = std::max<size_t>(1, best.ops.a.size() / 2); chunk >= 1 && runs < max_runs; chunk /= 2) {
      for (size_t i = 0; i + chunk <= best.ops.a.size() && runs < max_runs;) {
        Plan c = best; c.ops.a.erase(c.ops.a.begin() + (long)i, c.ops.a.begin() + (long)(i + chunk));
        if (still_fails(c, cls, images, &last, &runs)) { best = c; progress = true; } else i++;
      }
      if (chunk == 1) break;
    }
    // 2. drop faults
    for (size_t i = 0; i < best.faults.size() && runs < max_runs;) {
      Plan c = best; c.faults.erase(c.faults.begin() + (long)i);
      if (still_fails(c, cls, images, &last, &runs)) { best = c; progress = true; } else i++;
    }
    // 3. shrink arguments of ops
    for (size_t i = 0; i < best.ops.a.size() && runs < max_runs; i++) {
      Json &op = best.ops.a[i];
      if (op.has("body_len") && op.geti("body_len") > 0) {
        for (int64_t nl : {(int64_t)0, op.geti("body_len") / 2}) { if (nl >= op.geti("body_len")) continue; Plan c = best; c.ops.a[i].set("body_len", (long long)nl); if (still_fails(c, cls, images, &last, &runs)) { best = c; progress = true; break; } }
      }
      if (op.has("rcpts") && op["rcpts"].a.size() > 1) {
        for (size_t r = 0; r < best.ops.a[i]["rcpts"].a.size() && best.ops.a[i]["rcpts"].a.size() > 1 && runs < max_runs;) {
          Plan c = best; Json &rc = c.ops.a[i].at("rcpts"); rc.a.erase(rc.a.begin() + (long)r);
          if (still_fails(c, cls, images, &last, &runs)) { best = c; progress = true; } else r++;
        }
      }
      if (op.has("attempts") && op["attempts"].a.size() > 1) {
        for (size_t r = 0; r < best.ops.a[i]["attempts"].a.size() && best.ops.a[i]["attempts"].a.size() > 1 && runs < max_runs;) {
          Plan c = best; Json &rc = c.ops.a[i].at("attempts"); rc.a.erase(rc.a.begin() + (long)r);
          if (still_fails(c, cls, images, &last, &runs)) { best = c; progress = true; } else r++;
        }
      }
    }
  }
  // 4. explicit choice stream: record, truncate, zero
  {
    RunResult r = run_plan(best, images, false); runs++;
    if (r.verdict == "violation" && r.cls() == cls) {
      Plan c = best; c.has_choices = true; c.choices = r.choices;
      if (still_fails(c, cls, images, &last, &runs)) {
        best = c;
        // truncate (binary search on prefix length; beyond the prefix every choice is 0)
        size_t lo = 0, hi = best.choices.size();
        while (lo < hi && runs < max_runs) { size_t mid = (lo + hi) / 2; Plan t = best; t.choices.resize(mid); if (still_fails(t, cls, images, &last, &runs)) hi = mid; else lo = mid + 1; }
        { Plan t = best; t.choices.resize(hi); if (hi < best.choices.size() && still_fails(t, cls, images, &last, &runs)) best = t; }
        // zero blocks
        for (size_t chunk = std::max<size_t>(1, best.choices.size() / 2); chunk >= 1 && runs < max_runs; chunk /= 2) {
          for (size_t i = 0; i < best.choices.size() && runs < max_runs; i += chunk) {
            bool any = false; for (size_t j = i; j < std::min(best.choices.size(), i + chunk); j++) if (best.choices[j]) any = true;
            if (!any) continue;
            Plan t = best; for (size_t j = i; j < std::min(t.choices.size(), i + chunk); j++) t.choices[j] = 0;
            if (still_fails(t, cls, images, &last, &runs)) best = t;
          }
          if (chunk == 1) break;
        }
        while (!best.choices.empty() && best.choices.back() == 0) best.choices.pop_back();
      }
    }
  }
  if (runs_used) *runs_used = runs;
  return best;
}

// ------------------------------------------------------------------ replay
static std::string replay_line(const RunResult &r) {
  return "REPLAY verdict=" + r.verdict + " class=" + (r.cls().empty() ? "-" : r.cls()) + " trace_hash=" + hex64(r.trace_hash);
}

int replay_main(int argc, char **argv) {
  if (argc < 3) { fprintf(stderr, "usage: simq replay FILE --images DIR [--trace]\n"); return 2; }
  std::string images = argv_val(argc, argv, "--images", "");
  Plan p = Plan::from_json(Json::parse(read_file_host(argv[2])));
  bool tr = argv_flag(argc, argv, "--trace");
  RunResult r = run_plan(p, images, tr);
  if (tr) for (auto &l : r.trace) printf("%s\n", l.c_str());
  for (auto &v : r.violations) printf("  %s: %s\n", v.cls.c_str(), v.detail.c_str());
  std::string ecls = p.expect.gets("class"), eh = p.expect.gets("trace_hash");
  bool match = (ecls.empty() || ecls == r.cls()) && (eh.empty() || eh == hex64(r.trace_hash));
  printf("%s match=%s\n", replay_line(r).c_str(), match ? "yes" : "no");
  if (r.verdict == "violation") { printf("VIOLATION property=%s replay=%s\n", p.property.c_str(), argv[2]); return 1; }
  return r.verdict == "ok" ? 0 : 2;
}

// run `simq replay file` in a fresh process; returns the REPLAY line (empty on failure) and exit status
static std::string fresh_replay(const std::string &file, const std::string &images, int *status, int timeout_s) {
  int pfd[2]; if (pipe(pfd)) return "";
  pid_t pid = fork();
  if (pid == 0) {
    dup2(pfd[1], 1); close(pfd[0]); close(pfd[1]);
    alarm((unsigned)timeout_s);
    execl("/proc/self/exe", "simq", "replay", file.c_str(), "--images", images.c_str(), (char *)nullptr);
    _exit(127);
  }
  close(pfd[1]);
  std::string out; char b[4096]; ssize_t n;
  while ((n = read(pfd[0], b, sizeof b)) > 0) out.append(b, (size_t)n);
  close(pfd[0]);
  int st = 0; waitpid(pid, &st, 0); *status = st;
  size_t k = out.find("REPLAY ");
  if (k == std::string::npos) return "";
  size_t e = out.find('\n', k);
  return out.substr(k, e == std::string::npos ? std::string::npos : e - k);
}

// ------------------------------------------------------------------ known findings
struct Known { std::string property, sig, text; };
static std::vector<Known> load_known(const std::string &path) {
  std::vector<Known> v; std::string data;
  try { data = read_file_host(path); } catch (...) { return v; }
  size_t i = 0;
  while (i < data.size()) {
    size_t e = data.find('\n', i); if (e == std::string::npos) e = data.size();
    std::string l = data.substr(i, e - i); i = e + 1;
    if (l.compare(0, 6, "known:") != 0) continue;
    Known k; size_t p = l.find("property="); size_t s = l.find("sig=");
    if (p == std::string::npos || s == std::string::npos) continue;
    k.property = l.substr(p + 9, l.find(' ', p) - p - 9);
    size_t se = l.find(' ', s); k.sig = l.substr(s + 4, se == std::string::npos ? std::string::npos : se - s - 4);
    k.text = se == std::string::npos ? "" : l.substr(se + 1);
    while (!k.text.empty() && k.text[0] == ' ') k.text.erase(0, 1);
    v.push_back(k);
  }
  return v;
}

// ------------------------------------------------------------------ worker
struct WorkerSummary {
  uint64_t runs = 0, ok = 0, violations = 0, inconclusive = 0, infra = 0, nontrivial = 0, steps = 0, events = 0; int64_t sim_s = 0;
  std::map<std::string, uint64_t> faults, probes, classes;
  std::set<uint64_t> sched, states, nontrivial_sched, traces;
  std::vector<Json> samples;
  std::string infra_note;
};

static void merge(WorkerSummary &a, const Json &j) {
  a.runs += (uint64_t)j.geti("runs"); a.ok += (uint64_t)j.geti("ok"); a.violations += (uint64_t)j.geti("violations"); a.inconclusive += (uint64_t)j.geti("inconclusive");
  a.infra += (uint64_t)j.geti("infra"); a.nontrivial += (uint64_t)j.geti("nontrivial"); a.steps += (uint64_t)j.geti("steps"); a.events += (uint64_t)j.geti("events"); a.sim_s += j.geti("sim_s");
  for (auto &p : j["faults"].o) a.faults[p.first] += (uint64_t)p.second.i();
  for (auto &p : j["probes"].o) a.probes[p.first] += (uint64_t)p.second.i();
  for (auto &p : j["classes"].o) a.classes[p.first] += (uint64_t)p.second.i();
  for (auto &x : j["sched"].a) a.sched.insert((uint64_t)x.i());
  for (auto &x : j["states"].a) a.states.insert((uint64_t)x.i());
  for (auto &x : j["nsched"].a) a.nontrivial_sched.insert((uint64_t)x.i());
  for (auto &x : j["traces"].a) a.traces.insert((uint64_t)x.i());
  for (auto &x : j["samples"].a) if (a.samples.size() < 6) a.samples.push_back(x);
  if (a.infra_note.empty()) a.infra_note = j.gets("infra_note");
}

static Json summary_json(const WorkerSummary &s) {
  Json j = Json::obj();
  j.set("runs", (unsigned long long)s.runs).set("ok", (unsigned long long)s.ok).set("violations", (unsigned long long)s.violations).set("inconclusive", (unsigned long long)s.inconclusive)
      .set("infra", (unsigned long long)s.infra).set("nontrivial", (unsigned long long)s.nontrivial).set("steps", (unsigned long long)s.steps).set("events", (unsigned long long)s.events).set("sim_s", (long long)s.sim_s);
  Json f = Json::obj(); for (auto &p : s.faults) f.set(p.first, (unsigned long long)p.second); j.set("faults", f);
  Json pr = Json::obj(); for (auto &p : s.probes) pr.set(p.first, (unsigned long long)p.second); j.set("probes", pr);
  Json cl = Json::obj(); for (auto &p : s.classes) cl.set(p.first, (unsigned long long)p.second); j.set("classes", cl);
  Json a = Json::arr(); for (auto v : s.sched) a.push((long long)v); j.set("sched", a);
  Json b = Json::arr(); for (auto v : s.states) b.push((long long)v); j.set("states", b);
  Json c = Json::arr(); for (auto v : s.nontrivial_sched) c.push((long long)v); j.set("nsched", c);
  Json t = Json::arr(); for (auto v : s.traces) t.push((long long)v); j.set("traces", t);
  Json sm = Json::arr(); for (auto &x : s.samples) sm.push(x); j.set("samples", sm);
  j.set("infra_note", s.infra_note);
  return j;
}

static volatile sig_atomic_t g_cur_i = -1; static int g_out_fd = 1;
static void hang_handler(int) { char b[64]; int n = snprintf(b, sizeof b, "HANG %ld\n", (long)g_cur_i); if (write(g_out_fd, b, (size_t)n)) {} _exit(3); }

static void tally(WorkerSummary &sum, const Plan &plan, const RunResult &r, uint64_t i) {
  sum.runs++; sum.steps += r.steps; sum.events += r.events; sum.sim_s += r.sim_seconds;
  if (r.verdict == "ok") sum.ok++; else if (r.verdict == "violation") sum.violations++; else if (r.verdict == "inconclusive") sum.inconclusive++; else { sum.infra++; if (sum.infra_note.empty()) sum.infra_note = r.note; }
  for (auto &p : r.faults_fired) sum.faults[p.first] += p.second;
  for (auto &p : r.probes) sum.probes[p.first] += p.second;
  for (auto &s : r.known) sum.classes["known:" + s]++;
  if (r.verdict == "inconclusive") sum.classes["inconclusive: " + r.note]++;
  if (r.verdict == "violation") sum.classes[r.cls()]++;
  sum.sched.insert(r.sched_hash); sum.states.insert(r.state_hash); sum.traces.insert(r.trace_hash);
  if (r.nontrivial) { sum.nontrivial++; sum.nontrivial_sched.insert(mix64(r.sched_hash, r.trace_hash)); }
  if (sum.samples.size() < 2 && (i % 7 == 0 || sum.samples.empty())) {
    Json s = Json::obj(); s.set("i", (unsigned long long)i).set("label", plan.label).set("ops", plan.ops);
    Json f = Json::arr(); for (auto &x : plan.faults) f.push(x.to_json()); s.set("faults", f);
    s.set("steps", (unsigned long long)r.steps).set("verdict", r.verdict);
    std::string d = s.dump(); if (d.size() > 3000) { s.erase("ops"); s.set("ops_omitted", true); }
    sum.samples.push_back(s);
  }
}

// worker body: runs plans i = w, w+J, ... < n ; writes "S i", "V json", "K sig", "HANG i", "DONE file"
static void worker_main(PropertyDef *def, const std::string &tier, uint64_t seed, uint64_t n, int w, int J, uint64_t start_i, const std::string &images, const std::string &outdir,
                        double deadline, int outfd, bool hash_only) {
  g_out_fd = outfd;
  signal(SIGALRM, hang_handler);
  FILE *out = fdopen(outfd, "w"); setvbuf(out, nullptr, _IOLBF, 0);
  WorkerSummary sum; Json hashes = Json::arr();
  int vcount = 0; std::set<std::string> seen_classes;
  for (uint64_t i = start_i; i < n; i += (uint64_t)J) {
    if (now_s() > deadline) break;
    Plan plan;
    if (!def->gen(seed, tier, i, plan)) break;
    g_cur_i = (long)i; fprintf(out, "S %llu\n", (unsigned long long)i);
    alarm(60);
    RunResult r = run_plan(plan, images, false);
    alarm(0);
    tally(sum, plan, r, i);
    if (hash_only) { hashes.push(Json::arr().push((unsigned long long)i).push(hex64(r.trace_hash)).push(r.verdict)); continue; }
    for (auto &s : r.known) fprintf(out, "K %s\n", s.c_str());
    if (r.verdict == "violation" && vcount < 2 && !seen_classes.count(r.cls())) {
      vcount++; seen_classes.insert(r.cls());
      // determinism of the failing run, then minimise, then write the replay file
      alarm(600);
      RunResult r2 = run_plan(plan, images, false);
      Json v = Json::obj(); v.set("i", (unsigned long long)i).set("class", r.cls()).set("detail", r.violations[0].detail);
      if (r2.trace_hash != r.trace_hash || r2.cls() != r.cls()) { v.set("nondeterministic", true); fprintf(out, "V %s\n", v.dump().c_str()); alarm(0); continue; }
      int used = 0;
      Plan small = shrink_plan(plan, r.cls(), images, now_s() > deadline - 10 ? 40 : 200, &used);
      RunResult rs = run_plan(small, images, true);
      if (!(rs.verdict == "violation" && rs.cls() == r.cls())) { small = plan; rs = run_plan(small, images, true); }
      alarm(0);
      small.expect = Json::obj().set("class", rs.cls()).set("trace_hash", hex64(rs.trace_hash)).set("detail", rs.violations.empty() ? "" : rs.violations[0].detail);
      Json file = small.to_json();
      Json tr = Json::arr(); size_t from = rs.trace.size() > 400 ? rs.trace.size() - 400 : 0; for (size_t t = from; t < rs.trace.size(); t++) tr.push(rs.trace[t]);
      file.set("trace_tail", tr).set("original_seed", (unsigned long long)plan.seed).set("original_index", (unsigned long long)i).set("shrink_runs", used);
      std::string path = outdir + "/replays/" + def->id + "-" + std::to_string(seed) + "-" + std::to_string(i) + ".json";
      write_file_host(path, file.dump(1));
      v.set("replay", path).set("min_class", rs.cls()).set("min_detail", rs.violations.empty() ? "" : rs.violations[0].detail).set("ops", (unsigned long long)small.ops.a.size()).set("faults", (unsigned long long)small.faults.size());
      fprintf(out, "V %s\n", v.dump().c_str());
    }
  }
  std::string sfile = outdir + "/tmp/sum-" + std::to_string(getpid()) + ".json";
  Json sj = summary_json(sum); if (hash_only) sj.set("hashes", hashes);
  write_file_host(sfile, sj.dump());
  fprintf(out, "DONE %s\n", sfile.c_str());
  fflush(out);
  cov_dump();
  _exit(0);
}

struct BatchOut {
  WorkerSummary sum; std::vector<Json> violations; std::vector<std::string> known_sigs; std::vector<uint64_t> hangs, deaths; std::vector<int> death_status;
  std::map<uint64_t, std::pair<std::string, std::string>> hashes; uint64_t started = 0;
};

static void run_batch(PropertyDef *def, const std::string &tier, uint64_t seed, uint64_t n, int J, const std::string &images, const std::string &outdir, double deadline, bool hash_only, BatchOut &bo) {
  struct W { pid_t pid = 0; int fd = -1; std::string buf; long cur = -1; bool done = false; int idx = 0; };
  std::vector<W> ws((size_t)J);
  auto start_worker = [&](int w, uint64_t start_i) {
    int pfd[2]; if (pipe(pfd)) abort();
    fflush(stdout); fflush(stderr);
    pid_t pid = fork();
    if (pid == 0) { close(pfd[0]); for (auto &o : ws) if (o.fd >= 0) close(o.fd); worker_main(def, tier, seed, n, w, J, start_i, images, outdir, deadline, pfd[1], hash_only); _exit(0); }
    close(pfd[1]); ws[(size_t)w].pid = pid; ws[(size_t)w].fd = pfd[0]; ws[(size_t)w].buf.clear(); ws[(size_t)w].cur = -1; ws[(size_t)w].done = false; ws[(size_t)w].idx = w;
  };
  for (int w = 0; w < J; w++) start_worker(w, (uint64_t)w);
  int live = J;
  while (live > 0) {
    std::vector<struct pollfd> pf; std::vector<int> idx;
    for (int w = 0; w < J; w++) if (ws[(size_t)w].fd >= 0) { pf.push_back({ws[(size_t)w].fd, POLLIN, 0}); idx.push_back(w); }
    if (pf.empty()) break;
    poll(pf.data(), pf.size(), 1000);
    for (size_t q = 0; q < pf.size(); q++) {
      if (!(pf[q].revents & (POLLIN | POLLHUP))) continue;
      W &wk = ws[(size_t)idx[q]];
      char b[65536]; ssize_t r = read(wk.fd, b, sizeof b);
      if (r > 0) wk.buf.append(b, (size_t)r);
      size_t e;
      while ((e = wk.buf.find('\n')) != std::string::npos) {
        std::string l = wk.buf.substr(0, e); wk.buf.erase(0, e + 1);
        if (l.compare(0, 2, "S ") == 0) { wk.cur = atol(l.c_str() + 2); bo.started++; }
        else if (l.compare(0, 2, "V ") == 0) { try { bo.violations.push_back(Json::parse(l.substr(2))); } catch (...) {} }
        else if (l.compare(0, 2, "K ") == 0) bo.known_sigs.push_back(l.substr(2));
        else if (l.compare(0, 5, "HANG ") == 0) bo.hangs.push_back((uint64_t)atol(l.c_str() + 5));
        else if (l.compare(0, 5, "DONE ") == 0) { wk.done = true; try { Json sj = Json::parse(read_file_host(l.substr(5))); merge(bo.sum, sj); for (auto &h : sj["hashes"].a) bo.hashes[(uint64_t)h.a[0].i()] = {h.a[1].str(), h.a[2].str()}; } catch (...) {} unlink(l.substr(5).c_str()); }
      }
      if (r <= 0) {
        close(wk.fd); wk.fd = -1; int st = 0; waitpid(wk.pid, &st, 0);
        if (!wk.done) {
          // died mid-run: sanitizer report, fatal signal or hang
          bool hang = WIFEXITED(st) && WEXITSTATUS(st) == 3;
          if (!hang && wk.cur >= 0) { bo.deaths.push_back((uint64_t)wk.cur); bo.death_status.push_back(st); }
          uint64_t next = wk.cur >= 0 ? (uint64_t)wk.cur + (uint64_t)J : n;
          if (next < n && now_s() < deadline && bo.deaths.size() + bo.hangs.size() < 4) { start_worker(wk.idx, next); continue; }
        }
        live--;
      }
    }
  }
}

// ------------------------------------------------------------------ check
TierBudget tier_budget(const std::string &) { return TierBudget{0, 0}; }

static std::string g_verif_dir = "/verif";

static uint64_t env_u64(const char *name, uint64_t d) { const char *v = getenv(name); return v && *v ? strtoull(v, 0, 10) : d; }

int check_main(int argc, char **argv) {
  if (argc < 4) { fprintf(stderr, "usage: simq check ID quick|thorough --images DIR [--seed N] [--jobs J] [--verif DIR]\n"); return 2; }
  std::string id = argv[2], tier = argv[3];
  const char *et = getenv("VERIF_TIER"); if (et && (!strcmp(et, "quick") || !strcmp(et, "thorough"))) tier = et;
  std::string images = argv_val(argc, argv, "--images", "");
  g_verif_dir = argv_val(argc, argv, "--verif", "/verif");
  uint64_t seed = strtoull(argv_val(argc, argv, "--seed", std::to_string(env_u64("VERIF_SEED", 20260926)).c_str()), 0, 10);
  int J = atoi(argv_val(argc, argv, "--jobs", "16"));
  PropertyDef *def = find_prop(id);
  if (!def) { fprintf(stderr, "simq: unknown property %s\n", id.c_str()); return 2; }
  std::string outdir = g_verif_dir + "/out";
  mkdir(outdir.c_str(), 0755); mkdir((outdir + "/replays").c_str(), 0755); mkdir((outdir + "/tmp").c_str(), 0755); mkdir((g_verif_dir + "/evidence").c_str(), 0755);
  double t0 = now_s();
  double budget = (double)env_u64("VERIF_BUDGET_S", tier == "quick" ? 60 : 300);
  if (argv_val(argc, argv, "--budget", nullptr)) budget = atof(argv_val(argc, argv, "--budget", "60"));
  uint64_t n = strtoull(argv_val(argc, argv, "--n", "0"), 0, 10);
  if (!n) n = tier == "quick" ? def->quick_n : def->thorough_n;
  printf("simq: property=%s tier=%s seed=%llu plans<=%llu budget=%.0fs workers=%d images=%s\n", id.c_str(), tier.c_str(), (unsigned long long)seed, (unsigned long long)n, budget, J, images.c_str());

  int exit_code = 0; int nviol = 0; std::set<std::string> known_printed;
  std::vector<Known> known = load_known(g_verif_dir + "/known_findings.txt");
  auto is_known = [&](const std::string &sig, std::string &text) { for (auto &k : known) if (k.property == id && k.sig == sig) { text = k.text; return true; } return false; };
  auto report_violation = [&](const std::string &cls, const std::string &detail, const std::string &replay) {
    std::string text;
    if (is_known(cls, text)) { if (!known_printed.count(cls)) { known_printed.insert(cls); printf("KNOWN-FINDING: property=%s %s (%s)\n", id.c_str(), text.c_str(), cls.c_str()); } return; }
    nviol++; exit_code = 1;
    printf("  class=%s\n  %s\n", cls.c_str(), detail.c_str());
    printf("VIOLATION property=%s replay=%s\n", id.c_str(), replay.c_str());
  };

  // 1. corpus (regression inputs), in fresh processes
  uint64_t corpus_runs = 0;
  {
    std::string cdir = g_verif_dir + "/corpus/" + id;
    std::vector<std::string> files;
    if (DIR *d = opendir(cdir.c_str())) { while (struct dirent *de = readdir(d)) { std::string nm = de->d_name; if (nm.size() > 5 && nm.substr(nm.size() - 5) == ".json") files.push_back(cdir + "/" + nm); } closedir(d); }
    std::sort(files.begin(), files.end());
    for (auto &f : files) {
      int st = 0; std::string line = fresh_replay(f, images, &st, 120); corpus_runs++;
      if (line.empty()) { printf("simq: corpus replay of %s failed (status %d)\n", f.c_str(), st); exit_code = exit_code ? exit_code : 2; continue; }
      if (line.find("verdict=violation") != std::string::npos) {
        size_t c = line.find("class="); std::string cls = line.substr(c + 6, line.find(' ', c) - c - 6);
        report_violation(cls, "corpus plan " + f, f);
      }
    }
  }

  // 2. seeded batch
  BatchOut bo;
  run_batch(def, tier, seed, n, J, images, outdir, t0 + budget, false, bo);

  // 2b. determinism spot check on this very build: the first plans of the batch run twice more in hash-only mode, with two
  // different worker counts (different process histories); any difference in (choice stream, trace) hashes is an
  // infrastructure failure of the simulator, not a verdict about the property
  uint64_t det_plans = 0, det_differ = 0;
  {
    uint64_t m = std::min<uint64_t>(n, tier == "quick" ? 96 : 480);
    BatchOut da, db;
    run_batch(def, tier, seed, m, J, images, outdir, now_s() + 240, true, da);
    run_batch(def, tier, seed, m, 3, images, outdir, now_s() + 240, true, db);
    for (auto &p : da.hashes) { auto it = db.hashes.find(p.first); if (it == db.hashes.end()) continue; det_plans++; if (it->second != p.second) { det_differ++; if (det_differ < 4) printf("simq: plan %llu is not deterministic: %s/%s vs %s/%s\n", (unsigned long long)p.first, p.second.first.c_str(), p.second.second.c_str(), it->second.first.c_str(), it->second.second.c_str()); } }
    if (det_differ) { printf("simq: determinism spot check failed: %llu of %llu plans differ between two executions\n", (unsigned long long)det_differ, (unsigned long long)det_plans); exit_code = 2; }
  }

  // 2c. the simulated kernel against the host kernel (world K), in a fresh process: reported in the evidence, not a verdict
  std::string kself = "not run";
  { char exe[4096]; ssize_t l = readlink("/proc/self/exe", exe, sizeof exe - 1); if (l > 0) { exe[l] = 0; std::string cmd = std::string(exe) + " selftest --images '" + images + "' --n 200 --seed " + std::to_string(seed % 1000 + 1) + " 2>/dev/null | tail -1"; if (FILE *f = popen(cmd.c_str(), "r")) { char b[512]; std::string o; while (fgets(b, sizeof b, f)) o += b; pclose(f); while (!o.empty() && (o.back() == '\n')) o.pop_back(); if (!o.empty()) kself = o; } } }
  if (kself.find(" 0 disagree") == std::string::npos) printf("simq: note: %s\n", kself.c_str());

  // 3. violations: fresh-process replay gate
  std::sort(bo.violations.begin(), bo.violations.end(), [](const Json &a, const Json &b) { return a.geti("i") < b.geti("i"); });
  std::set<std::string> reported_classes;
  for (auto &v : bo.violations) {
    if (reported_classes.count(v.gets("class"))) continue;
    reported_classes.insert(v.gets("class"));
    if (v.getb("nondeterministic")) { printf("simq: plan %lld violated %s but did not reproduce in-process: non-deterministic\n", (long long)v.geti("i"), v.gets("class").c_str()); exit_code = 2; continue; }
    std::string file = v.gets("replay"); int st = 0;
    std::string line = fresh_replay(file, images, &st, 300);
    std::string want = "class=" + v.gets("min_class");
    if (line.find("verdict=violation") == std::string::npos || line.find(want) == std::string::npos || line.find("match=yes") == std::string::npos) {
      printf("simq: violation %s of plan %lld did not reproduce in a fresh process (%s)\n", v.gets("class").c_str(), (long long)v.geti("i"), line.c_str()); if (exit_code != 1) exit_code = 2; continue;
    }
    report_violation(v.gets("min_class"), v.gets("min_detail"), file);
  }
  for (auto &s : bo.known_sigs) { std::string text; if (is_known(s, text)) { if (!known_printed.count(s)) { known_printed.insert(s); printf("KNOWN-FINDING: property=%s %s (%s)\n", id.c_str(), text.c_str(), s.c_str()); } } else { nviol++; exit_code = 1; printf("VIOLATION property=%s replay=unlisted-finding:%s\n", id.c_str(), s.c_str()); } }
  // 4. worker deaths (sanitizer reports / fatal signals) and hangs: write the plan, replay fresh, report if it reproduces
  auto handle_bad_plan = [&](uint64_t i, const char *what) {
    Plan p; if (!def->gen(seed, tier, i, p)) return;
    p.expect = Json::obj().set("class", std::string(id) + "." + what);
    std::string path = outdir + "/replays/" + id + "-" + std::to_string(seed) + "-" + std::to_string(i) + "-" + what + ".json";
    write_file_host(path, p.to_json().dump(1));
    int st = 0; std::string line = fresh_replay(path, images, &st, 120);
    bool died = WIFSIGNALED(st) || (WIFEXITED(st) && (WEXITSTATUS(st) == 77 || WEXITSTATUS(st) == 127 || WEXITSTATUS(st) == 134));
    if (died) report_violation(std::string(id) + "." + what, std::string("the simulated program crashed the worker (") + what + ", wait status " + std::to_string(st) + "); see sanitizer output with: simq replay " + path, path);
    else { printf("simq: worker %s on plan %llu did not reproduce in a fresh process (%s)\n", what, (unsigned long long)i, line.c_str()); if (exit_code != 1) exit_code = 2; }
  };
  std::sort(bo.deaths.begin(), bo.deaths.end()); std::sort(bo.hangs.begin(), bo.hangs.end());
  { int before = nviol; size_t kf = known_printed.size(); for (uint64_t i : bo.deaths) { handle_bad_plan(i, "memory-safety-or-crash"); if (nviol > before || known_printed.size() > kf) break; } }
  { int before = nviol; size_t kf = known_printed.size(); for (uint64_t i : bo.hangs) { handle_bad_plan(i, "no-progress"); if (nviol > before || known_printed.size() > kf) break; } }

  WorkerSummary &s = bo.sum;
  if (s.infra > 0) { printf("simq: %llu runs ended with an infrastructure error: %s\n", (unsigned long long)s.infra, s.infra_note.c_str()); if (exit_code != 1) exit_code = 2; }
  if (s.runs > 50 && s.inconclusive * 100 > s.runs) { printf("simq: %llu of %llu runs inconclusive (budget exhausted) - workload and budgets do not fit\n", (unsigned long long)s.inconclusive, (unsigned long long)s.runs); if (exit_code != 1) exit_code = 2; }
  if (s.runs == 0 && bo.started == 0) { printf("simq: no plan was run\n"); if (exit_code != 1) exit_code = 2; }
  if (s.runs < bo.started) s.runs = bo.started;   // workers that died took their tallies with them

  for (auto &c : s.classes) printf("simq:   %s x%llu\n", c.first.c_str(), (unsigned long long)c.second);
  // 5. evidence
  double wall = now_s() - t0;
  Json ev = Json::obj();
  ev.set("property_id", id).set("tier", tier).set("seed", (unsigned long long)seed).set("level", def->level);
  Json cov = Json::obj();
  uint64_t distinct = def->level == "fault_enumeration" ? (uint64_t)s.traces.size() : (uint64_t)s.nontrivial_sched.size();
  cov.set("evaluations", (unsigned long long)(s.runs + corpus_runs)).set("distinct_nontrivial", (unsigned long long)distinct).set("rule", def->rule);
  Json samples = Json::arr(); for (auto &x : s.samples) samples.push(x); if (samples.a.empty()) samples.push("none"); cov.set("samples", samples);
  cov.set("runs", (unsigned long long)s.runs).set("runs_ok", (unsigned long long)s.ok).set("runs_inconclusive", (unsigned long long)s.inconclusive).set("runs_nontrivial", (unsigned long long)s.nontrivial)
      .set("corpus_plans", (unsigned long long)corpus_runs).set("runs_per_hour", (unsigned long long)(wall > 0 ? s.runs * 3600.0 / wall : 0)).set("seeds_per_hour", (unsigned long long)(wall > 0 ? s.runs * 3600.0 / wall : 0))
      .set("simulated_seconds", (long long)s.sim_s).set("yield_points", (unsigned long long)s.steps).set("system_calls_observed", (unsigned long long)s.events)
      .set("distinct_schedules", (unsigned long long)s.sched.size()).set("distinct_traces", (unsigned long long)s.traces.size()).set("distinct_abstract_states", (unsigned long long)s.states.size())
      .set("state_measure", def->state_measure);
  Json ff = Json::obj(); for (auto &p : s.faults) ff.set(p.first, (unsigned long long)p.second); cov.set("faults_fired", ff);
  Json pp = Json::obj(); for (auto &p : s.probes) pp.set(p.first, (unsigned long long)p.second); cov.set("probes", pp);
  Json real = Json::arr(); for (auto &x : def->real) real.push(x); Json stubs = Json::arr(); for (auto &x : def->stubs) stubs.push(x);
  cov.set("components_real", real).set("components_stub", stubs).set("technique", def->technique).set("workers", J);
  Json kf = Json::arr(); for (auto &x : known_printed) kf.push(x); cov.set("known_findings_seen", kf);
  cov.set("simulated_kernel_vs_host_kernel", kself);
  cov.set("determinism_recheck", Json::obj().set("plans_run_twice_more", (unsigned long long)det_plans).set("differ", (unsigned long long)det_differ).set("how", "hash-only re-execution with 16 and with 3 workers; (choice stream, trace) hashes compared"));
  ev.set("coverage", cov);
  Json as = Json::arr(); for (auto &x : def->assumptions) as.push(x); ev.set("assumptions", as);
  ev.set("wall_s", wall).set("violations", nviol);
  { const char *ed = getenv("VERIF_EVIDENCE_DIR");   // development only: keep the committed evidence when a check runs against a deliberately broken tree
    write_file_host((ed ? std::string(ed) : g_verif_dir + "/evidence") + "/" + id + ".json", ev.dump(1)); }
  printf("simq: %llu runs (%llu non-trivial, %llu inconclusive), %llu distinct schedules, %llu abstract states, %.1fs wall, %d violation(s), exit %d\n", (unsigned long long)s.runs, (unsigned long long)s.nontrivial,
         (unsigned long long)s.inconclusive, (unsigned long long)s.sched.size(), (unsigned long long)s.states.size(), wall, nviol, exit_code);
  return exit_code;
}

// ------------------------------------------------------------------ determinism gate
int determinism_main(int argc, char **argv) {
  std::string images = argv_val(argc, argv, "--images", "");
  uint64_t n = strtoull(argv_val(argc, argv, "--n", "200"), 0, 10);
  uint64_t seed = strtoull(argv_val(argc, argv, "--seed", "7"), 0, 10);
  g_verif_dir = argv_val(argc, argv, "--verif", "/verif");
  std::string outdir = g_verif_dir + "/out"; mkdir(outdir.c_str(), 0755); mkdir((outdir + "/tmp").c_str(), 0755); mkdir((outdir + "/replays").c_str(), 0755);
  std::string only = argc > 2 && argv[2][0] != '-' ? argv[2] : "";
  int bad = 0;
  for (auto &def : property_registry()) {
    if (!only.empty() && def.id != only) continue;
    BatchOut a, b;
    run_batch(&def, "quick", seed, n, 16, images, outdir, now_s() + 600, true, a);
    run_batch(&def, "quick", seed, n, 5, images, outdir, now_s() + 600, true, b);
    uint64_t diff = 0;
    for (auto &p : a.hashes) { auto it = b.hashes.find(p.first); if (it == b.hashes.end() || it->second != p.second) { diff++; if (diff < 4) printf("  plan %llu: %s/%s vs %s/%s\n", (unsigned long long)p.first, p.second.first.c_str(), p.second.second.c_str(), it == b.hashes.end() ? "-" : it->second.first.c_str(), it == b.hashes.end() ? "-" : it->second.second.c_str()); } }
    printf("determinism %s: %zu plans run twice (16 and 5 workers), %llu differ\n", def.id.c_str(), a.hashes.size(), (unsigned long long)diff);
    if (diff || a.hashes.size() != b.hashes.size() || a.hashes.empty()) bad = 1;
  }
  return bad ? 2 : 0;
}

}  // namespace sim

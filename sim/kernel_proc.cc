// kernel_proc.cc - processes, signals, time, select, ids, memory
#include "simos.h"
#include "kpriv.h"
#include <errno.h>
#include <fcntl.h>
#include <string.h>
#include <unistd.h>
#include <sys/wait.h>
#include <stdlib.h>
#include <algorithm>

namespace sim {

// ------------------------------------------------------------------ signals
static bool default_ignored(int sig) { return sig == SIGCHLD || sig == SIGURG || sig == SIGWINCH || sig == SIGCONT; }

void Kernel::post_signal(Proc *p, int sig) {
  if (!p || p->st != Proc::LIVE || sig <= 0 || sig > 64) return;
  if (p->sig[sig].handler == SIG_IGN) return;
  if (p->sig[sig].handler == SIG_DFL && default_ignored(sig)) return;
  p->pending |= 1ULL << (sig - 1);
}

bool Kernel::deliverable_signal(Proc *p) { return p && (p->pending & ~p->blocked) != 0; }

void Kernel::deliver_signals() {
  Proc *p = cp();
  if (!p) return;
  while (uint64_t m = (p->pending & ~p->blocked)) {
    int sig = __builtin_ctzll(m) + 1;
    p->pending &= ~(1ULL << (sig - 1));
    void (*h)(int) = p->sig[sig].handler;
    Event e; e.call = C_SIGNAL; e.a = sig;
    if (h == SIG_IGN) continue;
    if (h == SIG_DFL) {
      if (default_ignored(sig)) continue;
      e.b = 1; emit(e);
      kill_proc(p, sig);  // does not return for the current process
      return;
    }
    emit(e);
    uint64_t saved = p->blocked; p->blocked |= 1ULL << (sig - 1);
    h(sig);
    p->blocked = saved;
  }
}

int Kernel::sys_sigaction(int sig, const struct sigaction *sa, struct sigaction *old) {
  Proc *p = cp();
  if (sig <= 0 || sig > 64 || sig == SIGKILL || sig == SIGSTOP) { errno = EINVAL; return -1; }
  if (old) { memset(old, 0, sizeof *old); old->sa_handler = p->sig[sig].handler; }
  if (sa) { p->sig[sig].handler = sa->sa_handler; if (sa->sa_handler == SIG_IGN) p->pending &= ~(1ULL << (sig - 1)); }
  return 0;
}

int Kernel::sys_sigprocmask(int how, const sigset_t *set, sigset_t *old) {
  Proc *p = cp();
  if (old) { sigemptyset(old); for (int s = 1; s < 64; s++) if (p->blocked & (1ULL << (s - 1))) sigaddset(old, s); }
  if (set) {
    uint64_t m = 0; for (int s = 1; s < 64; s++) if (sigismember(set, s) == 1) m |= 1ULL << (s - 1);
    if (how == SIG_BLOCK) p->blocked |= m; else if (how == SIG_UNBLOCK) p->blocked &= ~m; else p->blocked = m;
    deliver_signals();
  }
  return 0;
}

int Kernel::sys_kill(pid_t pid, int sig) {
  yield_point();
  Proc *t = find_proc(pid);
  Event e; e.call = C_KILL; e.a = sig; e.b = pid;
  if (!t || t->st != Proc::LIVE) { e.ret = -1; e.err = ESRCH; emit(e); errno = ESRCH; return -1; }
  if (sig == SIGKILL) { e.ret = 0; emit(e); kill_proc(t, 9); return 0; }
  if (sig) post_signal(t, sig);
  e.ret = 0; emit(e);
  return 0;
}

// ------------------------------------------------------------------ time
time_t Kernel::sys_time(time_t *t) { if (t) *t = (time_t)clock; return (time_t)clock; }

unsigned Kernel::sys_sleep(unsigned s) {
  yield_point();
  Event e; e.call = C_SLEEP; e.a = s;
  int64_t until = clock + (int64_t)s;
  int wk = block([] { return false; }, until);
  unsigned left = 0;
  if (wk == W_SIGNAL) { left = until > clock ? (unsigned)(until - clock) : 0; deliver_signals(); }
  e.ret = left; emit(e);
  return left;
}

unsigned Kernel::sys_alarm(unsigned s) {
  Proc *p = cp();
  unsigned left = p->alarm_at > clock ? (unsigned)(p->alarm_at - clock) : 0;
  p->alarm_at = s ? clock + (int64_t)s : 0;
  Event e; e.call = C_ALARM; e.a = s; e.ret = left; emit(e);
  return left;
}

void Kernel::fire_alarms() {
  for (auto &pp : procs) {
    Proc *p = pp.second;
    if (p->st == Proc::LIVE && p->alarm_at && p->alarm_at <= clock) { p->alarm_at = 0; post_signal(p, SIGALRM); }
  }
}

void Kernel::advance_clock_to(int64_t t) { if (t > clock) clock = t; fire_alarms(); }

// ------------------------------------------------------------------ select
int Kernel::sys_select(int nfds, fd_set *r, fd_set *w, fd_set *ex, struct timeval *tv) {
  yield_point();
  Fault *flt = match_fault(C_SELECT, "");
  Event e; e.call = C_SELECT; e.a = tv ? (int64_t)tv->tv_sec : -1; e.b = nfds;
  if (flt && flt->kind == "eintr") { note_fault("eintr"); e.ret = -1; e.err = EINTR; e.injected = true; emit(e); errno = EINTR; return -1; }
  Proc *p = cp();
  std::vector<int> rf, wf;
  for (int fd = 0; fd < nfds; fd++) {
    if (r && FD_ISSET(fd, r)) rf.push_back(fd);
    if (w && FD_ISSET(fd, w)) wf.push_back(fd);
  }
  for (int fd : rf) if (!get_of(fd)) { e.ret = -1; e.err = EBADF; emit(e); errno = EBADF; return -1; }
  for (int fd : wf) if (!get_of(fd)) { e.ret = -1; e.err = EBADF; emit(e); errno = EBADF; return -1; }
  auto anyready = [this, p, rf, wf]() {
    for (int fd : rf) { OFile *of = p->fds[fd].of; if (of && readable(of)) return true; }
    for (int fd : wf) { OFile *of = p->fds[fd].of; if (of && writable(of)) return true; }
    return false;
  };
  int64_t deadline = -1;
  if (tv) deadline = clock + (int64_t)tv->tv_sec + (tv->tv_usec > 0 ? 1 : 0);
  int wk = W_READY;
  if (!anyready()) {
    if (tv && tv->tv_sec == 0 && tv->tv_usec == 0) wk = W_TIMEOUT;
    else wk = block(anyready, deadline);
  }
  if (wk == W_SIGNAL) { deliver_signals(); e.ret = -1; e.err = EINTR; emit(e); errno = EINTR; return -1; }
  int cnt = 0;
  fd_set rr, ww; FD_ZERO(&rr); FD_ZERO(&ww);
  for (int fd : rf) { OFile *of = get_of(fd); if (of && readable(of)) { FD_SET(fd, &rr); cnt++; } }
  for (int fd : wf) { OFile *of = get_of(fd); if (of && writable(of)) { FD_SET(fd, &ww); cnt++; } }
  if (r) *r = rr; if (w) *w = ww; if (ex) FD_ZERO(ex);
  e.ret = cnt; emit(e);
  return cnt;
}

// ------------------------------------------------------------------ ids
pid_t Kernel::sys_getpid() { return cp()->pid; }
uid_t Kernel::sys_getuid() { return cp()->uid; }
int Kernel::sys_setuid(uid_t u) {
  Proc *p = cp(); Event e; e.call = C_SETUID; e.a = u;
  Fault *flt = match_fault(C_SETUID, "");
  if (flt && flt->kind == "error") FAIL_INJECTED(e, "meta_error")
  if (p->euid != 0 && u != p->uid && u != p->euid) { e.ret = -1; e.err = EPERM; emit(e); errno = EPERM; return -1; }
  if (p->euid == 0) p->uid = u;
  p->euid = u; e.ret = 0; emit(e); return 0;
}
int Kernel::sys_setgid(gid_t g) {
  Proc *p = cp(); Event e; e.call = C_SETGID; e.a = g;
  Fault *flt = match_fault(C_SETGID, "");
  if (flt && flt->kind == "error") FAIL_INJECTED(e, "meta_error")
  if (p->euid != 0 && g != p->gid && g != p->egid) { e.ret = -1; e.err = EPERM; emit(e); errno = EPERM; return -1; }
  if (p->euid == 0) p->gid = g;
  p->egid = g; e.ret = 0; emit(e); return 0;
}
int Kernel::sys_setgroups(size_t n, const gid_t *g) {
  Proc *p = cp(); Event e; e.call = C_SETGROUPS; e.a = (int64_t)n; e.b = n ? g[0] : -1;
  Fault *flt = match_fault(C_SETGROUPS, "");
  if (flt && flt->kind == "error") FAIL_INJECTED(e, "meta_error")
  if (p->euid != 0) { e.ret = -1; e.err = EPERM; emit(e); errno = EPERM; return -1; }
  p->groups.assign(g, g + n); e.ret = 0; emit(e); return 0;
}
int Kernel::sys_initgroups(const char *user, gid_t g) {
  Proc *p = cp(); Event e; e.call = C_SETGROUPS; e.a = -2; e.b = g; e.path = user ? user : "";
  Fault *flt = match_fault(C_SETGROUPS, "");
  if (flt && flt->kind == "error") FAIL_INJECTED(e, "meta_error")
  if (p->euid != 0) { e.ret = -1; e.err = EPERM; emit(e); errno = EPERM; return -1; }
  p->groups.clear(); p->groups.push_back(g); e.ret = 0; emit(e); return 0;
}
struct passwd *Kernel::sys_getpwnam(const char *name) {
  Proc *p = cp();
  Event e; e.call = C_GETPW; e.path = name ? name : "";
  Fault *flt = match_fault(C_GETPW, e.path);
  if (flt && flt->kind == "error") { note_fault("lookup_error"); e.ret = -1; e.err = flt->err ? flt->err : EIO; e.injected = true; emit(e); errno = e.err; return nullptr; }
  for (auto &pe : passwd) if (pe.name == e.path) {
    p->pw_name = pe.name; p->pw_dir = pe.dir; p->pw_shell = pe.shell; p->pw_passwd = "x";
    memset(&p->pw, 0, sizeof p->pw);
    p->pw.pw_name = (char *)p->pw_name.c_str(); p->pw.pw_passwd = (char *)p->pw_passwd.c_str(); p->pw.pw_uid = pe.uid; p->pw.pw_gid = pe.gid;
    p->pw.pw_gecos = (char *)""; p->pw.pw_dir = (char *)p->pw_dir.c_str(); p->pw.pw_shell = (char *)p->pw_shell.c_str();
    e.ret = pe.uid; emit(e);
    errno = 0;
    return &p->pw;
  }
  e.ret = -1; emit(e);
  errno = 0;   // "not found" leaves errno untouched/zero
  return nullptr;
}
struct group *Kernel::sys_getgrnam(const char *name) {
  Proc *p = cp();
  for (auto &ge : group) if (ge.name == name) {
    p->gr_name = ge.name; memset(&p->gr, 0, sizeof p->gr); p->gr_mem[0] = nullptr;
    p->gr.gr_name = (char *)p->gr_name.c_str(); p->gr.gr_passwd = (char *)"x"; p->gr.gr_gid = ge.gid; p->gr.gr_mem = p->gr_mem;
    return &p->gr;
  }
  return nullptr;
}
int Kernel::sys_gethostname(char *buf, size_t n) {
  if (n <= hostname.size()) { errno = ENAMETOOLONG; return -1; }
  memcpy(buf, hostname.c_str(), hostname.size() + 1); return 0;
}

// ------------------------------------------------------------------ memory
void *Kernel::sys_malloc(size_t n) {
  Proc *p = cp();
  if (p) {
    Fault *flt = faults.empty() ? nullptr : match_fault(C_MALLOC, "");
    if (flt) { note_fault("alloc_fail"); Event e; e.call = C_MALLOC; e.a = (int64_t)n; e.ret = -1; e.err = ENOMEM; e.injected = true; emit(e); errno = ENOMEM; return nullptr; }
  }
  if (n > knobs.alloc_cap) { probe("alloc_over_cap"); errno = ENOMEM; return nullptr; }
  void *q = malloc(n ? n : 1);
  if (q && cur && cur->inst) cur->inst->heap.insert(q);
  return q;
}
void *Kernel::sys_realloc(void *o, size_t n) {
  if (!o) return sys_malloc(n);
  Proc *p = cp();
  if (p) {
    Fault *flt = faults.empty() ? nullptr : match_fault(C_MALLOC, "");
    if (flt) { note_fault("alloc_fail"); Event e; e.call = C_MALLOC; e.a = (int64_t)n; e.ret = -1; e.err = ENOMEM; e.injected = true; emit(e); errno = ENOMEM; return nullptr; }
  }
  if (n > knobs.alloc_cap) { probe("alloc_over_cap"); errno = ENOMEM; return nullptr; }
  void *q = realloc(o, n ? n : 1);
  if (q && cur && cur->inst) { cur->inst->heap.erase(o); cur->inst->heap.insert(q); }
  return q;
}
void *Kernel::sys_calloc(size_t a, size_t b) {
  size_t n; if (__builtin_mul_overflow(a, b, &n)) { errno = ENOMEM; return nullptr; }
  void *q = sys_malloc(n); if (q) memset(q, 0, n); return q;
}
void Kernel::sys_free(void *p) {
  if (!p) return;
  if (cur && cur->inst) cur->inst->heap.erase(p);
  free(p);
}

// ------------------------------------------------------------------ process table
Proc *Kernel::find_proc(int pid) { auto it = procs.find(pid); return it == procs.end() ? nullptr : it->second; }
Proc *Kernel::find_role(const std::string &role) {
  for (auto &pp : procs) if (pp.second->st == Proc::LIVE && pp.second->role == role && !pp.second->in_vfork) return pp.second;
  return nullptr;
}

Proc *Kernel::clone_proc(Proc *parent) {
  Proc *c = new Proc;
  c->pid = next_pid++; c->ppid = parent->pid;
  c->uid = parent->uid; c->euid = parent->euid; c->gid = parent->gid; c->egid = parent->egid; c->groups = parent->groups;
  c->cwd = parent->cwd; c->cwd_path = parent->cwd_path; c->umask_ = parent->umask_;
  c->fds = parent->fds; for (auto &f : c->fds) if (f.of) f.of->refs++;
  for (int s = 0; s < 65; s++) c->sig[s] = parent->sig[s];
  c->blocked = parent->blocked; c->pending = 0; c->alarm_at = 0;
  c->role = parent->role + "/child"; c->ordinal = ++role_count[c->role];
  c->tag = parent->tag;
  procs[c->pid] = c;
  return c;
}

void Kernel::reap_to_zombie(Proc *p, int status) {
  p->status = status; p->st = Proc::ZOMBIE; p->alarm_at = 0; p->pending = 0;
  close_all_fds(p);
  // orphans are re-parented to nobody and auto-reaped on exit
  for (auto &pp : procs) if (pp.second->ppid == p->pid && pp.second != p) { pp.second->ppid = 0; if (pp.second->st == Proc::ZOMBIE) pp.second->st = Proc::GONE; }
  Proc *par = find_proc(p->ppid);
  Event e; e.call = C_EXIT; e.proc = p; e.pid = p->pid; e.a = status; e.ret = 0; emit(e);
  // POSIX: a parent that has set SIGCHLD to SIG_IGN gets no zombies; its wait calls block until the last child is gone and then fail with ECHILD
  if (!par || par->st != Proc::LIVE || par->autoreap || par->sig[SIGCHLD].handler == SIG_IGN) p->st = Proc::GONE;
  else post_signal(par, SIGCHLD);
}

}  // namespace sim

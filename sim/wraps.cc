// wraps.cc - link-time wrappers: every libc call of the qmail images lands here (-Wl,--wrap=sym)
#include "simos.h"
#include <stdarg.h>
#include <errno.h>
#include <fcntl.h>
#include <string.h>
#include <unistd.h>
#include <sys/socket.h>
#include <netinet/in.h>

using sim::K;

#define WRAP extern "C" __attribute__((visibility("default")))
// a signal that arrived while the call was in progress is handled on the way back to user code, before anything else the program does
template <class T> static inline T AFTER(T v) { if (K) K->after_syscall(); return v; }

WRAP int __wrap_open(const char *path, int flags, ...) {
  int mode = 0;
  if (flags & O_CREAT) { va_list ap; va_start(ap, flags); mode = va_arg(ap, int); va_end(ap); }
  return AFTER(K->sys_open(path, flags, mode));
}
WRAP int __wrap_close(int fd) { return AFTER(K->sys_close(fd)); }
WRAP ssize_t __wrap_read(int fd, void *b, size_t n) { return AFTER(K->sys_read(fd, b, n)); }
WRAP ssize_t __wrap_write(int fd, const void *b, size_t n) { return AFTER(K->sys_write(fd, b, n)); }
WRAP off_t __wrap_lseek(int fd, off_t o, int w) { return AFTER(K->sys_lseek(fd, o, w)); }
WRAP int __wrap_fstat(int fd, struct stat *st) { return AFTER(K->sys_fstat(fd, st)); }
WRAP int __wrap_stat(const char *p, struct stat *st) { return AFTER(K->sys_stat(p, st)); }
WRAP int __wrap_lstat(const char *p, struct stat *st) { return AFTER(K->sys_stat(p, st)); }
WRAP int __wrap_fsync(int fd) { return AFTER(K->sys_fsync(fd)); }
WRAP int __wrap_ftruncate(int fd, off_t l) { return AFTER(K->sys_ftruncate(fd, l)); }
WRAP int __wrap_link(const char *a, const char *b) { return AFTER(K->sys_link(a, b)); }
WRAP int __wrap_unlink(const char *p) { return AFTER(K->sys_unlink(p)); }
WRAP int __wrap_rename(const char *a, const char *b) { return AFTER(K->sys_rename(a, b)); }
WRAP int __wrap_utimes(const char *p, const struct timeval tv[2]) { return AFTER(K->sys_utimes(p, tv)); }
WRAP int __wrap_mkdir(const char *p, mode_t m) { return AFTER(K->sys_mkdir(p, (int)m)); }
WRAP mode_t __wrap_umask(mode_t m) { return AFTER(K->sys_umask(m)); }
WRAP int __wrap_chdir(const char *p) { return AFTER(K->sys_chdir(p)); }
WRAP int __wrap_fcntl(int fd, int cmd, ...) {
  va_list ap; va_start(ap, cmd); long arg = va_arg(ap, long); va_end(ap);
  return AFTER(K->sys_fcntl(fd, cmd, arg));
}
WRAP DIR *__wrap_opendir(const char *p) { return (DIR *)K->sys_opendir(p); }
WRAP struct dirent *__wrap_readdir(DIR *d) { return AFTER(K->sys_readdir((sim::DirHandle *)d)); }
WRAP int __wrap_closedir(DIR *d) { return AFTER(K->sys_closedir((sim::DirHandle *)d)); }
WRAP int __wrap_flock(int fd, int op) { return AFTER(K->sys_flock(fd, op)); }
WRAP int __wrap_pipe(int fds[2]) { return AFTER(K->sys_pipe(fds)); }
WRAP int __wrap_select(int n, fd_set *r, fd_set *w, fd_set *e, struct timeval *tv) { return AFTER(K->sys_select(n, r, w, e, tv)); }
WRAP unsigned __wrap_sleep(unsigned s) { return AFTER(K->sys_sleep(s)); }
WRAP unsigned __wrap_alarm(unsigned s) { return AFTER(K->sys_alarm(s)); }
WRAP int __wrap_sigaction(int s, const struct sigaction *a, struct sigaction *o) { return AFTER(K->sys_sigaction(s, a, o)); }
WRAP int __wrap_sigprocmask(int h, const sigset_t *s, sigset_t *o) { return AFTER(K->sys_sigprocmask(h, s, o)); }
WRAP pid_t __wrap_fork(void) { return AFTER(K->sys_fork()); }
WRAP pid_t __wrap_vfork(void) { return AFTER(K->sys_fork()); }
WRAP int __wrap_execv(const char *p, char *const argv[]) { return AFTER(K->sys_execve(p, argv, nullptr, false)); }
WRAP int __wrap_execvp(const char *p, char *const argv[]) { return AFTER(K->sys_execve(p, argv, nullptr, true)); }
WRAP int __wrap_execve(const char *p, char *const argv[], char *const envp[]) { return AFTER(K->sys_execve(p, argv, envp, false)); }
WRAP pid_t __wrap_waitpid(pid_t p, int *st, int o) { return AFTER(K->sys_waitpid(p, st, o)); }
WRAP pid_t __wrap_wait(int *st) { return AFTER(K->sys_waitpid(-1, st, 0)); }
WRAP void __wrap__exit(int s) { K->sys_exit(s); }
WRAP void __wrap_exit(int s) { K->sys_exit(s); }
WRAP int __wrap_kill(pid_t p, int s) { return AFTER(K->sys_kill(p, s)); }
WRAP time_t __wrap_time(time_t *t) { return AFTER(K->sys_time(t)); }
WRAP pid_t __wrap_getpid(void) { return AFTER(K->sys_getpid()); }
WRAP pid_t __wrap_getppid(void) { return K->cp()->ppid; }
WRAP uid_t __wrap_getuid(void) { return AFTER(K->sys_getuid()); }
WRAP uid_t __wrap_geteuid(void) { return K->cp()->euid; }
WRAP gid_t __wrap_getgid(void) { return K->cp()->gid; }
WRAP gid_t __wrap_getegid(void) { return K->cp()->egid; }
WRAP int __wrap_setuid(uid_t u) { return AFTER(K->sys_setuid(u)); }
WRAP int __wrap_setgid(gid_t g) { return AFTER(K->sys_setgid(g)); }
WRAP int __wrap_setgroups(size_t n, const gid_t *g) { return AFTER(K->sys_setgroups(n, g)); }
WRAP int __wrap_initgroups(const char *u, gid_t g) { return AFTER(K->sys_initgroups(u, g)); }
WRAP struct passwd *__wrap_getpwnam(const char *n) { return AFTER(K->sys_getpwnam(n)); }
WRAP struct group *__wrap_getgrnam(const char *n) { return AFTER(K->sys_getgrnam(n)); }
WRAP int __wrap_gethostname(char *b, size_t n) { return AFTER(K->sys_gethostname(b, n)); }
WRAP void *__wrap_malloc(size_t n) { return AFTER(K->sys_malloc(n)); }
WRAP void *__wrap_realloc(void *p, size_t n) { return AFTER(K->sys_realloc(p, n)); }
WRAP void *__wrap_calloc(size_t a, size_t b) { return AFTER(K->sys_calloc(a, b)); }
WRAP void __wrap_free(void *p) { K->sys_free(p); }
WRAP char *__wrap_strdup(const char *s) { size_t n = strlen(s) + 1; char *p = (char *)K->sys_malloc(n); if (p) memcpy(p, s, n); return p; }

// network + resolver: implemented in net.cc
namespace sim {
int net_socket(int d, int t, int p);
int net_connect(int fd, const struct sockaddr *sa, socklen_t len);
int net_getpeername(int fd, struct sockaddr *sa, socklen_t *len);
int net_ioctl(int fd, unsigned long req, void *arg);
int net_res_query(const char *name, int cls, int type, unsigned char *ans, int anslen, bool search);
}
WRAP int __wrap_socket(int d, int t, int p) { return sim::net_socket(d, t, p); }
WRAP int __wrap_connect(int fd, const struct sockaddr *sa, socklen_t l) { return sim::net_connect(fd, sa, l); }
WRAP int __wrap_getpeername(int fd, struct sockaddr *sa, socklen_t *l) { return sim::net_getpeername(fd, sa, l); }
WRAP int __wrap_ioctl(int fd, unsigned long req, ...) { va_list ap; va_start(ap, req); void *a = va_arg(ap, void *); va_end(ap); return sim::net_ioctl(fd, req, a); }
WRAP int __wrap_res_query(const char *n, int c, int t, unsigned char *a, int l) { return sim::net_res_query(n, c, t, a, l, false); }
WRAP int __wrap_res_search(const char *n, int c, int t, unsigned char *a, int l) { return sim::net_res_query(n, c, t, a, l, true); }
WRAP int __wrap___res_init(void) { return 0; }
WRAP int __wrap_res_init(void) { return 0; }

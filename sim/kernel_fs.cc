// kernel_fs.cc - inodes, paths, host-side fs helpers, crash images
#include "simos.h"
#include <errno.h>
#include <fcntl.h>
#include <string.h>
#include <algorithm>

namespace sim {

Kernel *K = nullptr;

static const char *kCallNames[C_NCALLS] = {
  "any", "open", "close", "read", "write", "fsync", "ftruncate", "stat", "link", "unlink", "rename",
  "utimes", "chdir", "opendir", "readdir", "closedir", "flock", "pipe", "select", "sleep", "fork", "exec",
  "waitpid", "exit", "setuid", "setgid", "setgroups", "signal", "connect", "dns", "malloc", "spawn",
  "crash", "kill", "alarm", "mkdir", "getpw", "fstat"};
const char *call_name(CallId c) { return (c >= 0 && c < C_NCALLS) ? kCallNames[c] : "?"; }
CallId call_by_name(const std::string &s) {
  for (int i = 0; i < C_NCALLS; i++) if (s == kCallNames[i]) return (CallId)i;
  return C_ANY;
}

Json Fault::to_json() const {
  Json j = Json::obj();
  j.set("actor", actor).set("call", call_name(call));
  if (!path.empty()) j.set("path", path);
  j.set("nth", nth).set("kind", kind);
  if (err) j.set("err", err);
  if (arg) j.set("arg", (long long)arg);
  if (!image.empty()) j.set("image", image);
  return j;
}
Fault Fault::from_json(const Json &j) {
  Fault f; f.actor = j.gets("actor"); f.call = call_by_name(j.gets("call", "any")); f.path = j.gets("path");
  f.nth = (int)j.geti("nth", 1); f.kind = j.gets("kind"); f.err = (int)j.geti("err"); f.arg = j.geti("arg"); f.image = j.gets("image");
  return f;
}

Kernel::Kernel() {
  root = new Inode; root->ino = 2; root->type = T_DIR; root->mode = 0755; root->nlink = 2; root->parent = 2;
  inodes[2] = root;
}
Kernel::~Kernel() {
  for (auto &p : inodes) { if (p.second->fifo) { /* owned by pipes list */ } delete p.second; }
  for (auto *p : pipes) delete p;
  for (auto *s : sinks) delete s;
  for (auto &p : procs) delete p.second;
  // tasks are freed by run()/free_task
}

uint64_t Kernel::alloc_ino_number() {
  if (knobs.ino_policy == 1 && !free_inos.empty()) { uint64_t n = *free_inos.begin(); free_inos.erase(free_inos.begin()); return n; }
  if (knobs.ino_policy == 2 && !free_inos.empty()) {
    uint32_t k = ch.choose((uint32_t)free_inos.size() + 1, CH_MISC, [&](Rng &r) { return (uint32_t)r.below(free_inos.size() + 1); });
    if (k > 0) { auto it = free_inos.begin(); std::advance(it, k - 1); uint64_t n = *it; free_inos.erase(it); return n; }
  }
  return next_ino++;
}

Inode *Kernel::new_inode(InoType t, uint32_t mode, uint32_t uid, uint32_t gid) {
  Inode *i = new Inode; i->ino = alloc_ino_number(); i->type = t; i->mode = mode; i->uid = uid; i->gid = gid;
  i->atime = i->mtime = i->ctime = clock;
  inodes[i->ino] = i;
  return i;
}

void Kernel::free_inode_if_unused(Inode *i) {
  if (i->nlink > 0 || i->opens > 0) return;
  if (i == root) return;
  inodes.erase(i->ino);
  if (knobs.ino_policy != 0) free_inos.insert(i->ino);
  delete i;
}

static std::vector<std::string> split_path(const std::string &p) {
  std::vector<std::string> v; size_t i = 0;
  while (i < p.size()) { size_t j = p.find('/', i); if (j == std::string::npos) j = p.size(); if (j > i) v.push_back(p.substr(i, j - i)); i = j + 1; }
  return v;
}

// canonical path handling is purely lexical on the cwd string plus a real inode walk
Kernel::Walk Kernel::walk(const std::string &path) {
  Walk w;
  if (path.empty()) { w.err = ENOENT; return w; }
  Proc *p = cp();
  Inode *d; std::vector<std::string> canon;
  if (path[0] == '/' || !p || !p->cwd) { d = root; }
  else { d = p->cwd; canon = split_path(p->cwd_path); }
  std::vector<std::string> parts = split_path(path);
  bool trailing_slash = path.size() > 1 && path.back() == '/';
  if (parts.empty()) { w.dir = root; w.ino = root; w.name = "/"; w.canon = "/"; return w; }
  Inode *cur = d;
  // a walk that fails half-way still reports the lexical path it was asked for (traces and oracles name it)
  auto lexical_rest = [&](size_t from) { for (size_t q = from; q < parts.size(); q++) { if (parts[q] == ".") continue; if (parts[q] == "..") { if (!canon.empty()) canon.pop_back(); continue; } canon.push_back(parts[q]); } w.canon = ""; for (auto &c : canon) { w.canon += "/"; w.canon += c; } if (w.canon.empty()) w.canon = "/"; };
  for (size_t k = 0; k < parts.size(); k++) {
    const std::string &c = parts[k];
    bool last = k + 1 == parts.size();
    if (cur->type != T_DIR) { w.err = ENOTDIR; lexical_rest(k); return w; }
    if (c.size() > 255) { w.err = ENAMETOOLONG; lexical_rest(k); return w; }
    Inode *nxt = nullptr;
    if (c == ".") nxt = cur;
    else if (c == "..") { nxt = inodes.count(cur->parent) ? inodes[cur->parent] : root; if (!canon.empty()) canon.pop_back(); }
    else { auto it = cur->ents.find(c); if (it != cur->ents.end()) { auto ii = inodes.find(it->second); if (ii != inodes.end()) nxt = ii->second; } canon.push_back(c); }
    if (last) {
      w.dir = cur; w.ino = nxt; w.name = c;
      if (nxt && trailing_slash && nxt->type != T_DIR) { w.err = ENOTDIR; }
    } else {
      if (!nxt) { w.err = ENOENT; lexical_rest(k + 1); return w; }
      cur = nxt;
    }
  }
  w.canon = "";
  for (auto &c : canon) { w.canon += "/"; w.canon += c; }
  if (w.canon.empty()) w.canon = "/";
  return w;
}

Inode *Kernel::lookup(const std::string &abspath) {
  Task *save = cur; cur = nullptr;  // walk from root
  Walk w = walk(abspath);
  cur = save;
  return w.err ? nullptr : w.ino;
}

Inode *Kernel::mkdir_p(const std::string &abspath, uint32_t mode, uint32_t uid, uint32_t gid) {
  std::vector<std::string> parts = split_path(abspath);
  Inode *d = root;
  for (auto &c : parts) {
    auto it = d->ents.find(c);
    if (it != d->ents.end()) { d = inodes[it->second]; continue; }
    Inode *n = new_inode(T_DIR, mode, uid, gid); n->nlink = 2; n->parent = d->ino; d->ents[c] = n->ino; d->nlink++; d = n;
  }
  return d;
}

static void split_dir_base(const std::string &abspath, std::string &dir, std::string &base) {
  size_t k = abspath.rfind('/');
  dir = k == 0 ? "/" : abspath.substr(0, k); base = abspath.substr(k + 1);
}

Inode *Kernel::put_file(const std::string &abspath, const std::string &data, uint32_t mode, uint32_t uid, uint32_t gid) {
  std::string dir, base; split_dir_base(abspath, dir, base);
  Inode *d = mkdir_p(dir);
  auto it = d->ents.find(base);
  Inode *f;
  if (it != d->ents.end()) f = inodes[it->second];
  else { f = new_inode(T_REG, mode, uid, gid); f->nlink = 1; d->ents[base] = f->ino; }
  f->data = data; f->synced = data; f->unsynced.clear(); f->mode = mode; f->uid = uid; f->gid = gid;
  return f;
}
Inode *Kernel::put_fifo(const std::string &abspath, uint32_t mode, uint32_t uid, uint32_t gid) {
  std::string dir, base; split_dir_base(abspath, dir, base);
  Inode *d = mkdir_p(dir);
  Inode *f = new_inode(T_FIFO, mode, uid, gid); f->nlink = 1; d->ents[base] = f->ino;
  f->fifo = new_pipe("fifo:" + abspath); f->fifo->is_fifo = true; f->fifo->cap = knobs.pipe_cap;
  return f;
}
Inode *Kernel::put_exec(const std::string &abspath, const std::string &binding, uint32_t mode, uint32_t uid, uint32_t gid) {
  Inode *f = put_file(abspath, "#!sim " + binding + "\n", mode, uid, gid);
  f->exec = binding;
  return f;
}
bool Kernel::remove_path(const std::string &abspath) {
  std::string dir, base; split_dir_base(abspath, dir, base);
  Inode *d = lookup(dir); if (!d) return false;
  auto it = d->ents.find(base); if (it == d->ents.end()) return false;
  Inode *f = inodes[it->second]; d->ents.erase(it);
  if (f->type == T_DIR) { d->nlink--; f->nlink = 0; } else f->nlink--;
  free_inode_if_unused(f);
  return true;
}
std::vector<std::string> Kernel::listdir(const std::string &abspath) {
  std::vector<std::string> v; Inode *d = lookup(abspath);
  if (d && d->type == T_DIR) for (auto &e : d->ents) v.push_back(e.first);
  return v;
}

Pipe *Kernel::new_pipe(const std::string &label) {
  Pipe *p = new Pipe; p->id = next_pipe++; p->cap = knobs.pipe_cap; p->label = label; pipes.push_back(p); return p;
}
Sink *Kernel::new_sink(const std::string &label) { Sink *s = new Sink; s->label = label; sinks.push_back(s); return s; }

// ---- crash images -------------------------------------------------------------------------
void Kernel::apply_crash_image(Inode *i, const std::string &mode) {
  if (i->type != T_REG) return;
  if (mode == "best") { i->synced = i->data; i->unsynced.clear(); return; }
  if (mode == "worst") { i->data = i->synced; i->unsynced.clear(); return; }
  // random: each unsynced op independently kept / dropped / torn / length-only
  std::string img = i->synced;
  for (auto &op : i->unsynced) {
    uint32_t c = ch.choose(4, CH_IMAGE, [&](Rng &r) { return (uint32_t)r.below(4); });
    if (c == 1) continue;  // dropped
    size_t n = op.bytes.size();
    std::string bytes = op.bytes;
    if (c == 2 && n > 1) {  // torn: keep a prefix
      uint32_t k = ch.choose((uint32_t)n, CH_IMAGE, [&](Rng &r) { return (uint32_t)r.below(n); });
      bytes.resize(k);
      n = k;
    } else if (c == 3) {  // length kept, bytes zero (only meaningful when extending)
      if (op.off + n > img.size()) bytes.assign(n, '\0'); else continue;
    }
    if (op.off > img.size()) img.resize(op.off, '\0');
    if (op.off + n > img.size()) img.resize(op.off + n, '\0');
    memcpy(&img[op.off], bytes.data(), n);
  }
  i->data = img; i->synced = img; i->unsynced.clear();
}

void Kernel::machine_crash(const std::string &image_mode) {
  Event e; e.call = C_CRASH; e.path = image_mode; e.pid = cp() ? cp()->pid : 0; e.proc = cp();
  // 1. processes
  std::vector<Proc *> victims;
  for (auto &pp : procs) if (!pp.second->immortal && pp.second->st != Proc::GONE) victims.push_back(pp.second);
  for (Proc *p : victims) {
    p->st = Proc::GONE; p->alarm_at = 0; p->pending = 0;
    // drop descriptors without peer semantics (everything dies at once)
    for (auto &f : p->fds) if (f.of) { OFile *of = f.of; f.of = nullptr; if (--of->refs == 0) { if (of->ino) of->ino->opens = 0; delete of; } }
    p->fds.clear();
  }
  for (Task *t : tasks) {
    if (t->proc && t->proc->immortal) continue;
    t->killed = true;
    if (t->native && t->started && t != cur) t->st = Task::READY;  // resumed once so it unwinds (TaskKilled)
    else t->st = Task::DEAD;
  }
  // 2. pipes/fifos/locks
  for (auto &ip : inodes) {
    Inode *i = ip.second; i->opens = 0; i->lock_owner = nullptr;
    if (i->fifo) { i->fifo->buf.clear(); i->fifo->rdpos = 0; i->fifo->readers = i->fifo->writers = 0; }
  }
  // 3. files -> crash image; unlinked inodes vanish
  std::vector<Inode *> dead;
  for (auto &ip : inodes) { Inode *i = ip.second; if (i->nlink <= 0 && i != root) dead.push_back(i); else apply_crash_image(i, image_mode); }
  for (Inode *i : dead) { inodes.erase(i->ino); if (knobs.ino_policy != 0) free_inos.insert(i->ino); delete i; }
  crashed_flag = true; crash_count++;
  note_fault("crash_machine");
  emit(e);
}

}  // namespace sim

// run.cc - plan (de)serialisation and the execution of one plan
#include "world.h"
#include "net.h"
#include <string.h>
#include <stdlib.h>

namespace sim {

Json Plan::to_json() const {
  Json j = Json::obj();
  j.set("format", 1).set("property", property).set("world", world).set("seed", (unsigned long long)seed);
  if (!label.empty()) j.set("label", label);
  j.set("knobs", knobs).set("ops", ops);
  Json f = Json::arr(); for (auto &x : faults) f.push(x.to_json()); j.set("faults", f);
  if (has_choices) { Json c = Json::arr(); for (auto v : choices) c.push((unsigned)v); j.set("choices", c); }
  if (!expect.is_null()) j.set("expect", expect);
  return j;
}
Plan Plan::from_json(const Json &j) {
  Plan p; p.property = j.gets("property"); p.world = j.gets("world"); p.seed = (uint64_t)j.geti("seed", 1); p.label = j.gets("label");
  p.knobs = j["knobs"].t == Json::OBJ ? j["knobs"] : Json::obj();
  p.ops = j["ops"].t == Json::ARR ? j["ops"] : Json::arr();
  for (auto &f : j["faults"].a) p.faults.push_back(Fault::from_json(f));
  if (j.has("choices")) { p.has_choices = true; for (auto &c : j["choices"].a) p.choices.push_back((uint32_t)c.i()); }
  p.expect = j["expect"];
  return p;
}

std::vector<PropertyDef> &property_registry() { static std::vector<PropertyDef> r; return r; }

std::string gen_body(uint64_t seed, size_t len) {
  static const char *words[] = {"the ", "quick ", "brown ", "fox\n", "From ", ">From ", ".", "..\n", "\n", "x", "hello world\n", "Subject: t\n", "a:b\n", " \t", "\n\n", "zz"};
  Rng r(seed ^ 0xb0d1e5);
  std::string s;
  while (s.size() < len) { if (r.chance(0.1)) s.push_back((char)r.below(256)); else s += words[r.below(16)]; }
  s.resize(len);
  return s;
}

RunResult run_plan(const Plan &plan, const std::string &image_dir, bool keep_trace) {
  RunResult res;
  Kernel kern;
  K = &kern;
  kern.image_dir = image_dir;
  kern.keep_trace = keep_trace; if (getenv("SIMQ_TRACE_CAP")) kern.trace_cap = (size_t)atol(getenv("SIMQ_TRACE_CAP"));
  // kernel knobs
  const Json &kn = plan.knobs;
  kern.knobs.pipe_cap = (size_t)kn.geti("pipe_cap", 65536);
  kern.knobs.pipe_buf = (size_t)kn.geti("pipe_buf", 4096);
  kern.knobs.ino_policy = (int)kn.geti("ino_policy", 0);
  if (kn.has("ino_base")) kern.next_ino = (uint64_t)kn.geti("ino_base", 100);   // file systems with 64-bit inode numbers (XFS inode64, btrfs)
  kern.knobs.tick_p = kn.getd("tick_p", 0.0);
  kern.knobs.stick = kn.getd("stick", 0.7);
  kern.knobs.split_p = kn.getd("split_p", 0.3);
  kern.knobs.dir_shuffle_p = kn.getd("dir_shuffle_p", 0.5);
  kern.knobs.cpu_steps = (uint64_t)kn.geti("cpu_steps", 2000);
  kern.knobs.max_steps = (uint64_t)kn.geti("max_steps", 200000);
  kern.knobs.max_sim_s = kn.geti("max_sim_s", 60LL * 86400);
  kern.knobs.pct = kn.getb("pct", false);
  for (auto &x : kn["pct_points"].a) kern.knobs.pct_points.push_back((uint64_t)x.i());
  kern.clock = kern.start_clock_ = kn.geti("start_clock", 1000000000 + (int64_t)(mix64(plan.seed, 77) % 1000000000ULL));
  kern.faults = plan.faults;
  kern.ch.rng.reseed(mix64(plan.seed, 0xc401ce));
  kern.ch.logging = true;
  if (plan.has_choices) { kern.ch.replaying = true; kern.ch.replay = plan.choices; }

  World *w = make_world(plan.world);
  if (!w) { res.verdict = "infra"; res.note = "unknown world " + plan.world; K = nullptr; return res; }
  w->k = &kern; w->plan = &plan; w->res = &res;
  try { w->conf = Json::parse(read_file_host(image_dir + "/conf.json")); } catch (...) { res.verdict = "infra"; res.note = "no conf.json"; delete w; K = nullptr; return res; }
  kern.observers.push_back(w);
  w->setup();
  kern.spawn_native(nullptr, "driver", [w](int, char **) { w->driver(); return 0; }, {}, 0, 0, "/", true);
  for (auto &pp : kern.procs) if (pp.second->role == "driver") pp.second->autoreap = true;
  kern.run();
  if (res.violations.empty() && kern.abort_reason.empty()) w->finish();   // a run that exhausted its budget is inconclusive, not judged
  res.trace_hash = kern.trace_hash.get();
  res.steps = kern.steps; res.events = kern.seq; res.sim_seconds = kern.clock - kern.start_clock_;
  res.faults_fired = kern.fault_counts; res.probes = kern.probes;
  res.choices = kern.ch.log;
  { Hash64 h; for (auto v : kern.ch.log) h.u64(v); res.sched_hash = h.get(); }
  if (keep_trace) res.trace = kern.trace_lines;
  if (!res.violations.empty()) res.verdict = "violation";
  else if (kern.abort_reason.compare(0, 5, "infra") == 0) { res.verdict = "infra"; res.note = kern.abort_reason; }
  else if (!kern.abort_reason.empty()) { res.verdict = "inconclusive"; res.note = kern.abort_reason; }
  g_net = nullptr;
  delete w;
  K = nullptr;
  return res;
}

}  // namespace sim

// sched.cc - coroutines, scheduler loop, fork/exec/exit/wait, images
#include "simos.h"
#include "kpriv.h"
#include <errno.h>
#include <fcntl.h>
#include <string.h>
#include <unistd.h>
#include <stdlib.h>
#include <dlfcn.h>
#include <link.h>
#include <sys/mman.h>
#include <sys/wait.h>
#include <algorithm>

extern "C" {
void __sanitizer_start_switch_fiber(void **fake_stack_save, const void *bottom, size_t size);
void __sanitizer_finish_switch_fiber(void *fake_stack_save, const void **bottom_old, size_t *size_old);
void __asan_unpoison_memory_region(void const volatile *addr, size_t size);
}
extern char **environ;

namespace sim {

static const size_t kStackSize = 512 * 1024;
static std::vector<char *> g_stack_pool;
static const void *g_sched_bottom = nullptr; static size_t g_sched_size = 0;

__attribute__((no_sanitize("address"), noinline)) void raw_copy(void *dst, const void *src, size_t n) {
  void *d = dst; const void *s = src; size_t c = n;
  __asm__ volatile("rep movsb" : "+D"(d), "+S"(s), "+c"(c) : : "memory");
}

// ASan shadow address (x86_64 Linux, gcc/clang default mapping): the stack snapshot of the vfork emulation
// must restore the poisoning state of the saved frames together with their bytes.
static inline char *shadow_of(const void *p) { return (char *)(((uintptr_t)p >> 3) + 0x7fff8000UL); }

static char *get_stack() {
  char *s;
  if (!g_stack_pool.empty()) { s = g_stack_pool.back(); g_stack_pool.pop_back(); }
  else {
    char *m = (char *)mmap(nullptr, kStackSize + 4096, PROT_READ | PROT_WRITE, MAP_PRIVATE | MAP_ANONYMOUS | MAP_STACK, -1, 0);
    if (m == MAP_FAILED) abort();
    mprotect(m, 4096, PROT_NONE);
    s = m + 4096;
  }
  __asan_unpoison_memory_region(s, kStackSize);
  return s;
}
static void put_stack(char *s) { g_stack_pool.push_back(s); }

// ------------------------------------------------------------------ images
static std::map<std::string, Image *> g_images;

Image *load_image(const std::string &dir, const std::string &name) {
  std::string key = dir + "/" + name + ".so";
  auto it = g_images.find(key);
  if (it != g_images.end()) return it->second;
  void *h = dlopen(key.c_str(), RTLD_NOW | RTLD_LOCAL);
  if (!h) { fprintf(stderr, "simos: dlopen %s: %s\n", key.c_str(), dlerror()); return nullptr; }
  Image *img = new Image; img->name = name; img->handle = h;
  img->main_fn = (MainFn)dlsym(h, "main");
  if (!img->main_fn) { fprintf(stderr, "simos: no main in %s\n", key.c_str()); return nullptr; }
  struct link_map *lm = nullptr;
  dlinfo(h, RTLD_DI_LINKMAP, &lm);
  struct Ctx { ElfW(Addr) base; Image *img; } ctx{lm ? lm->l_addr : 0, img};
  dl_iterate_phdr([](struct dl_phdr_info *info, size_t, void *data) -> int {
    Ctx *c = (Ctx *)data;
    if (info->dlpi_addr != c->base) return 0;
    uintptr_t relro_lo = 0, relro_hi = 0;
    for (int i = 0; i < info->dlpi_phnum; i++) if (info->dlpi_phdr[i].p_type == PT_GNU_RELRO) {
      relro_lo = info->dlpi_addr + info->dlpi_phdr[i].p_vaddr; relro_hi = relro_lo + info->dlpi_phdr[i].p_memsz;
      relro_hi = (relro_hi + 4095) & ~(uintptr_t)4095;
    }
    for (int i = 0; i < info->dlpi_phnum; i++) {
      const ElfW(Phdr) &ph = info->dlpi_phdr[i];
      if (ph.p_type == PT_LOAD && (ph.p_flags & PF_X)) cov_register(c->img->name, info->dlpi_addr, info->dlpi_addr + ph.p_vaddr + ph.p_memsz);
      if (ph.p_type != PT_LOAD || !(ph.p_flags & PF_W)) continue;
      uintptr_t lo = info->dlpi_addr + ph.p_vaddr, hi = lo + ph.p_memsz;
      if (relro_hi > lo && relro_lo <= lo) lo = std::min(hi, relro_hi);
      if (hi > lo) c->img->segs.push_back(Image::Seg{(char *)lo, (size_t)(hi - lo)});
    }
    return 1;
  }, &ctx);
  for (auto &s : img->segs) img->total += s.len;
  img->pristine.resize(img->total);
  size_t o = 0;
  for (auto &s : img->segs) { raw_copy(&img->pristine[o], s.addr, s.len); o += s.len; }
  g_images[key] = img;
  return img;
}

void make_resident(Instance *in) {
  Image *img = in->img;
  if (img->resident == in) return;
  if (img->resident) {
    Instance *old = img->resident; old->saved.resize(img->total); size_t o = 0;
    for (auto &s : img->segs) { raw_copy(&old->saved[o], s.addr, s.len); o += s.len; }
  }
  size_t o = 0;
  for (auto &s : img->segs) { raw_copy(s.addr, in->saved.data() + o, s.len); o += s.len; }
  img->resident = in;
  std::string().swap(in->saved);
}

static void free_instance(Instance *in) {
  if (in->img->resident == in) in->img->resident = nullptr;
  for (void *p : in->heap) free(p);
  delete in;
}

// ------------------------------------------------------------------ tasks
static void trampoline() {
  Kernel *k = K;
  Task *t = k->cur;
  __sanitizer_finish_switch_fiber(nullptr, &g_sched_bottom, &g_sched_size);
  try { t->entry(); } catch (TaskKilled &) {}
  // entry normally ends in sys_exit; reaching here means a native task was killed (or returned)
  k->req = Kernel::R_EXIT;
  k->back_to_sched_forever();
}

Task *Kernel::new_task(Proc *p, bool native, std::function<void()> entry) {
  Task *t = new Task; t->id = next_task++; t->proc = p; t->native = native; t->entry = std::move(entry);
  t->stack = get_stack(); t->stack_sz = kStackSize;
  getcontext(&t->ctx);
  t->ctx.uc_stack.ss_sp = t->stack; t->ctx.uc_stack.ss_size = t->stack_sz; t->ctx.uc_link = nullptr;
  makecontext(&t->ctx, (void (*)())trampoline, 0);
  uint64_t x = mix64(ch.rng.s[0] ^ 0x5eed, (uint64_t)t->id); t->prio = (1ULL << 62) | (x >> 2);
  p->task = t;
  tasks.push_back(t);
  return t;
}

void Kernel::free_task(Task *t) {
  for (VforkFrame *vf : t->vforks) delete vf;
  t->vforks.clear();
  if (t->inst && --t->inst->refs == 0) free_instance(t->inst);
  t->inst = nullptr;
  if (t->stack) put_stack(t->stack);
  t->stack = nullptr;
  tasks.erase(std::remove(tasks.begin(), tasks.end(), t), tasks.end());
  delete t;
}

static ucontext_t *g_resume_ctx = nullptr;
static char **g_host_environ = nullptr;

void Kernel::switch_to_task(Task *t) {
  cur = t;
  if (t->inst) { make_resident(t->inst); environ = t->inst->environ_; }
  void *fake = nullptr;
  __sanitizer_start_switch_fiber(&fake, t->stack, t->stack_sz);
  ucontext_t *target = &t->ctx;
  if (g_resume_ctx) { target = g_resume_ctx; g_resume_ctx = nullptr; }
  t->started = true;
  swapcontext(&sched_ctx, target);
  __sanitizer_finish_switch_fiber(fake, nullptr, nullptr);
  if (cur && cur->inst) cur->inst->environ_ = environ;
  environ = g_host_environ;
  cur = nullptr;
}

void Kernel::to_sched() {
  Task *t = cur;
  __sanitizer_start_switch_fiber(&t->fake_stack, g_sched_bottom, g_sched_size);
  swapcontext(&t->ctx, &sched_ctx);
  __sanitizer_finish_switch_fiber(t->fake_stack, nullptr, nullptr);
  if (t->killed && t->native) throw TaskKilled();
}

void Kernel::back_to_sched_forever() {
  Task *t = cur;
  t->st = Task::DEAD;
  __sanitizer_start_switch_fiber(nullptr, g_sched_bottom, g_sched_size);
  swapcontext(&t->ctx, &sched_ctx);
  abort();
}

static bool task_runnable(Kernel *k, Task *t, bool allow_idle) {
  if (t->st == Task::DEAD) return false;
  if (t->st == Task::READY) return true;
  if (t->idle_only && !allow_idle) return false;
  if (t->killed && t->native) return true;
  if (t->ready && t->ready()) return true;
  if (t->deadline >= 0 && t->deadline <= k->clock) return true;
  if (t->interruptible && k->deliverable_signal(t->proc)) return true;
  return false;
}

int64_t Kernel::next_deadline() {
  int64_t d = -1;
  for (Task *t : tasks) if (t->st == Task::BLOCKED && t->deadline >= 0) { if (d < 0 || t->deadline < d) d = t->deadline; }
  for (auto &pp : procs) { Proc *p = pp.second; if (p->st == Proc::LIVE && p->alarm_at) { if (d < 0 || p->alarm_at < d) d = p->alarm_at; } }
  for (Task *t : tasks) if (t->st == Task::BLOCKED) for (auto &f : t->proc->fds) if (f.of && f.of->kind == O_SOCK && f.of->sock_state == 1) { if (d < 0 || f.of->sock_ready_at < d) d = f.of->sock_ready_at; }
  return d;
}

int Kernel::block(std::function<bool()> ready, int64_t deadline, bool interruptible, bool idle_only) {
  Task *t = cur;
  t->st = Task::BLOCKED; t->ready = std::move(ready); t->deadline = deadline; t->interruptible = interruptible; t->idle_only = idle_only; t->wake = 0;
  req = R_YIELD;
  to_sched();
  t->ready = nullptr; t->deadline = -1; t->idle_only = false;
  return t->wake;
}

static Task *g_preselected = nullptr;

void Kernel::yield_point() {
  Task *t = cur;
  if (!t) return;
  Proc *p = t->proc;
  steps++; p->ncalls++;
  if (steps > knobs.max_steps) { abort_reason = "inconclusive: step budget exhausted"; stop = true; req = R_YIELD; t->st = Task::READY; to_sched(); }
  // cpu cost: a system that never blocks still consumes time (one virtual second per cpu_steps yield points without clock movement)
  if (clock != last_clock_seen) { last_clock_seen = clock; steps_at_clock = steps; }
  else if (steps - steps_at_clock >= knobs.cpu_steps) { steps_at_clock = steps; advance_clock_to(clock + 1); last_clock_seen = clock; probe("cpu_cost_tick"); }
  deliver_signals();
  if (knobs.tick_p > 0) {
    double tp = knobs.tick_p;
    uint32_t c = ch.choose(2, CH_TICK, [&](Rng &r) { return (uint32_t)r.chance(tp); });
    if (c) { advance_clock_to(clock + 1); deliver_signals(); }
  }
  // who else could run?
  std::vector<Task *> others;
  for (Task *o : tasks) if (o != t && task_runnable(this, o, false)) others.push_back(o);
  if (others.empty()) return;
  Task *next = nullptr;
  if (knobs.pct) {
    bool change = std::find(knobs.pct_points.begin(), knobs.pct_points.end(), steps) != knobs.pct_points.end();
    if (change) t->prio = (1ULL << 61) - steps;  // drop below every initial priority and below every earlier demotion
    // fairness: PCT assumes terminating threads; a process that polls (select/reopen loop while a peer holds a FIFO open)
    // would starve the peer forever under strict priorities. After a long uninterrupted streak it yields its priority.
    if (++t->streak > 120) { t->prio = (1ULL << 61) - steps; t->streak = 0; probe("pct_fairness_demotion"); }
    Task *best = t;
    for (Task *o : others) if (o->prio > best->prio) best = o;
    if (best != t) { next = best; t->streak = 0; }
  } else {
    double st = knobs.stick; size_t n = others.size();
    uint32_t c = ch.choose((uint32_t)n + 1, CH_SCHED, [&](Rng &r) -> uint32_t { if (r.chance(st)) return 0; return 1 + (uint32_t)r.below(n); });
    if (c) next = others[c - 1];
  }
  if (!next) return;
  g_preselected = next;
  t->st = Task::READY; req = R_YIELD;
  to_sched();
  deliver_signals();
}

// restore the parent of a vfork child on task t (scheduler context, t not running)
static void restore_vfork(Kernel *k, Task *t, int childpid) {
  VforkFrame *vf = t->vforks.back(); t->vforks.pop_back();
  raw_copy(vf->lo, vf->save.data(), vf->len);
  raw_copy(shadow_of(vf->lo), vf->shadow.data(), vf->shadow.size());
  if (vf->lo > t->stack) __asan_unpoison_memory_region(t->stack, (size_t)(vf->lo - t->stack));
  vf->resumed = 1; vf->childpid = childpid;
  t->proc = vf->parent; t->st = Task::READY; t->killed = false;
  t->ready = nullptr; t->deadline = -1;
  // the frame itself is deleted by the resumed sys_fork; remember which context to resume
  t->fake_stack = nullptr;
  // stash pointer for switch_to_task
  t->wake = 0;
  t->ctx = vf->ctx;  // copy is fine for resuming: fpregs pointer refers to vf's storage, which lives until sys_fork deletes it
  (void)k;
}

void Kernel::run() {
  K = this;
  g_preselected = nullptr; g_resume_ctx = nullptr;
  if (!g_host_environ) g_host_environ = environ;
  while (!stop) {
    // sweep dead tasks (killed C tasks)
    for (size_t i = 0; i < tasks.size();) { Task *t = tasks[i]; if (t->st == Task::DEAD && t != cur) { free_task(t); } else i++; }
    if (knobs.max_sim_s > 0 && clock - start_clock_ > knobs.max_sim_s) { abort_reason = "inconclusive: simulated-time budget exhausted"; break; }
    Task *t = g_preselected; g_preselected = nullptr;
    if (t && (t->st == Task::DEAD)) t = nullptr;
    if (!t) {
      std::vector<Task *> rl;
      for (Task *o : tasks) if (task_runnable(this, o, false)) rl.push_back(o);
      if (rl.empty()) for (Task *o : tasks) if (o->idle_only && task_runnable(this, o, true)) { rl.push_back(o); }
      if (rl.empty()) {
        int64_t d = next_deadline();
        if (d < 0) break;  // nothing can ever happen again
        if (d > clock) { for (Observer *o : observers) o->on_idle(clock, d); if (stop) break; idle_total += d - clock; }
        advance_clock_to(std::max(d, clock));
        if (d <= clock) {
          // make sure progress: a deadline in the past with nobody runnable means an alarm fired for a blocked uninterruptible task etc.
          bool any = false; for (Task *o : tasks) if (task_runnable(this, o, true)) any = true;
          if (!any) {
            // alarms posted to processes that ignore them: drop and continue; if nothing changes we would loop, so guard
            int64_t d2 = next_deadline(); if (d2 >= 0 && d2 <= clock) { abort_reason = "inconclusive: stuck deadline"; break; }
          }
        }
        continue;
      }
      if (rl.size() == 1) t = rl[0];
      else if (knobs.pct) { t = rl[0]; for (Task *o : rl) if (o->prio > t->prio) t = o; }
      else { size_t n = rl.size(); uint32_t c = ch.choose((uint32_t)n, CH_SCHED, [&](Rng &r) { return (uint32_t)r.below(n); }); t = rl[c]; }
    }
    if (t->st == Task::BLOCKED) {
      if (t->ready && t->ready()) t->wake = W_READY;
      else if (t->interruptible && deliverable_signal(t->proc)) t->wake = W_SIGNAL;
      else t->wake = W_TIMEOUT;
      t->st = Task::READY;
    }
    req = R_NONE;
    switch_to_task(t);
    // handle the request the task left
    switch (req) {
      case R_NONE: case R_YIELD: break;
      case R_EXIT: free_task(t); break;
      case R_EXEC: {
        Proc *p = req_proc;
        free_task(t);
        finish_exec(p, req_exe, req_argv, req_env);
        break;
      }
      case R_VFORK_DONE: {
        Proc *child = req_proc;
        if (req_exe) { child->in_vfork = false; child->vfork_parent = nullptr; finish_exec(child, req_exe, req_argv, req_env); }
        restore_vfork(this, t, child->pid);
        break;
      }
    }
    req = R_NONE;
  }
  // tear down whatever is left
  g_preselected = nullptr;
  std::vector<Task *> left = tasks;
  for (Task *t : left) {
    if (t->native && t->started && t->st != Task::DEAD) {
      // unwind native coroutine so destructors run
      t->killed = true; t->st = Task::READY; req = R_NONE; switch_to_task(t);
    }
    free_task(t);
  }
}

// ------------------------------------------------------------------ fork / exec / exit / wait
pid_t Kernel::sys_fork() {
  yield_point();
  Fault *flt = match_fault(C_FORK, "");
  Event e; e.call = C_FORK;
  if (flt && flt->kind == "error") { note_fault("fork_fail"); e.ret = -1; e.err = flt->err ? flt->err : EAGAIN; e.injected = true; emit(e); errno = e.err; return -1; }
  Task *t = cur; Proc *parent = t->proc;
  Proc *child = clone_proc(parent);
  child->in_vfork = true; child->vfork_parent = parent; child->task = t;
  e.ret = child->pid; emit(e);
  VforkFrame *vf = new VforkFrame; vf->parent = parent; vf->child = child;
  getcontext(&vf->ctx);
  if (vf->resumed) {
    // parent resumes here with its stack restored
    __sanitizer_finish_switch_fiber(nullptr, nullptr, nullptr);
    int pid = vf->childpid;
    delete vf;
    if (cur->killed && cur->native) throw TaskKilled();
    deliver_signals();
    return pid;
  }
  char *sp = (char *)vf->ctx.uc_mcontext.gregs[REG_RSP] - 512;
  sp = (char *)((uintptr_t)sp & ~(uintptr_t)15);
  if (sp < t->stack) sp = t->stack;
  vf->lo = sp; vf->len = (size_t)(t->stack + t->stack_sz - sp);
  vf->save.resize(vf->len);
  raw_copy(&vf->save[0], vf->lo, vf->len);
  vf->shadow.resize(vf->len >> 3);
  raw_copy(&vf->shadow[0], shadow_of(vf->lo), vf->shadow.size());
  t->vforks.push_back(vf);
  t->proc = child;
  return 0;
}

static std::string base_name(const std::string &p) { size_t k = p.rfind('/'); return k == std::string::npos ? p : p.substr(k + 1); }

void Kernel::finish_exec(Proc *p, Inode *exe, const std::vector<std::string> &argv, const std::vector<std::string> &env) {
  p->argv_s = argv; p->env_s = env;
  const std::string &b = exe->exec;
  if (b.compare(0, 5, "stub:") == 0) {
    NativeMain fn = natives[b.substr(5)];
    Task *t = new_task(p, true, [this, p, fn]() {
      std::vector<char *> av; for (auto &s : p->argv_s) av.push_back((char *)s.c_str()); av.push_back(nullptr);
      int rc = fn((int)p->argv_s.size(), av.data());
      sys_exit(rc);
    });
    (void)t;
    return;
  }
  Image *img = load_image(image_dir, b);
  if (!img) { abort_reason = "infrastructure: cannot load image " + b; stop = true; reap_to_zombie(p, 127 << 8); return; }
  Instance *in = new Instance; in->img = img; in->saved = img->pristine;
  Task *t = new_task(p, false, [this, p, img]() {
    // argv/envp live in the instance heap
    auto ralloc = [this](size_t sz) { void *q = malloc(sz ? sz : 1); cur->inst->heap.insert(q); return q; };  // not subject to fault injection
    size_t n = p->argv_s.size();
    char **av = (char **)ralloc((n + 1) * sizeof(char *));
    for (size_t i = 0; i < n; i++) { av[i] = (char *)ralloc(p->argv_s[i].size() + 1); memcpy(av[i], p->argv_s[i].c_str(), p->argv_s[i].size() + 1); }
    av[n] = nullptr;
    size_t m = p->env_s.size();
    char **ev = (char **)ralloc((m + 1) * sizeof(char *));
    for (size_t i = 0; i < m; i++) { ev[i] = (char *)ralloc(p->env_s[i].size() + 1); memcpy(ev[i], p->env_s[i].c_str(), p->env_s[i].size() + 1); }
    ev[m] = nullptr;
    environ = ev;
    int rc = img->main_fn((int)n, av);
    sys_exit(rc);
  });
  t->inst = in;
}

int Kernel::sys_execve(const char *path, char *const argv[], char *const envp[], bool search_path) {
  std::string ps = path ? path : "";
  yield_point();
  Fault *flt = match_fault(C_EXEC, ps);
  Proc *p = cp();
  Event e; e.call = C_EXEC; e.path = ps;
  if (flt && flt->kind == "error") { note_fault("meta_error"); e.ret = -1; e.err = flt->err ? flt->err : EIO; e.injected = true; emit(e); errno = e.err; return -1; }
  if (!envp) envp = environ;
  std::vector<std::string> cands;
  if (search_path && ps.find('/') == std::string::npos) {
    std::string pathvar = "/bin:/usr/bin";
    for (char *const *ep = envp; ep && *ep; ep++) if (!strncmp(*ep, "PATH=", 5)) pathvar = *ep + 5;
    size_t i = 0;
    while (i <= pathvar.size()) { size_t j = pathvar.find(':', i); if (j == std::string::npos) j = pathvar.size(); std::string d = pathvar.substr(i, j - i); if (d.empty()) d = "."; cands.push_back(d + "/" + ps); i = j + 1; }
  } else cands.push_back(ps);
  int err = ENOENT; Inode *exe = nullptr; std::string canon;
  for (auto &c : cands) {
    Walk w = walk(c);
    if (w.err) { if (w.err != ENOENT && w.err != ENOTDIR) err = w.err; continue; }
    if (!w.ino) continue;
    if (w.ino->type != T_REG || !(w.ino->mode & 0111)) { err = EACCES; continue; }
    if (w.ino->exec.empty()) { err = ENOEXEC; continue; }
    exe = w.ino; canon = w.canon; break;
  }
  if (!exe) { e.ret = -1; e.err = err; emit(e); errno = err; return -1; }
  std::vector<std::string> av, ev;
  for (char *const *a = argv; a && *a; a++) av.push_back(*a);
  for (char *const *a = envp; a && *a; a++) ev.push_back(*a);
  // descriptor and signal state across exec
  for (size_t i = 0; i < p->fds.size(); i++) if (p->fds[i].of && p->fds[i].cloexec) { OFile *of = p->fds[i].of; p->fds[i].of = nullptr; p->fds[i].cloexec = false; of_unref(of); }
  for (int s = 1; s < 65; s++) if (p->sig[s].handler != SIG_IGN) p->sig[s].handler = SIG_DFL;
  if (exe->mode & 04000) p->euid = exe->uid;
  if (exe->mode & 02000) p->egid = exe->gid;
  p->role = base_name(canon); p->ordinal = ++role_count[p->role]; p->ncalls = 0; p->nallocs = 0;
  e.path = canon; e.ino = exe; e.ret = 0;
  { std::string j; for (auto &a : av) { j += a; j.push_back('\0'); } e.path2 = j; }
  emit(e);
  req_proc = p; req_exe = exe; req_argv = av; req_env = ev;
  if (p->in_vfork) { req = R_VFORK_DONE; req_task = cur; cur->st = Task::BLOCKED; cur->ready = [] { return false; }; to_sched(); abort(); }
  req = R_EXEC;
  back_to_sched_forever();
}

void Kernel::sys_exit(int status) {
  Proc *p = cp();
  if (!cur->killed) yield_point();
  p = cp();
  // exit is a fault site for the two faults that make sense there: the machine (or the process) is stopped after the program's last
  // operation and before anybody learns that it finished
  if (!cur->killed && !p->in_vfork && !cur->native) { Fault *flt = match_fault(C_EXIT, ""); if (flt) generic_fault(this, flt); p = cp(); }
  reap_to_zombie(p, (status & 0xff) << 8);
  if (p->in_vfork) { req = R_VFORK_DONE; req_proc = p; req_exe = nullptr; cur->st = Task::BLOCKED; cur->ready = [] { return false; }; to_sched(); abort(); }
  req = R_EXIT;
  back_to_sched_forever();
}

void Kernel::kill_proc(Proc *p, int sig) {
  if (!p || p->st != Proc::LIVE) return;
  Task *t = p->task;
  if (cur && cp() == p) {
    reap_to_zombie(p, sig & 0x7f);
    if (p->in_vfork) { req = R_VFORK_DONE; req_proc = p; req_exe = nullptr; cur->st = Task::BLOCKED; cur->ready = [] { return false; }; to_sched(); abort(); }
    if (cur->native) { cur->killed = true; throw TaskKilled(); }
    req = R_EXIT;
    back_to_sched_forever();
  }
  if (!t || t->proc != p) { p->pending |= 1ULL << (SIGKILL - 1); p->sig[SIGKILL].handler = SIG_DFL; return; }  // suspended vfork parent: dies when it resumes
  reap_to_zombie(p, sig & 0x7f);
  if (p->in_vfork) { restore_vfork(this, t, p->pid); return; }
  if (t->native) { t->killed = true; if (t->st == Task::BLOCKED) t->st = Task::READY; if (!t->started) t->st = Task::DEAD; }
  else t->st = Task::DEAD;
}

pid_t Kernel::sys_waitpid(pid_t pid, int *status, int options) {
  yield_point();
  Fault *flt = match_fault(C_WAITPID, "");
  Event e; e.call = C_WAITPID; e.a = pid; e.b = options;
  if (flt && flt->kind == "eintr") { note_fault("eintr"); e.ret = -1; e.err = EINTR; e.injected = true; emit(e); errno = EINTR; return -1; }
  for (;;) {
    Proc *me = cp(); bool any = false; Proc *z = nullptr;
    for (auto &pp : procs) { Proc *c = pp.second; if (c->ppid != me->pid || c->st == Proc::GONE) continue; if (pid > 0 && c->pid != pid) continue; any = true; if (c->st == Proc::ZOMBIE && !z) z = c; }
    if (z) { if (status) *status = z->status; z->st = Proc::GONE; e.ret = z->pid; e.b = z->status; emit(e); return z->pid; }
    if (!any) { e.ret = -1; e.err = ECHILD; emit(e); errno = ECHILD; return -1; }
    if (options & WNOHANG) { e.ret = 0; emit(e); return 0; }
    int mypid = me->pid;
    int wk = block([this, mypid, pid] { bool left = false; for (auto &pp : procs) { Proc *c = pp.second; if (c->ppid != mypid || (pid > 0 && c->pid != pid)) continue; if (c->st == Proc::ZOMBIE) return true; if (c->st != Proc::GONE) left = true; } return !left; /* nobody left to wait for: ECHILD */ }, -1);
    if (wk == W_SIGNAL) { deliver_signals(); e.ret = -1; e.err = EINTR; emit(e); errno = EINTR; return -1; }
  }
}

// ------------------------------------------------------------------ spawn (host/driver side)
static void install_fds(Kernel *k, Proc *p, const std::vector<Kernel::FdSpec> &fds) {
  for (auto &f : fds) {
    if ((size_t)f.fd >= p->fds.size()) p->fds.resize((size_t)f.fd + 1);
    p->fds[f.fd].of = f.of; f.of->refs++;
  }
  (void)k;
}

int Kernel::spawn(Proc *parent, const std::string &abspath, const std::vector<std::string> &argv, const std::vector<std::string> &env,
                  const std::vector<FdSpec> &fds, uint32_t uid, uint32_t gid, const std::string &cwd, const std::string &tag) {
  Inode *exe = lookup(abspath);
  if (!exe || exe->exec.empty()) return -1;
  Inode *cw = lookup(cwd); if (!cw) return -1;
  Proc *p = new Proc; p->pid = next_pid++; p->ppid = parent ? parent->pid : 0;
  p->uid = p->euid = uid; p->gid = p->egid = gid; p->groups.push_back(gid);
  if (exe->mode & 04000) p->euid = exe->uid;
  p->cwd = cw; p->cwd_path = cwd; p->tag = tag;
  install_fds(this, p, fds);
  p->role = base_name(abspath); p->ordinal = ++role_count[p->role];
  procs[p->pid] = p;
  Event e; e.call = C_SPAWN; e.proc = p; e.pid = p->pid; e.path = abspath; e.ret = p->pid; e.ino = exe;
  { std::string j; for (auto &a : argv) { j += a; j.push_back('\0'); } e.path2 = j; }
  emit(e);
  finish_exec(p, exe, argv, env);
  return p->pid;
}

int Kernel::spawn_native(Proc *parent, const std::string &role, NativeMain fn, const std::vector<FdSpec> &fds, uint32_t uid, uint32_t gid,
                         const std::string &cwd, bool immortal) {
  Inode *cw = lookup(cwd); if (!cw) cw = root;
  Proc *p = new Proc; p->pid = next_pid++; p->ppid = parent ? parent->pid : 0;
  p->uid = p->euid = uid; p->gid = p->egid = gid; p->groups.push_back(gid);
  p->cwd = cw; p->cwd_path = cwd; p->immortal = immortal;
  install_fds(this, p, fds);
  p->role = role; p->ordinal = ++role_count[role];
  procs[p->pid] = p;
  new_task(p, true, [this, p, fn]() { int rc = fn(0, nullptr); sys_exit(rc); });
  return p->pid;
}

}  // namespace sim

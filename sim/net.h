// net.h - hook points a world implements to script the network
#pragma once
#include "simos.h"
namespace sim {
struct Net {
  enum Kind { K_ACCEPT, K_REFUSED, K_TIMEOUT, K_UNREACH };
  struct ConnectResult { Kind kind = K_REFUSED; int64_t delay = 0; Pipe *rx = nullptr; Pipe *tx = nullptr; bool immediate = false; /* a non-blocking connect that succeeds at once (loopback, local segment) */ };
  std::vector<uint32_t> interfaces{0x7f000001};
  virtual ~Net() {}
  // called when a simulated process connects; for ACCEPT the world supplies the two byte streams (client rx / client tx)
  virtual ConnectResult on_connect(OFile *client, uint32_t ip, uint16_t port) = 0;
  // build a DNS answer packet; return <0 for failure with h_errno in herr
  virtual int on_query(const std::string &name, int type, std::string &packet, int &herr) = 0;
};
extern Net *g_net;
}  // namespace sim

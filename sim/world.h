// world.h - plans, run results, world/driver base class, registry of properties
#pragma once
#include "simos.h"

namespace sim {

struct Plan {
  std::string property, world;
  uint64_t seed = 1;
  std::string label;               // generator's description of the case (for samples)
  Json knobs = Json::obj();        // kernel + world knobs
  Json ops = Json::arr();          // workload, interpreted by the world driver
  std::vector<Fault> faults;
  bool has_choices = false; std::vector<uint32_t> choices;  // explicit choice stream (replay / shrinking)
  Json expect;                     // replay files: {class, trace_hash}
  Json to_json() const;
  static Plan from_json(const Json &j);
};

struct Violation { std::string cls; std::string detail; };

struct RunResult {
  std::string verdict = "ok";      // ok | violation | inconclusive | infra
  std::vector<Violation> violations;
  std::vector<std::string> known;  // known-finding signatures matched (not violations)
  uint64_t trace_hash = 0, sched_hash = 0, state_hash = 0;
  uint64_t steps = 0; int64_t sim_seconds = 0; uint64_t events = 0;
  std::map<std::string, uint64_t> faults_fired, probes;
  std::set<uint64_t> abstract_states;
  std::vector<uint32_t> choices;
  std::vector<std::string> trace;
  std::string note;
  bool nontrivial = false;         // world-defined: did the run exercise the property's mechanism?
  std::string cls() const { return violations.empty() ? "" : violations[0].cls; }
};

struct World : Observer {
  Kernel *k = nullptr;
  const Plan *plan = nullptr;
  RunResult *res = nullptr;
  Json conf;                       // conf.json of the image build
  virtual ~World() {}
  virtual void setup() = 0;                 // build fs, tables, exec table, observers
  virtual void driver() = 0;                // runs as an immortal native task
  virtual void finish() {}                  // end-of-run checks, fill res
  void on_event(const Event &) override {}
  void violate(const std::string &cls, const std::string &detail) {
    if (res->violations.size() < 8) res->violations.push_back(Violation{cls, detail});
    k->stop = true;
  }
  void known(const std::string &sig) { res->known.push_back(sig); }
  // helpers for drivers
  int64_t kn_i(const std::string &key, int64_t d) const { return plan->knobs.geti(key, d); }
  double kn_d(const std::string &key, double d) const { return plan->knobs.getd(key, d); }
  std::string kn_s(const std::string &key, const std::string &d) const { return plan->knobs.gets(key, d); }
};

World *make_world(const std::string &name);   // worlds/*.cc register here

// one simulated run of a plan against the images in image_dir
RunResult run_plan(const Plan &plan, const std::string &image_dir, bool keep_trace = false);

// property registry: generators produce plan i of a tier from a base seed
struct PropertyDef {
  std::string id, world, level, technique;
  // generate the i-th plan; returns false when the tier's enumeration is exhausted
  std::function<bool(uint64_t base_seed, const std::string &tier, uint64_t i, Plan &out)> gen;
  // number of plans for a tier under a time budget is decided by the batch runner (wall clock); gen may also end it
  std::string rule;                // text for evidence.coverage.rule
  std::vector<std::string> real, stubs;   // components
  std::vector<std::string> assumptions;
  std::string state_measure;
  uint64_t quick_n = 1000, thorough_n = 20000;
};
std::vector<PropertyDef> &property_registry();
struct RegisterProperty { RegisterProperty(const PropertyDef &d) { property_registry().push_back(d); } };

// deterministic pseudo-random text for message bodies
std::string gen_body(uint64_t seed, size_t len);

}  // namespace sim

// kernel_sys.cc - file, pipe and descriptor system calls
#include "simos.h"
#include "kpriv.h"
#include <errno.h>
#include <fcntl.h>
#include <string.h>
#include <unistd.h>
#include <sys/file.h>
#include <algorithm>

namespace sim {

// ------------------------------------------------------------------ events, faults
void Kernel::trace(const Event &e) {
  trace_hash.u64((uint64_t)e.pid); trace_hash.u64((uint64_t)e.call); trace_hash.u64((uint64_t)e.ret); trace_hash.u64((uint64_t)e.err);
  trace_hash.str(e.path); trace_hash.u64((uint64_t)e.a); trace_hash.u64((uint64_t)e.t);
  if (e.call == C_WRITE && e.data && e.ret > 0) trace_hash.bytes(e.data, (size_t)e.ret);
  if (keep_trace) {
    char b[160];
    snprintf(b, sizeof b, "%6llu t=%lld %-16s %-9s ", (unsigned long long)e.seq, (long long)e.t,
             e.proc ? e.proc->actor().c_str() : "-", call_name(e.call));
    std::string l = b;
    if (e.fd >= 0) l += "fd=" + std::to_string(e.fd) + " ";
    if (!e.path.empty()) l += e.path + " ";
    if (!e.path2.empty()) l += "-> " + e.path2 + " ";
    if (e.off >= 0) l += "@" + std::to_string(e.off) + " ";
    if (e.a || e.b) l += "a=" + std::to_string(e.a) + " b=" + std::to_string(e.b) + " ";
    if ((e.call == C_WRITE || e.call == C_READ) && e.data && e.ret > 0) l += "\"" + printable(std::string(e.data, (size_t)std::min<int64_t>(e.ret, 48)), 100) + "\" ";
    l += "= " + std::to_string(e.ret);
    if (e.err) l += " errno=" + std::to_string(e.err);
    if (e.injected) l += " [injected]";
    if (trace_lines.size() >= trace_cap) trace_lines.erase(trace_lines.begin(), trace_lines.begin() + trace_cap / 2);
    trace_lines.push_back(l);
  }
}

void Kernel::emit(Event &e) {
  e.seq = ++seq; e.t = clock;
  if (!e.proc) { e.proc = cp(); }
  if (e.proc && !e.pid) e.pid = e.proc->pid;
  trace(e);
  for (Observer *o : observers) o->on_event(e);
}

Fault *Kernel::match_fault(CallId c, const std::string &path) {
  Proc *p = cp();
  if (!p || faults.empty()) return nullptr;
  std::string actor, full;
  for (Fault &f : faults) {
    if (f.fired) continue;
    if (f.call != C_ANY && f.call != c) continue;
    if (f.call == C_ANY && (c == C_MALLOC)) continue;
    if (c == C_EXIT && f.kind != "kill" && f.kind != "crash") continue;   // (nothing else can happen to an exit)
    if (f.actor.compare(0, 4, "tag:") == 0) { if (p->tag != f.actor.substr(4)) continue; }   // a process the world tagged at spawn ("tag:second")
    else if (!f.actor.empty()) { if (actor.empty()) actor = p->actor(); if (actor.compare(0, f.actor.size(), f.actor) != 0) continue; }
    if (!f.path.empty()) {
      // path arguments are matched in absolute form, so that "/remote/" also matches the daemon's relative "remote/15/222"
      if (!path.empty() && path[0] != '/' && full.empty()) full = p->cwd_path + (p->cwd_path.empty() || p->cwd_path.back() != '/' ? "/" : "") + path;
      if ((full.empty() ? path : full).find(f.path) == std::string::npos) continue;
    }
    if (++f.seen < f.nth) continue;
    f.fired = true;
    return &f;
  }
  return nullptr;
}

void Kernel::after_syscall() {
  Proc *p = cp(); if (!p || !p->after_signal) return;
  int saved = errno; int sig = p->after_signal; p->after_signal = 0;
  post_signal(p, sig); deliver_signals();
  errno = saved;
}

bool generic_fault(Kernel *k, Fault *f) {
  if (f->kind == "kill") { k->note_fault("crash_process"); Proc *p = k->cp(); k->kill_proc(p, 9); return true; /* not reached for self */ }
  if (f->kind == "crash") { k->machine_crash(f->image.empty() ? "random" : f->image); k->back_to_sched_forever(); }
  if (f->kind == "stall") {
    // A stalled process that holds a FIFO write end keeps the reader's select() permanently readable (real kernels too):
    // the daemon then polls without blocking and virtual time can only creep (cpu cost rule). Such stalls are capped.
    int64_t len = f->arg;
    for (auto &fe : k->cp()->fds) if (fe.of && fe.of->kind == O_PIPE_W && fe.of->pipe && fe.of->pipe->is_fifo) { if (len > 3) len = 3; k->probe("stall_capped_fifo_writer"); }
    k->note_fault("stalled_process"); k->block([] { return false; }, k->clock + len, false); k->deliver_signals(); return true;
  }
  if (f->kind == "signal_after") { k->note_fault("signal_on_return"); if (k->cp()) k->cp()->after_signal = (int)f->arg; return true; }
  if (f->kind == "signal") { k->note_fault("signal"); k->post_signal(k->cp(), (int)f->arg); k->deliver_signals(); return true; }
  if (f->kind == "clock_fwd") { k->note_fault("clock_jump_fwd"); k->advance_clock_to(k->clock + f->arg); return true; }
  return false;
}


// ------------------------------------------------------------------ descriptors
int Kernel::alloc_fd(Proc *p, OFile *of, int minfd) {
  size_t i = (size_t)minfd;
  for (;; i++) {
    if (i >= p->fds.size()) p->fds.resize(i + 1);
    if (!p->fds[i].of) break;
  }
  p->fds[i].of = of; p->fds[i].cloexec = false; of->refs++;
  return (int)i;
}
OFile *Kernel::get_of(int fd) {
  Proc *p = cp();
  if (fd < 0 || (size_t)fd >= p->fds.size()) return nullptr;
  return p->fds[fd].of;
}
void Kernel::of_unref(OFile *of) {
  if (--of->refs > 0) return;
  if (of->kind == O_PIPE_R && of->pipe) { of->pipe->readers--; }
  if (of->kind == O_PIPE_W && of->pipe) { of->pipe->writers--; }
  if (of->kind == O_SOCK) { if (of->pipe) of->pipe->readers--; if (of->tx) of->tx->writers--; }
  if (of->pipe && of->pipe->is_fifo && of->pipe->readers == 0 && of->pipe->writers == 0) { of->pipe->buf.clear(); of->pipe->rdpos = 0; }
  if (of->ino) {
    if (of->ino->lock_owner == of) of->ino->lock_owner = nullptr;
    of->ino->opens--;
    free_inode_if_unused(of->ino);
  }
  delete of;
}
void Kernel::close_all_fds(Proc *p) {
  for (auto &f : p->fds) if (f.of) { OFile *of = f.of; f.of = nullptr; of_unref(of); }
  p->fds.clear();
}

OFile *Kernel::of_sink(Sink *s) { OFile *o = new OFile; o->kind = O_SINK; o->sink = s; o->flags = O_WRONLY; return o; }
OFile *Kernel::of_null() { OFile *o = new OFile; o->kind = O_NULL; o->flags = O_RDWR; return o; }
OFile *Kernel::of_pipe_r(Pipe *p) { OFile *o = new OFile; o->kind = O_PIPE_R; o->pipe = p; p->readers++; o->flags = O_RDONLY; return o; }
OFile *Kernel::of_pipe_w(Pipe *p) { OFile *o = new OFile; o->kind = O_PIPE_W; o->pipe = p; p->writers++; p->w_counter++; o->flags = O_WRONLY; return o; }
OFile *Kernel::of_preloaded(const std::string &data, const std::string &label) {
  Pipe *p = new_pipe(label); p->buf = data; p->preloaded = true; p->total_written = data.size();
  return of_pipe_r(p);
}
OFile *Kernel::of_file(const std::string &abspath, int flags) {
  Inode *i = lookup(abspath); if (!i) return nullptr;
  OFile *o = new OFile; o->kind = O_FILE; o->ino = i; i->opens++; o->flags = flags; o->path = abspath; return o;
}

static void fill_stat(const Inode *i, struct stat *st) {
  memset(st, 0, sizeof *st);
  st->st_dev = 1; st->st_ino = i->ino; st->st_nlink = (nlink_t)i->nlink; st->st_uid = i->uid; st->st_gid = i->gid;
  st->st_mode = i->mode | (i->type == T_DIR ? S_IFDIR : i->type == T_FIFO ? S_IFIFO : S_IFREG);
  st->st_size = i->type == T_REG ? (off_t)(i->data.size() + i->hole) : (i->type == T_DIR ? 4096 : 0);
  st->st_blksize = 4096; st->st_blocks = (st->st_size + 511) / 512;
  st->st_atim.tv_sec = i->atime; st->st_mtim.tv_sec = i->mtime; st->st_ctim.tv_sec = i->ctime;
}

// ------------------------------------------------------------------ open/close
int Kernel::sys_open(const char *path, int flags, int mode) {
  std::string ps = path ? path : "";
  ENTER(C_OPEN, ps);
  Proc *p = cp();
  Event e; e.call = C_OPEN; e.a = flags; e.b = mode;
  Walk w = walk(ps); e.path = w.canon;
  if (flt) { if (flt->kind == "error") FAIL_INJECTED(e, "meta_error") }
  auto fail = [&](int err) { e.ret = -1; e.err = err; emit(e); errno = err; return -1; };
  if ((flags & O_CREAT) && ps.size() > 1 && ps.back() == '/' && (!w.err || w.err == ENOTDIR)) return fail(EISDIR);   // Linux: O_CREAT with a trailing slash
  if (w.err) return fail(w.err);
  Inode *i = w.ino;
  if (!i) {
    if (!(flags & O_CREAT)) return fail(ENOENT);
    i = new_inode(T_REG, (uint32_t)mode & ~p->umask_ & 07777, p->euid, p->egid);
    i->nlink = 1; w.dir->ents[w.name] = i->ino; w.dir->mtime = w.dir->ctime = clock;
    e.b |= 1 << 20;  // created
  } else {
    if ((flags & O_CREAT) && (flags & O_EXCL)) return fail(EEXIST);
    if (i->type == T_DIR && (flags & O_ACCMODE) != O_RDONLY) return fail(EISDIR);
  }
  OFile *of = new OFile; of->flags = flags & (O_ACCMODE | O_APPEND | O_NONBLOCK); of->path = w.canon;
  if (i->type == T_FIFO) {
    Pipe *pp = i->fifo; int acc = flags & O_ACCMODE;
    if (acc == O_WRONLY) {
      if (pp->readers == 0) {
        if (flags & O_NONBLOCK) { delete of; return fail(ENXIO); }
        // blocking open for write: wait for a reader
        int wk = block([pp] { return pp->readers > 0; }, -1);
        if (wk == W_SIGNAL) { delete of; deliver_signals(); return fail(EINTR); }
      }
      of->kind = O_PIPE_W; of->pipe = pp; pp->writers++; pp->w_counter++;
    } else if (acc == O_RDONLY) {
      of->kind = O_PIPE_R; of->pipe = pp; pp->readers++; of->f_version = pp->w_counter;
      if (!(flags & O_NONBLOCK) && pp->writers == 0) {
        uint64_t v = pp->w_counter;
        int wk = block([pp, v] { return pp->writers > 0 || pp->w_counter != v; }, -1);
        if (wk == W_SIGNAL) { pp->readers--; delete of; deliver_signals(); return fail(EINTR); }
      }
    } else {  // O_RDWR on a FIFO (Linux allows): acts as both
      of->kind = O_PIPE_W; of->pipe = pp; pp->writers++; pp->w_counter++; pp->readers++;  // simplistic; unused by qmail on Linux
    }
    of->ino = i; i->opens++;
  } else {
    of->kind = i->type == T_DIR ? O_DIRFD : O_FILE; of->ino = i; i->opens++;
    if ((flags & O_TRUNC) && i->type == T_REG && (flags & O_ACCMODE) != O_RDONLY) {
      i->data.clear(); i->synced.clear(); i->unsynced.clear(); i->mtime = i->ctime = clock;
    }
  }
  int fd = alloc_fd(p, of);
  e.ino = i; e.fd = fd; e.ret = fd; emit(e);
  return fd;
}

int Kernel::sys_close(int fd) {
  OFile *of = get_of(fd);
  bool visible = of && (of->kind == O_PIPE_R || of->kind == O_PIPE_W || of->kind == O_SOCK || (of->ino && of->ino->lock_owner == of));
  if (visible) yield_point(); else deliver_signals();
  Proc *p = cp();
  Event e; e.call = C_CLOSE; e.fd = fd;
  of = get_of(fd);
  if (!of) { e.ret = -1; e.err = EBADF; emit(e); errno = EBADF; return -1; }
  e.path = of->path; e.ino = of->ino; e.pipe = of->pipe; e.a = of->kind;
  p->fds[fd].of = nullptr; p->fds[fd].cloexec = false;
  e.ret = 0; emit(e);   // emitted before the description is released so observers can still look at it
  of_unref(of);
  return 0;
}

// ------------------------------------------------------------------ read
ssize_t Kernel::sys_read(int fd, void *buf, size_t n) {
  OFile *of0 = get_of(fd);
  std::string pth = of0 ? of0->path : "";
  ENTER(C_READ, pth);
  Event e; e.call = C_READ; e.fd = fd; e.a = (int64_t)n;
  OFile *of = get_of(fd);
  auto fail = [&](int err) { e.ret = -1; e.err = err; emit(e); errno = err; return (ssize_t)-1; };
  if (!of) return fail(EBADF);
  e.path = of->path; e.ino = of->ino; e.pipe = of->pipe;
  if ((of->flags & O_ACCMODE) == O_WRONLY) return fail(EBADF);
  if (n == 0 && of->kind != O_DIRFD) { e.ret = 0; emit(e); return 0; }   // a zero-length read returns at once
  if (flt) {
    if (flt->kind == "error") FAIL_INJECTED(e, "io_error_read")
    if (flt->kind == "eintr") { note_fault("eintr"); e.injected = true; return fail(EINTR); }
    if (flt->kind == "short") { note_fault("short_read"); size_t k = (size_t)std::max<int64_t>(1, flt->arg); if (n > k) n = k; }
  }
  switch (of->kind) {
    case O_NULL: e.ret = 0; emit(e); return 0;
    case O_SINK: return fail(EBADF);
    case O_DIRFD: return fail(EISDIR);
    case O_FILE: {
      Inode *i = of->ino; size_t dsz = i->data.size(), sz = dsz + (size_t)i->hole;
      size_t off = (size_t)of->pos; size_t k = off >= sz ? 0 : std::min(n, sz - off);
      if (k) { size_t from_data = off < dsz ? std::min(k, dsz - off) : 0; if (from_data) memcpy(buf, i->data.data() + off, from_data); if (k > from_data) memset((char *)buf + from_data, 0, k - from_data); }
      e.off = of->pos; of->pos += (int64_t)k; i->atime = clock;
      e.data = (const char *)buf; e.len = k; e.ret = (int64_t)k; emit(e); return (ssize_t)k;
    }
    case O_PIPE_W: return fail(EBADF);
    case O_PIPE_R: case O_SOCK: {
      if (of->kind == O_SOCK) {
        if (of->sock_state == 1 && clock >= of->sock_ready_at) of->sock_state = of->sock_err ? 3 : 2;
        if (of->sock_state == 3) return fail(of->sock_err ? of->sock_err : ECONNREFUSED);
        if (of->sock_state != 2 || !of->pipe) return fail(ENOTCONN);
      }
      Pipe *pp = of->pipe;
      for (;;) {
        if (pp->reset) return fail(ECONNRESET);
        if (pp->avail() > 0) break;
        if (pp->writers == 0) { e.ret = 0; emit(e); return 0; }
        if (of->flags & O_NONBLOCK) return fail(EAGAIN);
        int wk = block([pp] { return pp->avail() > 0 || pp->writers == 0 || pp->reset; }, -1);
        if (wk == W_SIGNAL) { deliver_signals(); return fail(EINTR); }
      }
      size_t av = std::min(n, pp->avail());
      size_t k = av;
      if (av > 1) {
        double sp = knobs.split_p;
        uint32_t c = ch.choose((uint32_t)av, CH_SPLIT, [&](Rng &r) -> uint32_t { if (!r.chance(sp)) return 0; return (uint32_t)(r.chance(0.5) ? r.below(std::min<size_t>(av, 4)) + (av > 4 ? av - 4 : 0) : r.below(av)); });
        k = av - c;  // choice 0 = everything available
        if (k < 1) k = 1;
        if (k < av) note_fault(of->kind == O_SOCK ? "net_segmentation" : "pipe_read_split");
      }
      memcpy(buf, pp->buf.data() + pp->rdpos, k);
      pp->rdpos += k; pp->total_read += k;
      if (pp->rdpos == pp->buf.size()) { pp->buf.clear(); pp->rdpos = 0; }
      else if (pp->rdpos > 65536) { pp->buf.erase(0, pp->rdpos); pp->rdpos = 0; }
      e.data = (const char *)buf; e.len = k; e.ret = (int64_t)k; emit(e); return (ssize_t)k;
    }
  }
  return fail(EBADF);
}

// ------------------------------------------------------------------ write
ssize_t Kernel::sys_write(int fd, const void *buf, size_t n) {
  OFile *of = get_of(fd);
  if (of && of->kind == O_SINK) {  // log sinks: no yield, never fail
    deliver_signals();
    of->sink->data.append((const char *)buf, n);
    Event e; e.call = C_WRITE; e.fd = fd; e.path = "sink:" + of->sink->label; e.data = (const char *)buf; e.len = n; e.ret = (int64_t)n; emit(e);
    return (ssize_t)n;
  }
  std::string pth = of ? of->path : "";
  ENTER(C_WRITE, pth);
  Event e; e.call = C_WRITE; e.fd = fd; e.a = (int64_t)n; e.data = (const char *)buf; e.len = n;
  of = get_of(fd);
  auto fail = [&](int err) { e.ret = -1; e.err = err; emit(e); errno = err; return (ssize_t)-1; };
  if (!of) return fail(EBADF);
  e.path = of->path; e.ino = of->ino; e.pipe = of->kind == O_SOCK ? of->tx : of->pipe;
  if ((of->flags & O_ACCMODE) == O_RDONLY && of->kind != O_SOCK) return fail(EBADF);
  if (n == 0 && of->kind != O_FILE) { e.ret = 0; emit(e); return 0; }   // a zero-length write to a pipe or socket never blocks and never fails
  size_t limit = n;
  if (flt) {
    if (flt->kind == "error") {
      if (flt->arg > 0 && (size_t)flt->arg < n && of->kind == O_FILE) { limit = (size_t)flt->arg; note_fault("short_write"); flt->fired = false; flt->arg = 0; flt->seen = flt->nth - 1; /* next write fails */ }
      else FAIL_INJECTED(e, "io_error_write")
    } else if (flt->kind == "eintr") { note_fault("eintr"); e.injected = true; return fail(EINTR); }
    else if (flt->kind == "short") { note_fault("short_write"); limit = (size_t)std::max<int64_t>(1, flt->arg); if (limit > n) limit = n; }
  }
  switch (of->kind) {
    case O_NULL: e.ret = (int64_t)n; emit(e); return (ssize_t)n;
    case O_FILE: {
      Inode *i = of->ino;
      size_t off = (of->flags & O_APPEND) ? i->data.size() : (size_t)of->pos;
      size_t k = limit;
      if (off + k > (1u << 30)) return fail(EFBIG);
      if (off > i->data.size()) i->data.resize(off, '\0');
      if (off + k > i->data.size()) i->data.resize(off + k);
      memcpy(&i->data[off], buf, k);
      if (k) i->unsynced.push_back(WriteOp{(uint64_t)off, std::string((const char *)buf, k)});
      of->pos = (int64_t)(off + k); i->mtime = i->ctime = clock;
      e.off = (int64_t)off; e.ret = (int64_t)k; emit(e); return (ssize_t)k;
    }
    case O_PIPE_W: case O_SOCK: {
      if (of->kind == O_SOCK) {
        if (of->sock_state == 1 && clock >= of->sock_ready_at) of->sock_state = of->sock_err ? 3 : 2;
        if (of->sock_state == 3) return fail(of->sock_err ? of->sock_err : ECONNREFUSED);
        if (of->sock_state != 2) return fail(ENOTCONN);
      }
      Pipe *pp = of->kind == O_SOCK ? of->tx : of->pipe;
      if (!pp) return fail(ENOTCONN);
      size_t done = 0;
      size_t want = limit;
      bool atomic = want <= knobs.pipe_buf;
      for (;;) {
        if (pp->reset) return fail(ECONNRESET);
        if (pp->readers == 0) {
          if (done) break;
          post_signal(cp(), SIGPIPE); deliver_signals();
          return fail(EPIPE);
        }
        size_t sp = pp->preloaded ? want : pp->space();
        size_t can = atomic ? (sp >= want ? want : 0) : std::min(sp, want - done);
        if (can > 0) {
          pp->buf.append((const char *)buf + done, can); pp->total_written += can; done += can;
          if (done == want) break;
          if (of->flags & O_NONBLOCK) break;
          continue;
        }
        if (of->flags & O_NONBLOCK) { if (done) break; return fail(EAGAIN); }
        size_t need = atomic ? want : 1;
        int wk = block([pp, need] { return pp->space() >= need || pp->readers == 0 || pp->reset; }, -1);
        if (wk == W_SIGNAL) { deliver_signals(); if (done) break; return fail(EINTR); }
      }
      if (done < n && done == limit && limit < n) {}
      if (done < n) probe("partial_stream_write");
      e.ret = (int64_t)done; emit(e); return (ssize_t)done;
    }
    default: return fail(EBADF);
  }
}

off_t Kernel::sys_lseek(int fd, off_t off, int whence) {
  OFile *of = get_of(fd);
  if (!of) { errno = EBADF; return -1; }
  if (of->kind != O_FILE) { errno = ESPIPE; return -1; }
  int64_t base = whence == SEEK_SET ? 0 : whence == SEEK_CUR ? of->pos : (int64_t)(of->ino->data.size() + of->ino->hole);
  if (base + off < 0) { errno = EINVAL; return -1; }
  of->pos = base + off;
  return of->pos;
}

int Kernel::sys_fstat(int fd, struct stat *st) {
  OFile *of0 = get_of(fd);
  ENTER(C_FSTAT, of0 ? of0->path : "");
  OFile *of = get_of(fd);
  Event e; e.call = C_FSTAT; e.fd = fd;
  if (!of) { e.ret = -1; e.err = EBADF; emit(e); errno = EBADF; return -1; }
  e.path = of->path; e.ino = of->ino;
  if (flt && flt->kind == "error") FAIL_INJECTED(e, "meta_error")
  if (of->ino) fill_stat(of->ino, st);
  else { memset(st, 0, sizeof *st); st->st_mode = (of->kind == O_SOCK ? S_IFSOCK : S_IFIFO) | 0600; st->st_ino = 1; }
  e.ret = 0; emit(e);
  return 0;
}

int Kernel::sys_stat(const char *path, struct stat *st) {
  std::string ps = path ? path : "";
  ENTER(C_STAT, ps);
  Event e; e.call = C_STAT;
  Walk w = walk(ps); e.path = w.canon;
  if (flt && flt->kind == "error") FAIL_INJECTED(e, "meta_error")
  int err = w.err ? w.err : (w.ino ? 0 : ENOENT);
  if (err) { e.ret = -1; e.err = err; emit(e); errno = err; return -1; }
  fill_stat(w.ino, st); e.ino = w.ino; e.ret = 0; emit(e);
  return 0;
}

int Kernel::sys_fsync(int fd) {
  OFile *of0 = get_of(fd);
  ENTER(C_FSYNC, of0 ? of0->path : "");
  OFile *of = get_of(fd);
  Event e; e.call = C_FSYNC; e.fd = fd;
  if (!of) { e.ret = -1; e.err = EBADF; emit(e); errno = EBADF; return -1; }
  e.path = of->path; e.ino = of->ino;
  if (flt && flt->kind == "error") FAIL_INJECTED(e, "fsync_error")
  if (of->kind == O_DIRFD) { e.ret = 0; emit(e); return 0; }   // directory operations are synchronous in this model: nothing to do
  if (of->kind != O_FILE) { e.ret = -1; e.err = EINVAL; emit(e); errno = EINVAL; return -1; }
  of->ino->synced = of->ino->data; of->ino->unsynced.clear();
  e.ret = 0; emit(e);
  return 0;
}

int Kernel::sys_ftruncate(int fd, off_t len) {
  OFile *of0 = get_of(fd);
  ENTER(C_FTRUNCATE, of0 ? of0->path : "");
  OFile *of = get_of(fd);
  Event e; e.call = C_FTRUNCATE; e.fd = fd; e.a = len;
  if (!of) { e.ret = -1; e.err = EBADF; emit(e); errno = EBADF; return -1; }
  if (of->kind != O_FILE || (of->flags & O_ACCMODE) == O_RDONLY || len < 0) { e.ret = -1; e.err = EINVAL; emit(e); errno = EINVAL; return -1; }   // Linux: not a regular file open for writing
  e.path = of->path; e.ino = of->ino;
  if (flt && flt->kind == "error") FAIL_INJECTED(e, "meta_error")
  Inode *i = of->ino; size_t L = (size_t)len;
  i->data.resize(L, '\0');
  if (i->synced.size() > L) i->synced.resize(L);
  std::vector<WriteOp> keep;
  for (auto &op : i->unsynced) { if (op.off >= L) continue; if (op.off + op.bytes.size() > L) op.bytes.resize(L - op.off); keep.push_back(op); }
  i->unsynced.swap(keep);
  i->mtime = i->ctime = clock;
  e.ret = 0; emit(e);
  return 0;
}

int Kernel::sys_link(const char *a, const char *b) {
  std::string as = a ? a : "", bs = b ? b : "";
  ENTER(C_LINK, bs);
  Event e; e.call = C_LINK;
  Walk wa = walk(as), wb = walk(bs); e.path = wa.canon; e.path2 = wb.canon;
  if (flt && flt->kind == "error") FAIL_INJECTED(e, "meta_error")
  int err = 0;
  if (wa.err) err = wa.err; else if (!wa.ino) err = ENOENT; else if (wb.err) err = wb.err; else if (wb.ino) err = EEXIST;
  else if (wa.ino->type == T_DIR) err = EPERM;
  if (err) { e.ret = -1; e.err = err; emit(e); errno = err; return -1; }
  wb.dir->ents[wb.name] = wa.ino->ino; wa.ino->nlink++; wa.ino->ctime = clock; wb.dir->mtime = wb.dir->ctime = clock;
  e.ino = wa.ino; e.ret = 0; emit(e);
  return 0;
}

int Kernel::sys_unlink(const char *p) {
  std::string ps = p ? p : "";
  ENTER(C_UNLINK, ps);
  Event e; e.call = C_UNLINK;
  Walk w = walk(ps); e.path = w.canon;
  if (flt && flt->kind == "error") FAIL_INJECTED(e, "meta_error")
  int err = w.err ? w.err : (!w.ino ? ENOENT : (w.ino->type == T_DIR ? EISDIR : 0));
  if (err) { e.ret = -1; e.err = err; emit(e); errno = err; return -1; }
  Inode *i = w.ino;
  w.dir->ents.erase(w.name); i->nlink--; i->ctime = clock; w.dir->mtime = w.dir->ctime = clock;
  e.ino = i; e.ret = 0; emit(e);
  free_inode_if_unused(i);
  return 0;
}

int Kernel::sys_rename(const char *a, const char *b) {
  std::string as = a ? a : "", bs = b ? b : "";
  ENTER(C_RENAME, as);
  Event e; e.call = C_RENAME;
  Walk wa = walk(as), wb = walk(bs); e.path = wa.canon; e.path2 = wb.canon;
  if (flt && flt->kind == "error") FAIL_INJECTED(e, "meta_error")
  int err = 0;
  // Linux resolves both parent directories before it looks at either last component
  if (wa.err && !wa.dir) err = wa.err; else if (wb.err && !wb.dir) err = wb.err;
  else if (wa.err) err = wa.err; else if (!wa.ino) err = ENOENT; else if (wb.err) err = wb.err;
  else if (wa.ino == wb.ino) err = 0;   // same file: nothing to do
  else if ([&] { if (wa.ino->type != T_DIR) return false; for (Inode *d = wb.dir; d; d = (d == root || !inodes.count(d->parent)) ? nullptr : inodes[d->parent]) if (d == wa.ino) return true; return false; }()) err = EINVAL;   // into its own subtree
  else if ([&] { if (!wb.ino) return false; for (Inode *d = wa.dir; d; d = (d == root || !inodes.count(d->parent)) ? nullptr : inodes[d->parent]) if (d == wb.ino) return true; return false; }()) err = ENOTEMPTY;   // onto one of its ancestors
  else if (wb.ino && wb.ino->type == T_DIR && wa.ino->type != T_DIR) err = EISDIR;
  else if (wb.ino && wb.ino->type != T_DIR && wa.ino->type == T_DIR) err = ENOTDIR;
  else if (wb.ino && wb.ino->type == T_DIR && !wb.ino->ents.empty()) err = ENOTEMPTY;
  if (err) { e.ret = -1; e.err = err; emit(e); errno = err; return -1; }
  if (wa.ino == wb.ino) { e.ret = 0; emit(e); return 0; }
  Inode *victim = wb.ino;
  wa.dir->ents.erase(wa.name);
  wb.dir->ents[wb.name] = wa.ino->ino;
  if (wa.ino->type == T_DIR) { wa.ino->parent = wb.dir->ino; wa.dir->nlink--; wb.dir->nlink++; }
  wa.ino->ctime = clock; wa.dir->mtime = wa.dir->ctime = clock; wb.dir->mtime = wb.dir->ctime = clock;
  e.ino = wa.ino; e.ret = 0; emit(e);
  if (victim) { if (victim->type == T_DIR) { victim->nlink = 0; wb.dir->nlink--; } else victim->nlink--; free_inode_if_unused(victim); }
  return 0;
}

int Kernel::sys_utimes(const char *p, const struct timeval tv[2]) {
  std::string ps = p ? p : "";
  ENTER(C_UTIMES, ps);
  Event e; e.call = C_UTIMES;
  Walk w = walk(ps); e.path = w.canon;
  if (flt && flt->kind == "error") FAIL_INJECTED(e, "meta_error")
  int err = w.err ? w.err : (!w.ino ? ENOENT : 0);
  if (err) { e.ret = -1; e.err = err; emit(e); errno = err; return -1; }
  if (tv) { w.ino->atime = tv[0].tv_sec; w.ino->mtime = tv[1].tv_sec; } else { w.ino->atime = w.ino->mtime = clock; }
  w.ino->ctime = clock;
  e.ino = w.ino; e.a = w.ino->atime; e.b = w.ino->mtime; e.ret = 0; emit(e);
  return 0;
}

int Kernel::sys_mkdir(const char *p, int mode) {
  std::string ps = p ? p : "";
  ENTER(C_MKDIR, ps);
  Event e; e.call = C_MKDIR;
  Walk w = walk(ps); e.path = w.canon;
  if (flt && flt->kind == "error") FAIL_INJECTED(e, "meta_error")
  int err = w.err ? w.err : (w.ino ? EEXIST : 0);
  if (w.err == ENOTDIR && w.ino) err = EEXIST;   // "name/" where name exists and is no directory
  if (err) { e.ret = -1; e.err = err; emit(e); errno = err; return -1; }
  Proc *pr = cp();
  Inode *n = new_inode(T_DIR, (uint32_t)mode & ~pr->umask_ & 07777, pr->euid, pr->egid);
  n->nlink = 2; n->parent = w.dir->ino; w.dir->ents[w.name] = n->ino; w.dir->nlink++;
  e.ino = n; e.ret = 0; emit(e);
  return 0;
}

mode_t Kernel::sys_umask(mode_t m) { Proc *p = cp(); mode_t o = p->umask_; p->umask_ = m & 0777; return o; }

int Kernel::sys_chdir(const char *p) {
  std::string ps = p ? p : "";
  deliver_signals();
  Fault *flt = match_fault(C_CHDIR, ps);
  Event e; e.call = C_CHDIR;
  Walk w = walk(ps); e.path = w.canon;
  if (flt && flt->kind == "error") FAIL_INJECTED(e, "meta_error")
  int err = w.err ? w.err : (!w.ino ? ENOENT : (w.ino->type != T_DIR ? ENOTDIR : 0));
  if (err) { e.ret = -1; e.err = err; emit(e); errno = err; return -1; }
  Proc *pr = cp(); pr->cwd = w.ino; pr->cwd_path = w.canon;
  e.ret = 0; emit(e);
  return 0;
}

int Kernel::sys_fcntl(int fd, int cmd, long arg) {
  Proc *p = cp(); OFile *of = get_of(fd);
  if (!of) { errno = EBADF; return -1; }
  switch (cmd) {
    case F_GETFL: return of->flags;
    case F_SETFL: of->flags = (of->flags & O_ACCMODE) | ((int)arg & (O_APPEND | O_NONBLOCK)); return 0;
    case F_GETFD: return p->fds[fd].cloexec ? FD_CLOEXEC : 0;
    case F_SETFD: p->fds[fd].cloexec = (arg & FD_CLOEXEC) != 0; return 0;
    case F_DUPFD: { if (arg < 0 || arg > 1000) { errno = EINVAL; return -1; } int n = alloc_fd(p, of, (int)arg); return n; }
    default: errno = EINVAL; return -1;
  }
}

// ------------------------------------------------------------------ directories
DirHandle *Kernel::sys_opendir(const char *p) {
  std::string ps = p ? p : "";
  ENTER(C_OPENDIR, ps);
  Event e; e.call = C_OPENDIR;
  Walk w = walk(ps); e.path = w.canon;
  if (flt && flt->kind == "error") { note_fault("meta_error"); e.ret = -1; e.err = flt->err ? flt->err : EIO; e.injected = true; emit(e); errno = e.err; return nullptr; }
  int err = w.err ? w.err : (!w.ino ? ENOENT : (w.ino->type != T_DIR ? ENOTDIR : 0));
  if (err) { e.ret = -1; e.err = err; emit(e); errno = err; return nullptr; }
  DirHandle *d = new DirHandle; d->dir = w.ino; d->path = w.canon; w.ino->opens++;
  d->names.push_back("."); d->names.push_back("..");
  for (auto &en : w.ino->ents) d->names.push_back(en.first);
  // per-open order
  size_t n = d->names.size();
  double sp = knobs.dir_shuffle_p;
  uint32_t sh = ch.choose(2, CH_DIR, [&](Rng &r) { return (uint32_t)r.chance(sp); });
  if (sh && n > 1) for (size_t i = n - 1; i > 0; i--) {
    uint32_t j = ch.choose((uint32_t)i + 1, CH_DIR, [&](Rng &r) { return (uint32_t)r.below(i + 1); });
    j = (uint32_t)i - j;  // choice 0 keeps position
    std::swap(d->names[i], d->names[j]);
  }
  w.ino->atime = clock;
  e.ino = w.ino; e.ret = 0; e.a = (int64_t)n; emit(e);
  cp()->nallocs += 0;
  return d;
}

struct dirent *Kernel::sys_readdir(DirHandle *d) {
  yield_point();
  Event e; e.call = C_READDIR; e.path = d->path; e.ino = d->dir;
  for (;;) {
    if (d->pos >= d->names.size()) {
      // entries created after opendir may or may not be seen: choice (default: not seen)
      std::vector<std::string> late;
      for (auto &en : d->dir->ents) if (std::find(d->names.begin(), d->names.end(), en.first) == d->names.end()) late.push_back(en.first);
      if (!late.empty()) {
        uint32_t c = ch.choose(2, CH_DIR, [&](Rng &r) { return (uint32_t)r.chance(0.5); });
        if (c) { d->names.push_back(late[0]); probe("dir_late_entry_seen"); continue; }
        probe("dir_late_entry_missed");
        // mark them as considered so the question is asked once per name
        for (auto &nm : late) d->names.push_back(nm);
        d->pos = d->names.size();
      }
      e.ret = 0; emit(e); return nullptr;
    }
    const std::string &nm = d->names[d->pos++];
    uint64_t ino = 0;
    if (nm == ".") ino = d->dir->ino; else if (nm == "..") ino = d->dir->parent;
    else { auto it = d->dir->ents.find(nm); if (it == d->dir->ents.end()) {
        // removed since opendir: may still be returned (stale) or skipped
        uint32_t c = ch.choose(2, CH_DIR, [&](Rng &r) { return (uint32_t)r.chance(0.5); });
        if (!c) continue; ino = 1; probe("dir_stale_entry_returned");
      } else ino = it->second; }
    memset(&d->ent, 0, sizeof d->ent);
    d->ent.d_ino = ino; strncpy(d->ent.d_name, nm.c_str(), sizeof(d->ent.d_name) - 1);
    e.path2 = nm; e.ret = 1; emit(e);
    return &d->ent;
  }
}

int Kernel::sys_closedir(DirHandle *d) {
  Event e; e.call = C_CLOSEDIR; e.path = d->path; e.ret = 0; emit(e);
  d->dir->opens--; free_inode_if_unused(d->dir);
  delete d; return 0;
}

// ------------------------------------------------------------------ flock, pipe
int Kernel::sys_flock(int fd, int op) {
  OFile *of0 = get_of(fd);
  ENTER(C_FLOCK, of0 ? of0->path : "");
  OFile *of = get_of(fd);
  Event e; e.call = C_FLOCK; e.fd = fd; e.a = op;
  auto fail = [&](int err) { e.ret = -1; e.err = err; emit(e); errno = err; return -1; };
  if (!of || !of->ino) return fail(EBADF);
  e.path = of->path; e.ino = of->ino;
  if (flt && flt->kind == "error") FAIL_INJECTED(e, "meta_error")
  if (flt && flt->kind == "eintr") { note_fault("eintr"); e.injected = true; return fail(EINTR); }
  Inode *i = of->ino;
  if (op & LOCK_UN) { if (i->lock_owner == of) i->lock_owner = nullptr; e.ret = 0; emit(e); return 0; }
  for (;;) {
    if (!i->lock_owner || i->lock_owner == of) { i->lock_owner = of; e.ret = 0; emit(e); return 0; }
    if (op & LOCK_NB) return fail(EWOULDBLOCK);
    probe("flock_wait");
    int wk = block([i, of] { return !i->lock_owner || i->lock_owner == of; }, -1);
    if (wk == W_SIGNAL) { deliver_signals(); return fail(EINTR); }
  }
}

int Kernel::sys_pipe(int fds[2]) {
  deliver_signals();
  Fault *flt = match_fault(C_PIPE, "");
  Event e; e.call = C_PIPE;
  if (flt && flt->kind == "error") FAIL_INJECTED(e, "pipe_fail")
  Proc *p = cp();
  Pipe *pp = new_pipe("pipe");
  fds[0] = alloc_fd(p, of_pipe_r(pp)); fds[1] = alloc_fd(p, of_pipe_w(pp));
  e.pipe = pp; e.a = fds[0]; e.b = fds[1]; e.ret = 0; emit(e);
  return 0;
}

bool Kernel::readable(OFile *of) {
  switch (of->kind) {
    case O_FILE: case O_NULL: case O_DIRFD: return true;
    case O_SINK: return false;
    case O_PIPE_W: return of->pipe && of->pipe->readers == 0;   // select reports the error condition of a write end without readers as readable too
    case O_PIPE_R: {
      Pipe *p = of->pipe;
      if (p->avail() > 0) return true;
      if (p->is_fifo) return p->writers == 0 && of->f_version != p->w_counter;
      return p->writers == 0;
    }
    case O_SOCK: return of->pipe && (of->pipe->avail() > 0 || of->pipe->writers == 0 || of->pipe->reset);
  }
  return false;
}
bool Kernel::writable(OFile *of) {
  switch (of->kind) {
    case O_FILE: case O_NULL: case O_SINK: case O_DIRFD: return true;
    case O_PIPE_R: return false;
    case O_PIPE_W: { Pipe *p = of->pipe; return p->readers == 0 || p->space() >= std::min(knobs.pipe_buf, p->cap); }
    case O_SOCK:
      if (of->sock_state == 1) return clock >= of->sock_ready_at;
      if (of->sock_state == 3) return true;
      return of->tx && (of->tx->readers == 0 || of->tx->reset || of->tx->space() >= 1);
  }
  return false;
}

}  // namespace sim

// p.cc - world P: real qmail-pop3d (optionally behind the real qmail-popup and a checkpassword stub) on a simulated maildir,
// a scripted POP3 client and a concurrent "MUA" that removes or moves files mid-session. Reference model of RFC 1939 as
// qualified by qmail-pop3d(8) (C19).
#include "common.h"
#include <errno.h>
#include <fcntl.h>
#include <string.h>
#include <signal.h>
#include <algorithm>

namespace sim {

struct PMsg { std::string dir, name, content; uint64_t hole = 0; uint64_t sz() const { return content.size() + hole; } int64_t mtime; bool listed = false; bool vanished = false; size_t vanish_at = (size_t)-1; bool deleted = false; std::string path() const { return dir + "/" + name; } std::string uid() const { return name.substr(0, name.find(':')); } };

struct WorldP : World {
  QmailTree t;
  std::string home = "/home/user1", md = "/home/user1/Maildir";
  std::vector<PMsg> files;                 // initial population
  std::vector<std::string> cmds;           // command lines sent (without CRLF)
  std::string rx; bool popup = false; bool as_root = false;
  std::string fd3; std::string auth_user, auth_pass; int popup_pid = 0;
  int daemon_pid = 0; bool daemon_done = false; int daemon_status = -1;
  std::vector<std::pair<size_t, Json>> mua;   // (after command index, action)
  std::set<std::string> stale_tmp, fresh_tmp;
  bool client_closed_early = false; size_t sent_cmds = 0;
  int64_t t_start = 0;
  Sink *errs = nullptr;

  void setup() override {
    t.build(k, conf);
    errs = k->new_sink("stderr");
    k->put_exec(t.home + "/bin/qmail-pop3d", "qmail-pop3d", 0755);
    k->put_exec(t.home + "/bin/qmail-popup", "qmail-popup", 0755);
    k->put_exec(t.home + "/bin/checkpassword", "stub:checkpw", 0755);
    k->natives["checkpw"] = [this](int argc, char **argv) { return checkpw_main(argc, argv); };
    k->passwd.push_back(PwEnt{"user1", 1001, 1001, home, "/bin/sh"});
    k->mkdir_p(home, 0755, 1001, 1001);
    for (const char *s : {"/tmp", "/new", "/cur"}) k->mkdir_p(md + s, 0700, 1001, 1001);
    popup = plan->knobs.getb("popup", false); as_root = plan->knobs.getb("as_root", false);
    for (auto &f : plan->knobs["files"].a) {
      PMsg m; m.dir = f.gets("dir", "new"); m.name = f.gets("name"); m.content = f.gets("content"); m.mtime = k->clock - f.geti("age", 100); m.hole = (uint64_t)f.geti("hole", 0);
      Inode *i = k->put_file(md + "/" + m.path(), m.content, 0600, 1001, 1001); i->mtime = m.mtime; i->atime = m.mtime; i->hole = m.hole; if (m.hole) k->probe("sparse_message_planted"); files.push_back(m);
    }
    for (auto &f : plan->knobs["tmpfiles"].a) { Inode *i = k->put_file(md + "/tmp/" + f.gets("name"), "tmp", 0600, 1001, 1001); i->atime = i->mtime = k->clock - f.geti("age", 0); (f.geti("age", 0) > 129600 ? stale_tmp : fresh_tmp).insert(f.gets("name")); }
    for (auto &op : plan->ops.a) if (op.gets("op") == "mua") mua.push_back({(size_t)op.geti("after", 0), op});
  }

  int checkpw_main(int, char **argv) {
    // reads fd 3 like checkpassword, records it, then runs the POP3 server as the user
    char b[512]; for (;;) { ssize_t n = k->sys_read(3, b, sizeof b); if (n <= 0) break; fd3.append(b, (size_t)n); }
    k->sys_close(3);
    size_t z1 = fd3.find('\0'); size_t z2 = z1 == std::string::npos ? z1 : fd3.find('\0', z1 + 1);
    if (z2 == std::string::npos) return 2;
    std::string pass = fd3.substr(z1 + 1, z2 - z1 - 1);
    if (pass == "wrong") return 1;
    if (pass == "crash") k->kill_proc(k->cp(), 11);
    k->sys_chdir(home.c_str());
    if (!as_root) { k->cp()->uid = k->cp()->euid = 1001; k->cp()->gid = k->cp()->egid = 1001; }
    char *args[3] = {(char *)"bin/qmail-pop3d", (char *)"Maildir", nullptr}; (void)argv;
    std::string path = t.home + "/bin/qmail-pop3d";
    std::vector<std::string> envs; for (auto &e : k->cp()->env_s) envs.push_back(e);
    std::vector<char *> envp; for (auto &e : envs) envp.push_back((char *)e.c_str()); envp.push_back(nullptr);
    k->sys_execve(path.c_str(), args, envp.data(), false);
    return 111;
  }

  static bool multiline_cmd(const std::string &line) {
    std::string v = line.substr(0, line.find(' ')); for (auto &c : v) c = (char)tolower((unsigned char)c);
    std::string arg = line.find(' ') == std::string::npos ? std::string() : line.substr(line.find(' ')); while (!arg.empty() && arg[0] == ' ') arg.erase(0, 1);
    if (v == "retr" || v == "top") return true;
    if ((v == "list" || v == "uidl") && arg.empty()) return true;
    return false;
  }
  // split rx into replies given the commands; returns false if the stream ends early
  static size_t complete_replies(const std::string &rx, const std::vector<std::string> &cmds, bool popup_mode, std::vector<std::string> *out) {
    size_t i = 0, n = 0;
    auto one = [&](bool multi) -> bool { size_t e = rx.find("\r\n", i); if (e == std::string::npos) return false; bool ok = rx.compare(i, 3, "+OK") == 0;
      size_t end = e + 2; if (multi && ok) { if (rx.compare(end, 3, ".\r\n") == 0) end += 3; else { size_t f = rx.find("\r\n.\r\n", end - 2); if (f == std::string::npos) return false; end = f + 5; } }
      if (out) out->push_back(rx.substr(i, end - i)); i = end; return true; };
    if (!one(false)) return n; n++;   // greeting
    bool authed = !popup_mode;
    for (auto &c : cmds) {
      bool multi = authed && multiline_cmd(c);
      std::string v = c.substr(0, c.find(' ')); for (auto &ch : v) ch = (char)tolower((unsigned char)ch);
      if (!one(multi)) return n; n++;
      if (!authed && (v == "pass" || v == "apop") && out && out->back().compare(0, 3, "+OK") == 0) authed = true;
      if (!authed && (v == "pass" || v == "apop") && !out) { /* counting only: peek */ size_t s = i; (void)s; }
    }
    return n;
  }

  int client_main() {
    k->cp()->sig[SIGPIPE].handler = SIG_IGN;
    auto pump = [&](int64_t secs) -> bool { fd_set rf; FD_ZERO(&rf); FD_SET(0, &rf); struct timeval tv; tv.tv_sec = secs; tv.tv_usec = 0; int r = k->sys_select(1, &rf, nullptr, nullptr, &tv); if (r <= 0) return false; char b[4096]; ssize_t n = k->sys_read(0, b, sizeof b); if (n <= 0) return false; rx.append(b, (size_t)n); return true; };
    bool lockstep = plan->knobs.getb("lockstep", true);
    auto wait_replies = [&](size_t want) { std::vector<std::string> tmp; for (;;) { tmp.clear(); if (complete_replies(rx, std::vector<std::string>(cmds.begin(), cmds.begin() + (long)std::min(cmds.size(), want ? want - 1 : 0)), popup, &tmp) >= want) return true; if (!pump(3000)) return false; } };
    if (lockstep) wait_replies(1);
    for (auto &op : plan->ops.a) {
      std::string o = op.gets("op");
      if (o == "cmd") { std::string line = op.gets("line"); std::string wire = line + (op.getb("lf_only", false) ? "\n" : "\r\n");
        // full duplex like a TCP peer: keep reading the server's output while a large command is going out, or a pipelined
        // session deadlocks with both sides blocked in write()
        { k->sys_fcntl(1, F_SETFL, O_NONBLOCK); size_t off = 0; bool dead = false;
          while (off < wire.size() && !dead) { ssize_t w = k->sys_write(1, wire.data() + off, wire.size() - off); if (w > 0) { off += (size_t)w; continue; } if (w < 0 && errno != EAGAIN) { dead = true; break; }
            fd_set rf, wf; FD_ZERO(&rf); FD_ZERO(&wf); FD_SET(0, &rf); FD_SET(1, &wf); struct timeval tv; tv.tv_sec = 5000; tv.tv_usec = 0; int r = k->sys_select(2, &rf, &wf, nullptr, &tv); if (r <= 0) { dead = true; break; }
            if (FD_ISSET(0, &rf)) { char rb[4096]; ssize_t rn = k->sys_read(0, rb, sizeof rb); if (rn > 0) rx.append(rb, (size_t)rn); else if (rn == 0) dead = true; } }
          if (dead) break; }
        cmds.push_back(line); sent_cmds++;
        if (lockstep) { if (!wait_replies(cmds.size() + 1)) break; }
        for (auto &m : mua) if (m.first == cmds.size()) do_mua(m.second);
      }
      else if (o == "sleep") k->block([] { return false; }, k->clock + op.geti("s", 1), false);
      else if (o == "close") { client_closed_early = true; break; }
    }
    k->sys_close(1);
    while (pump(5000)) {}
    return 0;
  }

  void do_mua(const Json &a) {
    // a mail reader working on the same maildir
    std::string act = a.gets("act"); size_t idx = (size_t)a.geti("file", 0); if (idx >= files.size()) return;
    PMsg &m = files[idx]; std::string p = md + "/" + m.path();
    if (act == "unlink") { if (k->sys_unlink(p.c_str()) == 0) { m.vanished = true; m.vanish_at = cmds.size(); k->note_fault("file_vanish"); } }
    else if (act == "rename" && m.dir == "new") { std::string np = md + "/cur/" + m.name + ":2,S"; if (k->sys_rename(p.c_str(), np.c_str()) == 0) { m.vanished = true; m.vanish_at = cmds.size(); PMsg n2 = m; n2.dir = "cur"; n2.name = m.name + ":2,S"; n2.vanished = false; n2.listed = false; moved.push_back(n2); k->note_fault("file_vanish"); } }
  }
  std::vector<PMsg> moved;

  void driver() override {
    t_start = k->clock;
    Pipe *c2s = k->new_pipe("client->server"), *s2c = k->new_pipe("server->client"); c2s->cap = s2c->cap = 262144;
    std::vector<Kernel::FdSpec> fds = {{0, k->of_pipe_r(c2s)}, {1, k->of_pipe_w(s2c)}, {2, k->of_sink(errs)}};
    if (popup) daemon_pid = k->spawn(k->cp(), t.home + "/bin/qmail-popup", {"qmail-popup", "pop.example", t.home + "/bin/checkpassword", "bin/qmail-pop3d", "Maildir"}, {"PATH=/bin"}, fds, 0, 0, t.home);
    else daemon_pid = k->spawn(k->cp(), t.home + "/bin/qmail-pop3d", {"qmail-pop3d", "Maildir"}, {}, fds, as_root ? 0 : 1001, 1001, home);
    popup_pid = daemon_pid;
    k->spawn_native(k->cp(), "client", [this](int, char **) { return client_main(); }, {{0, k->of_pipe_r(s2c)}, {1, k->of_pipe_w(c2s)}}, 1001, 1001, "/");
    k->block([this] { for (auto &pp : k->procs) if (pp.second->st == Proc::LIVE && !pp.second->immortal) return false; return true; }, k->clock + 400000, false, true);
    k->stop = true;
  }

  void on_event(const Event &e) override { if (e.pid == daemon_pid && e.call == C_EXIT) { daemon_done = true; daemon_status = (int)e.a; } }

  static std::string ref_retr(const std::string &c, long top /* -1 = all */) {
    std::string o = "+OK \r\n"; size_t i = 0; bool inhdr = true; long body = 0;
    while (i < c.size()) {
      size_t e = c.find('\n', i); bool partial = e == std::string::npos; std::string line = c.substr(i, partial ? std::string::npos : e - i); i = partial ? c.size() : e + 1;
      if (top >= 0 && !inhdr) { if (body >= top) break; body++; }
      if (line.empty()) inhdr = false;
      if (!line.empty() && line[0] == '.') o += ".";
      o += line + "\r\n";
    }
    return o + "\r\n.\r\n";
  }

  void finish() override {
    if (plan->knobs.getb("nojudge", false)) { res->nontrivial = !rx.empty(); if (!daemon_done) violate("C20.server-hung", "POP3 server still running"); Hash64 h9; h9.str(rx); res->state_hash = h9.get(); return; }
    std::vector<std::string> rep; size_t n = complete_replies(rx, cmds, popup, &rep);
    res->nontrivial = n > 1;
    std::string tr; for (size_t q = 0; q < cmds.size() && q < 12; q++) tr += "[" + printable(cmds[q], 30) + "]";
    auto fail = [&](const std::string &cls, const std::string &d) { violate(cls, d + "; commands " + tr); };
    if (!daemon_done) { fail("C19.server-hung", "server still running after the client went away"); return; }
    if (as_root && !popup) { if (rx.find("+OK") != std::string::npos) fail("C19.runs-as-root", "qmail-pop3d served a session as uid 0: \"" + printable(rx, 80) + "\""); check_maildir_unchanged("root refusal"); return; }
    // an injected allocation failure may make the server refuse the session, or refuse one command, with -ERR; what it does
    // show or delete must still be faithful (a partial view of the maildir behind a +OK greeting is not)
    bool alloc_fault = false; for (auto &f : plan->faults) if (f.kind == "null") alloc_fault = true; bool fault_excused = false;
    if (alloc_fault && !rep.empty() && rep[0].compare(0, 4, "-ERR") == 0) { k->probe("pop3_refused_under_alloc_fault"); check_maildir_unchanged("refusal under allocation failure"); return; }
    if (alloc_fault && rep.empty() && daemon_done) { k->probe("pop3_refused_under_alloc_fault"); check_maildir_unchanged("refusal under allocation failure"); return; }
    if (rep.empty() || rep[0].compare(0, 3, "+OK") != 0) { fail("C19.greeting", "\"" + printable(rx, 80) + "\""); return; }
    // ---- model
    size_t ci = 0; bool authed = !popup; bool seenuser = false; std::string user;
    std::vector<PMsg *> num; bool numbered = false; bool quit_done = false; bool session_dead = false;
    std::vector<PMsg *> eligible; for (auto &f : files) if (f.mtime < t_start && f.name[0] != '.') eligible.push_back(&f);
    auto learn_numbering = [&](const std::string &uidl_reply) -> bool {
      // "+OK \r\n" then "n uid\r\n" ... ".\r\n"
      std::vector<std::string> uids; size_t i = uidl_reply.find("\r\n") + 2; while (i < uidl_reply.size()) { size_t e = uidl_reply.find("\r\n", i); std::string l = uidl_reply.substr(i, e - i); i = e + 2; if (l == ".") break; size_t sp = l.find(' '); if (sp == std::string::npos || (size_t)atol(l.c_str()) != uids.size() + 1) return false; uids.push_back(l.substr(sp + 1)); }
      if (uids.size() != eligible.size()) return false;
      std::set<PMsg *> used; for (auto &u : uids) { PMsg *f = nullptr; for (auto *e2 : eligible) if (!used.count(e2) && e2->uid() == u) { f = e2; break; } if (!f) return false; used.insert(f); num.push_back(f); }
      for (size_t q = 1; q < num.size(); q++) if (num[q]->mtime < num[q - 1]->mtime) return false;
      return true;
    };
    size_t mua_i = 0; (void)mua_i;
    for (; ci < cmds.size(); ci++) {
      if (ci + 1 >= rep.size()) break;   // no (complete) reply: connection ended
      const std::string &line = cmds[ci]; const std::string &r = rep[ci + 1];
      std::string cl = line; if (cl.find('\0') != std::string::npos) cl = cl.substr(0, cl.find('\0'));
      std::string v = cl.substr(0, cl.find(' ')); for (auto &c : v) c = (char)tolower((unsigned char)c);
      std::string arg = cl.find(' ') == std::string::npos ? std::string() : cl.substr(cl.find(' ')); while (!arg.empty() && arg[0] == ' ') arg.erase(0, 1);
      bool ok = r.compare(0, 3, "+OK") == 0;
      // (QUIT may already have said "-ERR unable to unlink all deleted messages" - a file somebody else removed - before it runs out of memory: the last thing the server says decides)
      if (alloc_fault && v == "quit" && authed && !fault_excused && rx.size() >= 20 && rx.compare(rx.size() - 20, 20, "-ERR out of memory\r\n") == 0 && daemon_done) { k->probe("pop3_command_refused_under_alloc_fault"); return; }
      if (alloc_fault && !ok && !fault_excused && authed && r.find("memory") != std::string::npos) { fault_excused = true; k->probe("pop3_command_refused_under_alloc_fault");
        if (v == "quit") return;   // QUIT ran out of memory half-way: some of the requested deletions and moves are done, the rest is not; both are what the client asked for
        continue; }
      std::string ctx = "command " + std::to_string(ci + 1) + " \"" + printable(line, 40) + "\" answered \"" + printable(r, 80) + "\"";
      // apply the reader's concurrent actions that happened before this command
      if (!authed) {
        if (v == "user") { bool want = !arg.empty(); if (ok != want) { fail("C19.popup-user", ctx); return; } if (want) { seenuser = true; user = arg; } }
        else if (v == "pass") {
          if (!seenuser || arg.empty()) { if (ok) { fail("C19.popup-pass", ctx); return; } continue; }
          auth_user = user; auth_pass = arg;
          if (arg == "wrong" || arg == "crash") { if (ok) { fail("C19.popup-bad-auth-accepted", ctx); return; } session_dead = true; ci++; break; }
          if (!ok && !as_root && alloc_fault) { k->probe("pop3_refused_under_alloc_fault"); check_maildir_unchanged("refusal under allocation failure"); return; }   // the server behind the login refused the session for lack of memory
          if (!ok && !as_root) { fail("C19.popup-auth", ctx); return; }
          if (as_root) { if (ok) fail("C19.runs-as-root", "session served as uid 0"); session_dead = true; ci++; break; }
          authed = true;
        }
        else if (v == "apop") { size_t sp = arg.find(' '); if (sp == std::string::npos) { if (ok) { fail("C19.popup-apop", ctx); return; } continue; } auth_user = arg.substr(0, sp); auth_pass = arg.substr(sp + 1);
          if (auth_pass == "wrong") { if (ok) { fail("C19.popup-bad-auth-accepted", ctx); return; } session_dead = true; ci++; break; } if (!ok && alloc_fault) { k->probe("pop3_refused_under_alloc_fault"); check_maildir_unchanged("refusal under allocation failure"); return; } if (!ok) { fail("C19.popup-auth", ctx); return; } authed = true; }
        else if (v == "noop") { if (!ok) { fail("C19.popup-noop", ctx); return; } }
        else if (v == "quit") { if (!ok) { fail("C19.popup-quit", ctx); return; } session_dead = true; ci++; break; }
        else { if (ok) { fail("C19.command-before-authentication", ctx + ": only USER, PASS, APOP, NOOP and QUIT may act before authentication"); return; } }
        continue;
      }
      // concurrent reader actions scheduled after earlier commands are already reflected in files[].vanished (done in lockstep)
      auto msgno = [&](const std::string &a, long &idx) -> bool { size_t d = 0; while (d < a.size() && isdigit((unsigned char)a[d])) d++; if (d == 0) return false; if (d > 18) { idx = 1L << 60; return true; } idx = atol(a.substr(0, d).c_str()); return true; };
      if (!numbered && (v == "uidl" && arg.empty())) { if (!ok || !learn_numbering(r)) { fail("C19.listing", ctx + ": not a bijection onto the " + std::to_string(eligible.size()) + " messages present at start in non-decreasing mtime order"); return; } numbered = true; for (auto *f : num) f->listed = true; continue; }
      if (!numbered) { if (v == "quit") { if (!ok) { fail("C19.quit", ctx); return; } quit_done = true; ci++; break; } continue; }   // the plan always asks UIDL first; anything before it is only run
      size_t N = num.size();
      auto valid = [&](const std::string &a, long &i0, bool &syntax) -> bool { syntax = false; long u; if (!msgno(a, u)) { syntax = true; return false; } if (u == 0) return false; if ((size_t)u > N) return false; i0 = u - 1; if (num[(size_t)i0]->deleted) return false; return true; };
      if (v == "stat") { uint64_t total = 0; for (auto *f : num) if (!f->deleted) total += f->sz(); size_t sp = r.rfind(' '); if (!ok || sp == std::string::npos || strtoull(r.c_str() + sp + 1, 0, 10) != total) { fail("C19.stat-size", ctx + ", undeleted messages total " + std::to_string(total) + " bytes"); return; } }
      else if (v == "list" || v == "uidl") {
        bool uid = v == "uidl";
        if (arg.empty()) { std::string want = "+OK \r\n"; for (size_t q = 0; q < N; q++) if (!num[q]->deleted) want += std::to_string(q + 1) + " " + (uid ? num[q]->uid() : std::to_string(num[q]->sz())) + "\r\n"; want += ".\r\n"; if (r != want) { fail("C19.listing", ctx + ", expected \"" + printable(want, 80) + "\""); return; } }
        else { long i0; bool syn; if (!valid(arg, i0, syn)) { if (ok) { fail("C19.bad-number-accepted", ctx); return; } } else { std::string want = "+OK " + std::to_string(i0 + 1) + " " + (uid ? num[(size_t)i0]->uid() : std::to_string(num[(size_t)i0]->sz())) + "\r\n"; if (r != want) { fail("C19.listing", ctx + ", expected \"" + printable(want, 60) + "\""); return; } } }
      }
      else if (v == "retr" || v == "top") {
        long i0; bool syn; if (!valid(arg, i0, syn)) { if (ok) { fail("C19.bad-number-accepted", ctx); return; } continue; }
        PMsg *f = num[(size_t)i0];
        if (f->vanished && f->vanish_at <= ci) { if (ok) { fail("C19.vanished-message-served", ctx); return; } continue; }
        long top = -1; { size_t d = 0; while (d < arg.size() && isdigit((unsigned char)arg[d])) d++; std::string rest = arg.substr(d); while (!rest.empty() && rest[0] == ' ') rest.erase(0, 1); size_t d2 = 0; while (d2 < rest.size() && isdigit((unsigned char)rest[d2])) d2++; if (d2 > 0) top = d2 > 9 ? 1000000000L : atol(rest.substr(0, d2).c_str()); }
        if (v == "retr" && top >= 0) { /* RETR n k: extra argument; the documents do not say - only judged for safety */ continue; }
        std::string want = ref_retr(f->content, top);
        if (r != want) { size_t d = 0; while (d < r.size() && d < want.size() && r[d] == want[d]) d++; fail(v == "retr" ? "C19.retr-content" : "C19.top-content", ctx + ": differs from the stored message at reply offset " + std::to_string(d) + " (got \"" + printable(r.substr(d, 30)) + "\", expected \"" + printable(want.substr(d, 30)) + "\")"); return; }
        k->probe("c19_retr_checked");
      }
      else if (v == "dele") { long i0; bool syn; if (!valid(arg, i0, syn)) { if (ok) { fail("C19.bad-number-accepted", ctx); return; } } else { if (!ok) { fail("C19.dele-refused", ctx); return; } num[(size_t)i0]->deleted = true; } }
      else if (v == "rset") { if (!ok) { fail("C19.rset", ctx); return; } for (auto *f : num) f->deleted = false; }
      else if (v == "noop" || v == "last") { if (!ok) { fail("C19.noop", ctx); return; } }
      else if (v == "quit") { quit_done = true; ci++; break; }
      else { if (ok) { fail("C19.unknown-command-accepted", ctx); return; } }
    }
    // ---- the maildir afterwards
    std::map<std::string, std::string> want;   // relative path -> content
    for (auto &f : files) {
      if (f.vanished) continue;
      bool numberedf = f.listed; bool listed_any = f.mtime < t_start && f.name[0] != '.';
      if (quit_done && authed) {
        if (numberedf && f.deleted) continue;
        if (f.dir == "new" && listed_any) { want["cur/" + f.name + ":2,"] = f.content; continue; }
      }
      want[f.path()] = f.content;
    }
    for (auto &f : moved) want[f.path()] = f.content;
    std::map<std::string, std::string> got;
    for (const char *d : {"new", "cur"}) for (auto &nm : k->listdir(md + "/" + d)) { Inode *i = k->lookup(md + "/" + d + "/" + nm); if (i) got[std::string(d) + "/" + nm] = i->data; }
    if (session_dead && !authed) want = want;
    if (got != want) {
      std::string a, b; for (auto &x : got) if (!want.count(x.first)) a += x.first + " "; for (auto &x : want) if (!got.count(x.first)) b += x.first + " ";
      std::string c2; for (auto &x : got) if (want.count(x.first) && want[x.first] != x.second) c2 += x.first + " ";
      fail(quit_done ? "C19.maildir-after-quit" : "C19.maildir-changed-without-quit", "unexpected files { " + a + "} missing files { " + b + "}" + (c2.empty() ? "" : " changed content { " + c2 + "}") + (quit_done ? " after QUIT" : " although no QUIT was processed"));
      return;
    }
    for (auto &nm : k->listdir(md + "/tmp")) if (stale_tmp.count(nm) && authed && false) {}
    for (auto &nm : fresh_tmp) if (!k->lookup(md + "/tmp/" + nm)) { fail("C19.fresh-tmp-removed", "tmp/" + nm); return; }
    // ---- credentials reach the checker verbatim
    if (popup && !auth_user.empty()) {
      std::string g = rep[0]; size_t lt = g.find('<'), gt = g.find('>'); std::string uniq = lt != std::string::npos && gt != std::string::npos ? g.substr(lt, gt - lt + 1) : "";
      std::string wantfd3 = auth_user + std::string(1, '\0') + auth_pass + std::string(1, '\0') + uniq + std::string(1, '\0');
      if (fd3 != wantfd3) { fail("C19.credentials", "checker received \"" + printable(fd3, 80) + "\" on descriptor 3, expected \"" + printable(wantfd3, 80) + "\""); return; }
      std::string wu = "<" + std::to_string(popup_pid) + "."; if (uniq.compare(0, wu.size(), wu) != 0 || uniq.find("@pop.example>") == std::string::npos) { fail("C19.greeting", "banner " + uniq); return; }
    }
    Hash64 h; h.str(rx); res->state_hash = h.get();
  }

  void check_maildir_unchanged(const char *why) {
    for (auto &f : files) { Inode *i = k->lookup(md + "/" + f.path()); if (!i || i->data != f.content) { violate("C19.maildir-changed-without-quit", f.path() + " changed (" + why + ")"); return; } }
  }
};

World *make_world_p() { return new WorldP; }

}  // namespace sim

// k.cc - world K: differential self-test of simos against the host kernel.
// A seeded sequence of file-system, FIFO, pipe and lock operations over a tiny name space runs twice: once through the
// simulated kernel (k->sys_*) and once through the real system calls in a scratch directory on the host. Every return value,
// errno, byte read and stat field that the notqmail programs can observe must agree. A disagreement is a defect of the
// simulator (class KSELF.mismatch), never a verdict about notqmail; `simq selftest` runs a batch of these.
#include "common.h"
#include <errno.h>
#include <fcntl.h>
#include <string.h>
#include <signal.h>
#include <unistd.h>
#include <dirent.h>
#include <sys/stat.h>
#include <sys/file.h>
#include <sys/select.h>
#include <sys/time.h>
#include <algorithm>

namespace sim {

namespace {

struct Sys {   // the common surface
  virtual ~Sys() {}
  virtual int open(const std::string &p, int fl) = 0;
  virtual int close(int fd) = 0;
  virtual ssize_t read(int fd, char *b, size_t n) = 0;
  virtual ssize_t write(int fd, const char *b, size_t n) = 0;
  virtual off_t lseek(int fd, off_t o, int wh) = 0;
  virtual int ftruncate(int fd, off_t l) = 0;
  virtual int fstat(int fd, struct stat *st) = 0;
  virtual int stat(const std::string &p, struct stat *st) = 0;
  virtual int link(const std::string &a, const std::string &b) = 0;
  virtual int unlink(const std::string &a) = 0;
  virtual int rename(const std::string &a, const std::string &b) = 0;
  virtual int mkdir(const std::string &a) = 0;
  virtual int flock(int fd, int op) = 0;
  virtual int utimes(const std::string &a, time_t t) = 0;
  virtual int pipe(int fds[2]) = 0;
  virtual int setnb(int fd) = 0;
  virtual int sel(int fd, bool wr) = 0;          // select with zero timeout: 1 ready, 0 not
  virtual int fsync(int fd) = 0;
  virtual std::string ls(const std::string &d) = 0;
};

struct HostSys : Sys {
  std::string root;
  std::string P(const std::string &p) { return root + "/" + p; }
  int open(const std::string &p, int fl) override { return ::open(P(p).c_str(), fl, 0644); }
  int close(int fd) override { return ::close(fd); }
  ssize_t read(int fd, char *b, size_t n) override { return ::read(fd, b, n); }
  ssize_t write(int fd, const char *b, size_t n) override { return ::write(fd, b, n); }
  off_t lseek(int fd, off_t o, int wh) override { return ::lseek(fd, o, wh); }
  int ftruncate(int fd, off_t l) override { return ::ftruncate(fd, l); }
  int fstat(int fd, struct stat *st) override { return ::fstat(fd, st); }
  int stat(const std::string &p, struct stat *st) override { return ::stat(P(p).c_str(), st); }
  int link(const std::string &a, const std::string &b) override { return ::link(P(a).c_str(), P(b).c_str()); }
  int unlink(const std::string &a) override { return ::unlink(P(a).c_str()); }
  int rename(const std::string &a, const std::string &b) override { return ::rename(P(a).c_str(), P(b).c_str()); }
  int mkdir(const std::string &a) override { return ::mkdir(P(a).c_str(), 0755); }
  int flock(int fd, int op) override { return ::flock(fd, op); }
  int utimes(const std::string &a, time_t t) override { struct timeval tv[2] = {{t, 0}, {t, 0}}; return ::utimes(P(a).c_str(), tv); }
  int pipe(int fds[2]) override { return ::pipe(fds); }
  int setnb(int fd) override { int fl = ::fcntl(fd, F_GETFL); if (fl < 0) return -1; return ::fcntl(fd, F_SETFL, fl | O_NONBLOCK); }
  int sel(int fd, bool wr) override { if (fd < 0) { errno = EBADF; return -1; } fd_set s; FD_ZERO(&s); FD_SET(fd, &s); struct timeval tv = {0, 0}; return ::select(fd + 1, wr ? nullptr : &s, wr ? &s : nullptr, nullptr, &tv); }
  int fsync(int fd) override { return ::fsync(fd); }
  std::string ls(const std::string &d) override { std::vector<std::string> v; DIR *dd = ::opendir(P(d).c_str()); if (!dd) return "E" + std::to_string(errno); while (struct dirent *e = ::readdir(dd)) v.push_back(e->d_name); ::closedir(dd); std::sort(v.begin(), v.end()); std::string o; for (auto &x : v) o += x + ","; return o; }
};

struct SimSys : Sys {
  Kernel *k;
  int open(const std::string &p, int fl) override { return k->sys_open(p.c_str(), fl, 0644); }
  int close(int fd) override { return k->sys_close(fd); }
  ssize_t read(int fd, char *b, size_t n) override { return k->sys_read(fd, b, n); }
  ssize_t write(int fd, const char *b, size_t n) override { return k->sys_write(fd, b, n); }
  off_t lseek(int fd, off_t o, int wh) override { return k->sys_lseek(fd, o, wh); }
  int ftruncate(int fd, off_t l) override { return k->sys_ftruncate(fd, l); }
  int fstat(int fd, struct stat *st) override { return k->sys_fstat(fd, st); }
  int stat(const std::string &p, struct stat *st) override { return k->sys_stat(p.c_str(), st); }
  int link(const std::string &a, const std::string &b) override { return k->sys_link(a.c_str(), b.c_str()); }
  int unlink(const std::string &a) override { return k->sys_unlink(a.c_str()); }
  int rename(const std::string &a, const std::string &b) override { return k->sys_rename(a.c_str(), b.c_str()); }
  int mkdir(const std::string &a) override { return k->sys_mkdir(a.c_str(), 0755); }
  int flock(int fd, int op) override { return k->sys_flock(fd, op); }
  int utimes(const std::string &a, time_t t) override { struct timeval tv[2] = {{t, 0}, {t, 0}}; return k->sys_utimes(a.c_str(), tv); }
  int pipe(int fds[2]) override { return k->sys_pipe(fds); }
  int setnb(int fd) override { int fl = k->sys_fcntl(fd, F_GETFL, 0); if (fl < 0) return -1; return k->sys_fcntl(fd, F_SETFL, fl | O_NONBLOCK); }
  int sel(int fd, bool wr) override { if (fd < 0) { errno = EBADF; return -1; } fd_set s; FD_ZERO(&s); FD_SET(fd, &s); struct timeval tv = {0, 0}; return k->sys_select(fd + 1, wr ? nullptr : &s, wr ? &s : nullptr, nullptr, &tv); }
  int fsync(int fd) override { return k->sys_fsync(fd); }
  std::string ls(const std::string &d) override { std::vector<std::string> v; DirHandle *dd = k->sys_opendir(d.c_str()); if (!dd) return "E" + std::to_string(errno); while (struct dirent *e = k->sys_readdir(dd)) v.push_back(e->d_name); k->sys_closedir(dd); std::sort(v.begin(), v.end()); std::string o; for (auto &x : v) o += x + ","; return o; }
};

struct Step { int op; int a, b; int64_t n; std::string s1, s2; };

static const char *kNames[] = {"a", "b", "c", "d", "d/x", "d/y", "f", "a/", "d/", "nope/x", "a/x", ".", "d/..", "d/../b"};
static const int kFlags[] = {O_RDONLY, O_WRONLY, O_RDWR, O_WRONLY | O_CREAT, O_WRONLY | O_CREAT | O_EXCL, O_WRONLY | O_CREAT | O_TRUNC, O_WRONLY | O_CREAT | O_APPEND, O_RDONLY | O_NONBLOCK, O_WRONLY | O_NONBLOCK, O_RDWR | O_CREAT | O_EXCL, O_RDWR | O_NONBLOCK};
enum { OP_OPEN, OP_CLOSE, OP_WRITE, OP_READ, OP_LSEEK, OP_FTRUNC, OP_FSTAT, OP_STAT, OP_LINK, OP_UNLINK, OP_RENAME, OP_MKDIR, OP_FLOCK, OP_UTIMES, OP_PIPE, OP_SEL, OP_LS, OP_FSYNC, OP_N };
static const char *kOpNames[] = {"open", "close", "write", "read", "lseek", "ftruncate", "fstat", "stat", "link", "unlink", "rename", "mkdir", "flock", "utimes", "pipe", "select", "readdir", "fsync"};

static std::string errs(int r) { return r < 0 ? "-1/" + std::to_string(errno) : std::to_string(r); }
static std::string st_str(int r, const struct stat &st) {
  if (r < 0) return "-1/" + std::to_string(errno);
  std::string t = S_ISREG(st.st_mode) ? "reg" : S_ISDIR(st.st_mode) ? "dir" : S_ISFIFO(st.st_mode) ? "fifo" : "other";
  std::string o = t;
  if (S_ISREG(st.st_mode)) o += " size=" + std::to_string((long long)st.st_size) + " nlink=" + std::to_string((long)st.st_nlink) + " mode=" + std::to_string((int)(st.st_mode & 0777));
  return o;
}

// one run of the step list against one kernel; returns one result string per step
static std::vector<std::string> run_steps(Sys &S, const std::vector<Step> &steps) {
  std::vector<std::string> out; int slot[6] = {-1, -1, -1, -1, -1, -1};
  for (auto &s : steps) {
    std::string r; errno = 0;
    switch (s.op) {
      case OP_OPEN: { if (slot[s.a] >= 0) { S.close(slot[s.a]); slot[s.a] = -1; } int fd = S.open(s.s1, kFlags[s.b]); r = fd < 0 ? "-1/" + std::to_string(errno) : "fd"; slot[s.a] = fd < 0 ? -1 : fd; break; }
      case OP_CLOSE: { r = errs(S.close(slot[s.a])); slot[s.a] = -1; break; }
      case OP_WRITE: { ssize_t w = S.write(slot[s.a], s.s1.data(), s.s1.size()); r = errs((int)w); break; }
      case OP_READ: { char b[64]; ssize_t n = S.read(slot[s.a], b, (size_t)s.n); r = n < 0 ? "-1/" + std::to_string(errno) : std::to_string(n) + ":" + std::string(b, (size_t)n); break; }
      case OP_LSEEK: { { struct stat st; if (S.fstat(slot[s.a], &st) == 0 && S_ISDIR(st.st_mode)) { r = "unspecified (directory offset)"; break; } errno = 0; }
        off_t o = S.lseek(slot[s.a], (off_t)s.n, s.b); r = o < 0 ? "-1/" + std::to_string(errno) : std::to_string((long long)o); break; }
      case OP_FTRUNC: r = errs(S.ftruncate(slot[s.a], (off_t)s.n)); break;
      case OP_FSTAT: { struct stat st; memset(&st, 0, sizeof st); int q = S.fstat(slot[s.a], &st); r = st_str(q, st); break; }
      case OP_STAT: { struct stat st; memset(&st, 0, sizeof st); int q = S.stat(s.s1, &st); r = st_str(q, st); if (q == 0 && s.b) r += " mtime=" + std::to_string((long long)st.st_mtime); break; }
      case OP_LINK: r = errs(S.link(s.s1, s.s2)); break;
      case OP_UNLINK: r = errs(S.unlink(s.s1)); break;
      case OP_RENAME: r = errs(S.rename(s.s1, s.s2)); break;
      case OP_MKDIR: r = errs(S.mkdir(s.s1)); break;
      case OP_FLOCK: { { struct stat st; if (S.fstat(slot[s.a], &st) == 0 && !S_ISREG(st.st_mode)) { r = "unspecified (lock on a non-regular file)"; break; } errno = 0; }
        r = errs(S.flock(slot[s.a], s.b)); break; }
      case OP_UTIMES: r = errs(S.utimes(s.s1, (time_t)s.n)); break;
      case OP_PIPE: { for (int q : {s.a, s.b}) if (slot[q] >= 0) { S.close(slot[q]); slot[q] = -1; } int fds[2]; int q = S.pipe(fds); r = errs(q); if (q == 0) { slot[s.a] = fds[0]; slot[s.b] = fds[1]; S.setnb(fds[0]); S.setnb(fds[1]); } break; }
      case OP_SEL: r = errs(S.sel(slot[s.a], s.b != 0)); break;
      case OP_LS: r = S.ls(s.s1); break;
      case OP_FSYNC: r = errs(S.fsync(slot[s.a])); break;
    }
    out.push_back(r);
  }
  for (int q = 0; q < 6; q++) if (slot[q] >= 0) S.close(slot[q]);
  return out;
}

}  // namespace

struct WorldK : World {
  std::vector<Step> steps;
  void setup() override {
    k->mkdir_p("/t", 0755, 0, 0); k->mkdir_p("/t/d", 0755, 0, 0); k->put_fifo("/t/f", 0644, 0, 0);
    Rng r(plan->seed ^ 0x5e1f);
    int n = (int)plan->knobs.geti("steps", 40);
    auto name = [&]() { return std::string(kNames[r.below(sizeof kNames / sizeof *kNames)]); };
    bool maybe_open[6] = {false, false, false, false, false, false};
    if (plan->knobs.gets("script") == "fifo") {
      // the trigger protocol of the queue: a reader re-arming by close and reopen, writers coming and going, the byte left unread
      auto st = [&](int op, int a, int b, int64_t nn, const std::string &s1) { Step s; s.op = op; s.a = a; s.b = b; s.n = nn; s.s1 = s1; steps.push_back(s); };
      int rounds = (int)r.range(2, 5);
      for (int q = 0; q < rounds; q++) {
        st(OP_OPEN, 0, 7, 0, "f"); st(OP_SEL, 0, 0, 0, "");
        int writers = (int)r.range(0, 3);
        for (int w = 0; w < writers; w++) { st(OP_OPEN, 1 + w, 8, 0, "f"); if (r.chance(0.8)) st(OP_WRITE, 1 + w, 0, 0, "x"); st(OP_SEL, 0, 0, 0, ""); if (r.chance(0.5)) st(OP_CLOSE, 1 + w, 0, 0, ""); st(OP_SEL, 0, 0, 0, ""); }
        if (r.chance(0.5)) { st(OP_READ, 0, 0, (int64_t)r.range(1, 4), ""); st(OP_SEL, 0, 0, 0, ""); st(OP_READ, 0, 0, 2, ""); }
        if (r.chance(0.5)) { st(OP_OPEN, 4, 7, 0, "f"); st(OP_SEL, 4, 0, 0, ""); st(OP_READ, 4, 0, 3, ""); }
        st(OP_CLOSE, 0, 0, 0, ""); for (int w = 0; w < 3; w++) if (r.chance(0.6)) st(OP_CLOSE, 1 + w, 0, 0, "");
        st(OP_OPEN, 5, 8, 0, "f"); st(OP_CLOSE, 5, 0, 0, "");
      }
      n = 0;
    }
    for (int i = 0; i < n; i++) {
      Step s; s.op = (int)r.below(OP_N); s.a = (int)r.below(6); s.b = 0; s.n = 0;
      // most descriptor operations go to a slot that may hold something
      if (r.chance(0.8)) { std::vector<int> op; for (int q = 0; q < 6; q++) if (maybe_open[q]) op.push_back(q); if (!op.empty()) s.a = op[r.below(op.size())]; }
      // bias towards open/write/read so that the other calls meet populated state
      if (r.chance(0.3)) s.op = r.pick(std::vector<int>{OP_OPEN, OP_OPEN, OP_WRITE, OP_READ, OP_CLOSE});
      switch (s.op) {
        case OP_OPEN: s.s1 = name(); s.b = (int)r.below(sizeof kFlags / sizeof *kFlags);
          // a blocking open of the FIFO would hang the host run; a directory cannot be created by open
          if (s.s1 == "f" && (!(kFlags[s.b] & O_NONBLOCK) || (kFlags[s.b] & O_ACCMODE) == O_RDWR)) s.b = r.chance(0.5) ? 7 : 8;   // (O_RDWR on a FIFO is unspecified by POSIX and unused by notqmail)
          break;
        case OP_WRITE: { size_t l = (size_t)r.range(0, 20); for (size_t q = 0; q < l; q++) s.s1 += (char)('a' + r.below(26)); break; }
        case OP_READ: s.n = (int64_t)r.range(0, 40); break;
        case OP_LSEEK: s.n = (int64_t)r.range(-5, 30); s.b = r.pick(std::vector<int>{SEEK_SET, SEEK_CUR, SEEK_END}); break;
        case OP_FTRUNC: s.n = (int64_t)r.range(0, 30); break;
        case OP_STAT: s.s1 = name(); s.b = 0; break;
        case OP_LINK: case OP_RENAME: {
          // names without trailing slashes or dot components: which of several applicable errors a kernel reports for those
          // (and for renames onto an ancestor directory) is not something notqmail can depend on
          static const std::vector<std::string> fn = {"a", "b", "c", "d/x", "d/y", "nope/x", "a/x", "e"};
          s.s1 = r.pick(fn); s.s2 = r.pick(fn);
          if (s.op == OP_RENAME && r.chance(0.1)) { s.s1 = "d"; s.s2 = r.pick(std::vector<std::string>{"g", "e", "d"}); }
          break; }
        case OP_UNLINK: s.s1 = name(); if (s.s1 == "f") s.s1 = "c"; break;
        case OP_MKDIR: s.s1 = r.pick(std::vector<std::string>{"d", "e", "a", "d/x", "nope/x", "e/"}); break;
        case OP_FLOCK: s.b = r.pick(std::vector<int>{LOCK_EX | LOCK_NB, LOCK_EX | LOCK_NB, LOCK_UN}); /* notqmail only takes exclusive locks; shared locks are not modelled */ break;
        case OP_UTIMES: s.s1 = name(); s.n = (int64_t)r.range(1000000, 2000000000); if (s.s1 == "f") s.s1 = "a"; break;
        case OP_PIPE: s.b = (s.a + 1 + (int)r.below(5)) % 6; break;
        case OP_SEL: s.b = (int)r.below(2); break;
        case OP_LS: s.s1 = r.pick(std::vector<std::string>{".", "d", "a", "nope"}); break;
        default: break;
      }
      if (s.op == OP_OPEN) maybe_open[s.a] = true; if (s.op == OP_PIPE) maybe_open[s.a] = maybe_open[s.b] = true; if (s.op == OP_CLOSE && r.chance(0.9)) maybe_open[s.a] = false;
      steps.push_back(s);
      if (s.op == OP_UTIMES) { Step t; t.op = OP_STAT; t.a = 0; t.b = 1; t.n = 0; t.s1 = s.s1; steps.push_back(t); }
    }
  }
  static std::string describe(const Step &s) {
    std::string d = kOpNames[s.op]; d += "(";
    switch (s.op) { case OP_OPEN: d += "slot" + std::to_string(s.a) + ", \"" + s.s1 + "\", flags " + std::to_string(kFlags[s.b]); break; case OP_LINK: case OP_RENAME: d += "\"" + s.s1 + "\", \"" + s.s2 + "\""; break;
      case OP_STAT: case OP_UNLINK: case OP_MKDIR: case OP_LS: case OP_UTIMES: d += "\"" + s.s1 + "\""; break; case OP_WRITE: d += "slot" + std::to_string(s.a) + ", " + std::to_string(s.s1.size()) + " bytes"; break;
      case OP_PIPE: d += "slot" + std::to_string(s.a) + ", slot" + std::to_string(s.b); break; default: d += "slot" + std::to_string(s.a) + ", " + std::to_string(s.b) + ", " + std::to_string((long long)s.n); }
    return d + ")";
  }
  void driver() override {
    k->cp()->sig[SIGPIPE].handler = SIG_IGN; k->sys_chdir("/t"); k->sys_umask(022);
    SimSys sim; sim.k = k;
    std::vector<std::string> a = run_steps(sim, steps);
    // the same on the host, in a scratch directory (nothing outside it is touched)
    HostSys host; char tmpl[] = "/var/tmp/simq-kself.XXXXXX"; if (!mkdtemp(tmpl)) { res->note = "mkdtemp failed"; k->stop = true; return; }
    host.root = tmpl; ::mkdir((host.root + "/d").c_str(), 0755); ::mkfifo((host.root + "/f").c_str(), 0644);
    struct sigaction ign, old; memset(&ign, 0, sizeof ign); ign.sa_handler = SIG_IGN; ::sigaction(SIGPIPE, &ign, &old); mode_t um = ::umask(022);
    std::vector<std::string> b = run_steps(host, steps);
    ::umask(um); ::sigaction(SIGPIPE, &old, nullptr);
    std::string rm = "rm -rf '" + host.root + "'"; if (system(rm.c_str())) {}
    res->nontrivial = true; k->probe("kself_steps", steps.size());
    for (size_t i = 0; i < a.size() && i < b.size(); i++) if (a[i] != b[i]) {
      std::string hist; for (size_t q = 0; q < i; q++) hist += describe(steps[q]) + "=" + b[q] + "; ";
      violate("KSELF.mismatch", "step " + std::to_string(i + 1) + " " + describe(steps[i]) + ": simos gives " + a[i] + ", the host kernel gives " + b[i] + "; before: " + hist); break;
    }
    Hash64 h; for (auto &x : a) h.str(x); res->state_hash = h.get();
    k->stop = true;
  }
};

World *make_world_k() { return new WorldK; }

}  // namespace sim

#include "common.h"
namespace sim {
void QmailTree::build(Kernel *k, const Json &conf) {
  split = (int)conf.geti("split", 23);
  home = conf.gets("qmail", "/var/qmail");
  const Json &us = conf["users"];
  const char *keys[8] = {"alias", "qmaild", "qmaill", "root", "qmailp", "qmailq", "qmailr", "qmails"};
  for (int i = 0; i < 8; i++) {
    std::string name = us.a.size() > (size_t)i ? us.a[i].str() : keys[i];
    uint32_t uid = std::string(keys[i]) == "root" ? 0 : 7790 + (uint32_t)i;
    uids[keys[i]] = uid;
    k->passwd.push_back(PwEnt{name, uid, (uint32_t)(i == 3 ? 0 : (i == 0 || i == 1 || i == 2 || i == 4 ? gid_nofiles : gid_qmail)), i == 0 ? home + "/alias" : home, "/bin/sh"});
  }
  k->group.push_back(GrEnt{conf["groups"].a.size() > 0 ? conf["groups"].a[0].str() : "qmail", gid_qmail});
  k->group.push_back(GrEnt{conf["groups"].a.size() > 1 ? conf["groups"].a[1].str() : "nofiles", gid_nofiles});
  uint32_t uq = uids["qmailq"], us_ = uids["qmails"], ur = uids["qmailr"];
  k->mkdir_p(home, 0755, 0, gid_qmail);
  k->mkdir_p(home + "/bin"); k->mkdir_p(home + "/control"); k->mkdir_p(home + "/alias", 02755, uids["alias"], gid_qmail);
  k->mkdir_p(home + "/users");
  std::string q = home + "/queue";
  k->mkdir_p(q, 0750, uq, gid_qmail);
  for (const char *d : {"pid", "intd", "todo", "bounce", "lock"}) k->mkdir_p(q + "/" + d, 0700, uq, gid_qmail);
  for (const char *d : {"mess", "info", "local", "remote"}) { k->mkdir_p(q + "/" + d, 0750, uq, gid_qmail); for (int i = 0; i < split; i++) k->mkdir_p(q + "/" + d + "/" + std::to_string(i), 0700, uq, gid_qmail); }
  k->put_file(q + "/lock/sendmutex", "", 0600, us_, gid_qmail);
  k->put_file(q + "/lock/tcpto", std::string(1024, '\0'), 0644, ur, gid_qmail);
  k->put_fifo(q + "/lock/trigger", 0622, us_, gid_qmail);
  k->put_file(home + "/control/me", "sim.example\n");
}
void QmailTree::restyle_control(Kernel *k, const std::string &path, int style) {
  Inode *f = k->lookup(path); if (!f || f->type != T_REG || f->data.empty() || style == 0) return;
  std::string d = f->data;
  if (d.find('\0') != std::string::npos) return;   // not a line list
  // single-value files (first line counts) only get trailing blanks or lose their newline; line lists get the full treatment
  { std::string base = path.substr(path.rfind('/') + 1); static const char *lists[] = {"rcpthosts", "morercpthosts", "badmailfrom", "locals", "virtualdomains", "percenthack", "smtproutes"}; bool is_list = false; for (auto *l : lists) if (base == l) is_list = true;
    if (!is_list && style == 2) { if (d.back() == '\n') d.pop_back(); d += " \t\n"; f->data = d; f->synced = d; f->unsynced.clear(); return; } }
  if (style == 2) { std::string o = "# a comment line\n\n"; size_t i = 0; int n = 0; while (i < d.size()) { size_t e = d.find('\n', i); if (e == std::string::npos) e = d.size(); o += d.substr(i, e - i) + ((n++ % 2) ? " \t" : "  ") + "\n"; i = e + 1; } o += "\n"; d = o; }
  if (style == 1 && d.back() == '\n') d.pop_back();
  f->data = d; f->synced = d; f->unsynced.clear();
}
void QmailTree::restyle_all_controls(Kernel *k, int style) {
  if (!style) return;
  for (auto &nm : k->listdir(home + "/control")) { if (nm == "me" || nm.find(".cdb") != std::string::npos) continue; restyle_control(k, home + "/control/" + nm, style); }
}
}  // namespace sim

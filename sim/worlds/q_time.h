// q_time.h - timing ghosts for world Q: C15 (retry schedule) and C16 (trigger latency, select timeouts)
#pragma once
#include "q.h"
namespace sim {
struct TimeGhost {
  WorldQ *w;
  explicit TimeGhost(WorldQ *w_) : w(w_) {}
  virtual ~TimeGhost() {}
  virtual void on_event(const Event &) {}
  virtual void on_published(GMsg *) {}
  virtual void on_preprocessed(GMsg *) {}
  virtual void on_command(const SpawnCmd &) {}
  virtual void on_report(GMsg *, GRcpt &) {}
  virtual void on_finished(GMsg *) {}
  virtual void on_crash() {}
  virtual void finish() {}
};
TimeGhost *make_time_ghost(WorldQ *w);
}  // namespace sim

// common.h - the simulated /var/qmail tree, users and groups shared by all worlds
#pragma once
#include "../world.h"
namespace sim {
struct QmailTree {
  std::string home = "/var/qmail";
  int split = 23;
  std::map<std::string, uint32_t> uids;     // alias qmaild qmaill root qmailp qmailq qmailr qmails
  uint32_t gid_qmail = 2107, gid_nofiles = 2108;
  void build(Kernel *k, const Json &conf);   // users, groups, directories, lock files, trigger
  // the same configuration in another spelling: style 1 = no newline after the last line, style 2 = a comment line first, blank
  // lines and trailing blanks (control files are line lists; control_readfile(3) ignores all of that)
  static void restyle_control(Kernel *k, const std::string &path, int style);
  void restyle_all_controls(Kernel *k, int style);
  std::string qp(const std::string &dir, uint64_t n, bool splitdir) const {
    std::string s = home + "/queue/" + dir + "/"; if (splitdir) s += std::to_string(n % (uint64_t)split) + "/"; return s + std::to_string(n);
  }
};
}  // namespace sim

// common.h - the simulated /var/qmail tree, users and groups shared by all worlds
#pragma once
#include "../world.h"
namespace sim {
struct QmailTree {
  std::string home = "/var/qmail";
  int split = 23;
  std::map<std::string, uint32_t> uids;     // alias qmaild qmaill root qmailp qmailq qmailr qmails
  uint32_t gid_qmail = 2107, gid_nofiles = 2108;
  void build(Kernel *k, const Json &conf);   // users, groups, directories, lock files, trigger
  std::string qp(const std::string &dir, uint64_t n, bool splitdir) const {
    std::string s = home + "/queue/" + dir + "/"; if (splitdir) s += std::to_string(n % (uint64_t)split) + "/"; return s + std::to_string(n);
  }
};
}  // namespace sim

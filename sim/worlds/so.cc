// so.cc - world SO: real qmail-remote over a simulated TCP connection to a scripted SMTP server (C06, C09) or to the
// real qmail-smtpd + qmail-queue (relay mode: C06 byte identity, C17 envelope round trip). Resolver answers are built
// as wire-format packets so that dns.c parses them for real.
#include "common.h"
#include "../net.h"
#include <errno.h>
#include <fcntl.h>
#include <string.h>
#include <signal.h>
#include <arpa/nameser.h>
#include <netdb.h>
#include <algorithm>

namespace sim {

struct Reply { int code = 250; std::string form = "single"; std::string act = "reply"; int64_t stall = 0; std::string text; /* non-empty: a line that is no SMTP reply at all */ };
static Reply reply_from(const Json &j, int dflt) { Reply r; r.code = (int)j.geti("code", dflt); r.form = j.gets("form", "single"); r.act = j.gets("act", "reply"); r.stall = j.geti("stall", 0); r.text = j.gets("text"); if (!r.text.empty()) r.code = 999; return r; }
static std::string render(const Reply &r) {
  if (!r.text.empty()) return r.text + "\r\n";
  std::string c = std::to_string(r.code); while (c.size() < 3) c = "0" + c;
  if (r.form.compare(0, 5, "burst") == 0) { std::string b = c + " busy\r\n220 hi\r\n250 ok\r\n250 ok\r\n"; for (int q = atoi(r.form.c_str() + 5); q > 0; q--) b += "250 ok\r\n"; return b + "354 go\r\n250 done\r\n"; }   // a host that answers before it is asked: one packet with a whole session's worth of replies
  if (r.form == "multi") return c + "-first line\r\n" + c + "-second\r\n" + c + " last\r\n";
  if (r.form == "long") return c + " " + std::string(6000, 't') + "\r\n";
  if (r.form == "bin") return c + " \xff\xfe" + std::string(1, '\0') + "bin\r\n";
  if (r.form == "lf") return c + " lf only\n";
  if (r.form == "nonnum") return "abc hello\r\n";
  if (r.form == "short") return "2";
  if (r.form == "empty") return "\r\n";
  if (r.form == "huge") return c + " " + std::string(200000, 'h') + "\r\n";
  if (r.form == "manylines") { std::string s; for (int i = 0; i < 3000; i++) s += c + "-l\r\n"; return s + c + " end\r\n"; }
  if (r.form == "dashonly") return c + "-\r\n";
  return c + " ok\r\n";
}

// reference RFC 5321 sender: lines end at LF (CRLF and bare CR both count as line breaks, as the unit tests fix), CRLF on the wire, leading dots doubled
static bool ref_lines(const std::string &msg, std::vector<std::string> &lines) {
  std::string cur; size_t i = 0;
  while (i < msg.size()) { char c = msg[i++]; if (c == '\n') { lines.push_back(cur); cur.clear(); } else if (c == '\r') { if (i < msg.size() && msg[i] == '\n') { i++; } lines.push_back(cur); cur.clear(); } else cur += c; }
  if (!cur.empty()) { lines.push_back(cur); return false; }   // partial final line
  return !(msg.empty() ? false : (msg.back() != '\n' && msg.back() != '\r' ? true : false));
}
// reference receiver over the payload (without the final ".CRLF"): CRLF ends a line, one leading dot is removed
static bool ref_receive(const std::string &p, std::vector<std::string> &lines, std::string &why) {
  size_t i = 0; std::string cur;
  while (i < p.size()) { char c = p[i]; if (c == '\n') { why = "bare LF at offset " + std::to_string(i); return false; } if (c == '\r' && i + 1 < p.size() && p[i + 1] == '\n') { if (!cur.empty() && cur[0] == '.') cur.erase(0, 1); lines.push_back(cur); cur.clear(); i += 2; continue; } cur += c; i++; }
  if (!cur.empty()) { why = "payload does not end with CRLF"; return false; }
  return true;
}

struct WorldSO : World, Net {
  QmailTree t;
  bool c06 = true, c09 = true, c17 = true;
  std::string msg; std::string host, sender; std::vector<std::string> rcpts;
  Sink *rout = nullptr, *errs = nullptr;
  int remote_pid = 0, remote_status = -1; bool remote_done = false;
  // network script
  struct HostAct { std::string kind = "accept"; int64_t delay = 0; bool immediate = false; bool has_greeting = false; Reply greeting; };
  struct ConnRec { uint32_t ip = 0; size_t rcpt_ok = 0; bool dot_ok = false; }; std::vector<ConnRec> conns;   // ground truth per connection: what this server instance itself said yes to
  bool earlier_phase = false;
  std::map<uint32_t, HostAct> hosts; bool relay = false;
  Reply greeting, helo, mail, data, dot; std::vector<Reply> rcpt_r;
  std::string wire;                  // everything the client sent on the accepted connection
  std::vector<std::string> commands; // command lines seen (outside DATA)
  std::string payload; bool saw_data = false, data_done = false; std::vector<std::string> after_data;
  int accepted = 0; std::vector<uint32_t> connect_order;
  // relay mode results (real smtpd + queue)
  struct Q { std::string sender; std::vector<std::string> rcpts; std::string body; }; std::vector<Q> queued;
  // zone
  struct Zone { std::map<std::string, std::vector<std::pair<int, std::string>>> mx; std::map<std::string, std::vector<uint32_t>> a; std::map<std::string, std::string> fail; int mixed = 0; } zone;

  std::map<std::string, int> query_count;
  // ---- resolver: wire-format answers
  static void put_name(std::string &p, const std::string &n) { size_t i = 0; while (i < n.size()) { size_t d = n.find('.', i); if (d == std::string::npos) d = n.size(); if (d > i) { p.push_back((char)(d - i)); p.append(n, i, d - i); } i = d + 1; } p.push_back('\0'); }
  int on_query(const std::string &name0, int type, std::string &pkt, int &herr) override {
    std::string name = name0; for (auto &c : name) c = (char)tolower((unsigned char)c); while (!name.empty() && name.back() == '.') name.pop_back();
    auto f = zone.fail.find(name);
    if (f != zone.fail.end()) { if (f->second == "soft") { k->note_fault("dns_soft"); herr = TRY_AGAIN; return -1; } if (f->second == "hard") { k->note_fault("dns_hard"); herr = HOST_NOT_FOUND; return -1; } }
    if (f != zone.fail.end() && f->second.compare(0, 8, "garbled:") == 0) {
      // hostile resolver: cut records, compression loops, absurd counts, oversized packets
      k->note_fault("dns_garbled"); std::string kind = f->second.substr(8);
      std::string g(12, '\0'); g[2] = (char)0x81; g[3] = (char)0x80; g[5] = 1; g[7] = 3;
      std::string q; put_name(q, name); q.push_back((char)(type >> 8)); q.push_back((char)type); q.push_back(0); q.push_back(1);
      if (kind == "loop") { g += q; g += std::string("\xc0\x0c", 2); g.push_back((char)(type >> 8)); g.push_back((char)type); g += std::string("\0\1\0\0\0\0\0\4", 8); g += std::string("\xc0", 1) + std::string(1, (char)(g.size() + 1)) ; g += std::string("\xc0", 1) + std::string(1, (char)(g.size() - 1)); }
      else if (kind == "cut") { g += q; std::string rr2; put_name(rr2, name); rr2.push_back((char)(type >> 8)); rr2.push_back((char)type); rr2 += std::string("\0\1\0\0\0\0\0\x40", 8); rr2 += "xx"; g += rr2.substr(0, rr2.size() / 2 + (size_t)(k->clock % 7)); }
      else if (kind == "counts") { g[4] = (char)0xff; g[5] = (char)0xff; g[6] = (char)0xff; g[7] = (char)0xff; g += q; }
      else if (kind == "big") { g += q; for (int z = 0; z < 200; z++) { put_name(g, name); g.push_back((char)(type >> 8)); g.push_back((char)type); g += std::string("\0\1\0\0\0\0\0\4", 8); g += std::string("\x0a\x01\x01", 3); g.push_back((char)z); } g[6] = 0; g[7] = (char)200; }
      else if (kind == "grow" || kind == "shrink") {   // an oversized answer whose size changes between the first query and the retry that follows it at once
        int nth = ++query_count[name + "/" + std::to_string(type)]; int cnt = (kind == "grow") == (nth == 1) ? 40 : 150;
        g += q; for (int z = 0; z < cnt; z++) { g += std::string("\xc0\x0c", 2); g.push_back((char)(type >> 8)); g.push_back((char)type); g += std::string("\0\1\0\0\0\0", 6);
          if (type == T_MX) { std::string rd; rd.push_back(0); rd.push_back((char)(z + 1)); put_name(rd, "mx" + std::to_string(z) + ".r.example"); g.push_back((char)(rd.size() >> 8)); g.push_back((char)rd.size()); g += rd; }
          else { g += std::string("\0\4", 2); g += std::string("\x0a\x01\x01", 3); g.push_back((char)z); } }
        g[6] = (char)(cnt >> 8); g[7] = (char)cnt; }
      else if (kind == "rdlen") { g += q; put_name(g, name); g.push_back((char)(type >> 8)); g.push_back((char)type); g += std::string("\0\1\0\0\0\0\xff\xff", 8); g += "abcd"; g[7] = 1; }
      else if (kind == "trunc") { g[2] = (char)0x83; g += q; }
      else if (kind == "edge") {   // a packet that ends inside the fixed part of its last record, right at the end of the 512-byte answer buffer
        g += q; int cnt = 0; auto rec = [&](size_t rdlen) { std::string x = std::string("\xc0\x0c", 2); x.push_back((char)(type >> 8)); x.push_back((char)type); x += std::string("\0\1\0\0\0\0", 6); x.push_back((char)(rdlen >> 8)); x.push_back((char)rdlen); x += std::string(rdlen, '\x0a'); return x; };
        size_t target = 502; size_t pad = (target - g.size()) % 16; g += rec(4 + pad); cnt++;
        while (g.size() + 16 <= target) { g += rec(4); cnt++; }
        std::string last = rec(4); size_t keep = 2 + (size_t)(k->clock % 9); g += last.substr(0, keep); cnt++;
        g[6] = (char)(cnt >> 8); g[7] = (char)cnt; }
      else { g += std::string(40, '\xc0'); }
      pkt = g; return 0;
    }
    std::string ans; int n = 0;
    // zone.mixed: records of other types among the wanted ones in the answer section (a CNAME in front of the addresses it leads to, a
    // signature record, a text record) - legal, and to be skipped by their stated length. 1 = before each wanted record, 2 = after, 3 = both
    auto foreign = [&](int which) { std::string rd; int ty; if (which % 3 == 0) { ty = 5; put_name(rd, "alias.r.example"); } else if (which % 3 == 1) { ty = 16; rd = std::string("\x0bhello world", 12); } else { ty = 46; rd = std::string(27, '\x5a'); }
      put_name(ans, name); ans.push_back((char)(ty >> 8)); ans.push_back((char)ty); ans.push_back(0); ans.push_back(1); ans.append(4, '\0'); ans.push_back((char)(rd.size() >> 8)); ans.push_back((char)rd.size()); ans += rd; n++; };
    auto rr = [&](int ty, const std::string &rdata) { if (zone.mixed & 1) foreign(n); put_name(ans, name); ans.push_back((char)(ty >> 8)); ans.push_back((char)ty); ans.push_back(0); ans.push_back(1); ans.append(4, '\0'); ans.push_back((char)(rdata.size() >> 8)); ans.push_back((char)rdata.size()); ans += rdata; n++; if (zone.mixed & 2) foreign(n + 1); };
    if (type == T_MX) { auto it = zone.mx.find(name); if (it != zone.mx.end()) for (auto &m : it->second) { std::string rd; rd.push_back((char)(m.first >> 8)); rd.push_back((char)m.first); put_name(rd, m.second); rr(T_MX, rd); } }
    else if (type == T_A) { auto it = zone.a.find(name); if (it != zone.a.end()) for (auto ip : it->second) { std::string rd; rd.push_back((char)(ip >> 24)); rd.push_back((char)(ip >> 16)); rd.push_back((char)(ip >> 8)); rd.push_back((char)ip); rr(T_A, rd); } }
    bool known = zone.mx.count(name) || zone.a.count(name);
    if (!known) { herr = HOST_NOT_FOUND; return -1; }
    if (n == 0) { herr = NO_DATA; return -1; }
    pkt.assign(12, '\0'); pkt[2] = (char)0x81; pkt[3] = (char)0x80; pkt[5] = 1; pkt[6] = (char)(n >> 8); pkt[7] = (char)n;
    put_name(pkt, name); pkt.push_back((char)(type >> 8)); pkt.push_back((char)type); pkt.push_back(0); pkt.push_back(1);
    pkt += ans;
    return 0;
  }

  ConnectResult on_connect(OFile *, uint32_t ip, uint16_t port) override {
    ConnectResult r; connect_order.push_back(ip);
    auto it = hosts.find(ip);
    if (it == hosts.end() || port != 25) { r.kind = K_REFUSED; return r; }
    if (earlier_phase && plan->knobs.getb("earlier_all_timeout", false)) { r.kind = K_TIMEOUT; r.delay = 100000; return r; }   // the host was down then and is up now
    if (it->second.kind == "refuse") { r.kind = K_REFUSED; r.delay = it->second.delay; return r; }
    if (it->second.kind == "timeout") { r.kind = K_TIMEOUT; r.delay = 100000; return r; }
    r.kind = K_ACCEPT; r.delay = it->second.delay; r.immediate = it->second.immediate;
    Pipe *c2s = k->new_pipe("tcp c->s"), *s2c = k->new_pipe("tcp s->c"); c2s->cap = s2c->cap = 65536;
    r.rx = s2c; r.tx = c2s; accepted++;
    if (relay) {
      std::vector<std::string> env = {"TCPREMOTEIP=10.9.9.9", "TCPREMOTEHOST=sender.example", "TCPLOCALHOST=sim.example"};
      k->spawn(nullptr, t.home + "/bin/qmail-smtpd", {"qmail-smtpd"}, env, {{0, k->of_pipe_r(c2s)}, {1, k->of_pipe_w(s2c)}, {2, k->of_sink(errs)}}, t.uids["qmaild"], t.gid_nofiles, "/");
    } else {
      k->spawn_native(nullptr, "smtp-server", [this, ip](int, char **) { return server_main(ip); }, {{0, k->of_pipe_r(c2s)}, {1, k->of_pipe_w(s2c)}}, 1, 1, "/");
    }
    return r;
  }

  // scripted SMTP server with a strict reference receiver for the DATA phase
  int server_main(uint32_t ip) {
    size_t ci = conns.size(); { ConnRec c; c.ip = ip; conns.push_back(c); }
    Reply greeting = this->greeting; { auto hi = hosts.find(ip); if (hi != hosts.end() && hi->second.has_greeting) greeting = hi->second.greeting; }
    k->cp()->sig[SIGPIPE].handler = SIG_IGN;
    std::string buf; bool eof = false;
    auto fill = [&]() -> bool { char b[1024]; ssize_t n = k->sys_read(0, b, sizeof b); if (n <= 0) { eof = true; return false; } buf.append(b, (size_t)n); wire.append(b, (size_t)n); return true; };
    auto say = [&](const Reply &r) -> bool {
      if (r.act == "close") { return false; }
      if (r.act == "rst") { OFile *o = k->get_of(1); if (o && o->pipe) o->pipe->reset = true; OFile *i2 = k->get_of(0); if (i2 && i2->pipe) i2->pipe->reset = true; return false; }
      if (r.act == "stall") { k->block([] { return false; }, k->clock + r.stall, false); }
      std::string s = render(r);
      if (r.act == "dribble") { for (char c : s) { k->sys_write(1, &c, 1); k->block([] { return false; }, k->clock + 1, false); } return true; }
      size_t off = 0; while (off < s.size()) { ssize_t w = k->sys_write(1, s.data() + off, s.size() - off); if (w <= 0) return false; off += (size_t)w; }
      if (r.act == "reply_rst") {   // answer, then the connection breaks before anything more is read: the peer's next write fails
        { OFile *o1 = k->get_of(1); Pipe *op = o1 ? o1->pipe : nullptr; k->block([op] { return !op || op->avail() == 0; }, k->clock + 5, false); }
        OFile *i2 = k->get_of(0); if (i2 && i2->pipe) i2->pipe->reset = true; return false; }
      return true;
    };
    auto getline = [&](std::string &line) -> bool { for (;;) { size_t e = buf.find('\n'); if (e != std::string::npos) { line = buf.substr(0, e + 1); buf.erase(0, e + 1); return true; } if (!fill()) return false; } };
    if (!say(greeting)) return 0;
    size_t nrcpt = 0;
    for (;;) {
      std::string line; if (!getline(line)) break;
      commands.push_back(line);
      if (data_done) after_data.push_back(line);
      std::string u = line; for (auto &c : u) c = (char)toupper((unsigned char)c);
      if (u.compare(0, 4, "HELO") == 0) { if (!say(helo)) return 0; }
      else if (u.compare(0, 4, "MAIL") == 0) { if (!say(mail)) return 0; }
      else if (u.compare(0, 4, "RCPT") == 0) { Reply r = nrcpt < rcpt_r.size() ? rcpt_r[nrcpt] : Reply(); nrcpt++; if (!say(r)) return 0; if (r.text.empty() && r.code < 400) conns[ci].rcpt_ok++;   /* (qmail-remote takes everything below 400 for a yes) */ }
      else if (u.compare(0, 4, "DATA") == 0) {
        saw_data = true; if (!say(data)) return 0;
        if (data.code >= 400) continue;
        if (data.act == "noread") { k->probe("server_stops_reading"); k->block([] { return false; }, k->clock + data.stall, false); return 0; }   // says 354, then reads nothing more: the client's writes fill the connection and stop
        // read until the first CRLF.CRLF (or a payload that is just ".CRLF")
        for (;;) { size_t e = std::string::npos; if (buf.compare(0, 3, ".\r\n") == 0) e = 0; else { size_t f = buf.find("\r\n.\r\n"); if (f != std::string::npos) e = f + 2; }
          if (e != std::string::npos) { payload = buf.substr(0, e); buf.erase(0, e + 3); data_done = true; break; } if (!fill()) return 0; }
        if (!say(dot)) return 0;
        if (dot.text.empty() && dot.code < 400) conns[ci].dot_ok = true;
      }
      else if (u.compare(0, 4, "QUIT") == 0) { Reply q; q.code = 221; say(q); }
      else { Reply q; q.code = 502; say(q); }
    }
    return 0;
  }

  void setup() override {
    t.build(k, conf);
    if (plan->knobs.has("oracles")) { c06 = c09 = c17 = false; for (auto &o : plan->knobs["oracles"].a) { if (o.str() == "c06") c06 = true; if (o.str() == "c09") c09 = true; if (o.str() == "c17") c17 = true; } }
    errs = k->new_sink("stderr"); rout = k->new_sink("qmail-remote-out");
    k->put_exec(t.home + "/bin/qmail-remote", "qmail-remote", 0711);
    k->put_exec(t.home + "/bin/qmail-smtpd", "qmail-smtpd", 0755);
    k->put_exec(t.home + "/bin/qmail-queue", "qmail-queue", 04711, t.uids["qmailq"], t.gid_qmail);
    const Json &kn = plan->knobs;
    msg = kn.has("msg") ? kn.gets("msg") : gen_body((uint64_t)kn.geti("body_seed", 1), (size_t)kn.geti("body_len", 100));
    host = kn.gets("host", "r.example"); sender = kn.gets("sender", "s@x.example");
    for (auto &r : kn["rcpts"].a) rcpts.push_back(r.str()); if (rcpts.empty()) rcpts.push_back("u@r.example");
    relay = kn.getb("relay", false);
    if (kn.has("timeoutremote")) k->put_file(t.home + "/control/timeoutremote", std::to_string(kn.geti("timeoutremote")) + "\n");
    if (kn.has("timeoutconnect")) k->put_file(t.home + "/control/timeoutconnect", std::to_string(kn.geti("timeoutconnect")) + "\n");
    // queue/lock/tcpto as earlier deliveries to OTHER hosts left it: all 64 slots taken (the next timeout has to recycle one), or a shorter file
    if (kn.has("tcpto_table")) { std::string kind = kn.gets("tcpto_table"), tb; Rng tr(mix64(plan->seed, 0x7c970));
      { int n = kind == "full" ? 64 : (int)tr.range(1, 63);
        for (int q = 0; q < n; q++) { std::string rec(16, '\0'); rec[0] = 10; rec[1] = (char)200; rec[2] = (char)(q >> 8); rec[3] = (char)(q + 1); rec[4] = (char)tr.range(1, 10); uint32_t when = (uint32_t)(k->clock - (int64_t)tr.below(20000)); rec[8] = (char)when; rec[9] = (char)(when >> 8); rec[10] = (char)(when >> 16); rec[11] = (char)(when >> 24); tb += rec; }
        if (kind == "odd") tb += std::string((size_t)tr.range(1, 15), '\1'); }
      k->put_file(t.home + "/queue/lock/tcpto", tb, 0644, t.uids["qmailr"], t.gid_qmail); k->probe("tcpto_table_" + kind); }
    if (kn.has("smtproutes")) { std::string s; for (auto &x : kn["smtproutes"].a) s += x.str() + "\n"; k->put_file(t.home + "/control/smtproutes", s); }
    // zone and hosts
    const Json &z = kn["zone"];
    for (auto &p : z["mx"].o) for (auto &m : p.second.a) zone.mx[p.first].push_back({(int)m.a[0].i(), m.a[1].str()});
    for (auto &p : z["a"].o) for (auto &m : p.second.a) zone.a[p.first].push_back((uint32_t)m.i());
    for (auto &p : z["fail"].o) zone.fail[p.first] = p.second.str();
    zone.mixed = (int)z.geti("mixed", 0);
    if (!kn.has("zone")) { zone.a[host].push_back(0x0a010101); }
    for (auto &p : kn["hosts"].o) { HostAct h; h.kind = p.second.gets("kind", "accept"); h.delay = p.second.geti("delay", 0); h.immediate = p.second.getb("immediate", false); if (p.second.has("greeting")) { h.has_greeting = true; h.greeting = reply_from(p.second["greeting"], 220); } hosts[(uint32_t)strtoul(p.first.c_str(), 0, 10)] = h; }
    if (!kn.has("hosts")) hosts[0x0a010101] = HostAct();
    const Json &sv = kn["server"];
    greeting = reply_from(sv["greeting"], 220); helo = reply_from(sv["helo"], 250); mail = reply_from(sv["mail"], 250); data = reply_from(sv["data"], 354); dot = reply_from(sv["dot"], 250);
    for (auto &r : sv["rcpt"].a) rcpt_r.push_back(reply_from(r, 250));
    interfaces.clear(); interfaces.push_back(0x7f000001); interfaces.push_back(0x0a000007);
    g_net = this;
  }

  int64_t remote_last_event = 0;
  void driver() override {
    std::string mp = t.qp("mess", 700, true);
    k->put_file(mp, msg, 0644, t.uids["qmailq"], t.gid_qmail);
    std::vector<std::string> argv = {"qmail-remote", host, sender}; for (auto &r : rcpts) argv.push_back(r);
    // earlier attempts of the same delivery (separate qmail-remote processes, minutes apart): what they leave behind in
    // queue/lock/tcpto shapes the attempt that is judged
    earlier_phase = true;
    for (int64_t er = 0; er < plan->knobs.geti("earlier_runs", 0); er++) {
      Sink *junk = k->new_sink("earlier-run");
      k->spawn(k->cp(), t.home + "/bin/qmail-remote", argv, {}, {{0, k->of_file(mp, O_RDONLY)}, {1, k->of_sink(junk)}, {2, k->of_sink(errs)}}, t.uids["qmailr"], t.gid_qmail, "/");
      k->block([this] { for (auto &pp : k->procs) if (pp.second->st == Proc::LIVE && !pp.second->immortal) return false; return true; }, k->clock + 1000000, false, true);
      k->block([] { return false; }, k->clock + plan->knobs.geti("earlier_gap_s", 150), false);
      k->probe("earlier_remote_run");
    }
    earlier_phase = false;
    connect_order.clear();
    remote_last_event = k->clock;
    remote_pid = k->spawn(k->cp(), t.home + "/bin/qmail-remote", argv, {}, {{0, k->of_file(mp, O_RDONLY)}, {1, k->of_sink(rout)}, {2, k->of_sink(errs)}}, t.uids["qmailr"], t.gid_qmail, "/");
    k->block([this] { for (auto &pp : k->procs) if (pp.second->st == Proc::LIVE && !pp.second->immortal) return false; return true; }, k->clock + 1000000, false, true);
    k->stop = true;
  }

  void on_event(const Event &e) override {
    Proc *p = e.proc; if (!p) return;
    if (e.pid == remote_pid && e.call == C_EXIT) { remote_done = true; remote_status = (int)e.a; }
    // qmail-remote(8): control/timeoutconnect bounds the wait for a connection (default 60 s). A connect call that comes back later than
    // that has sat in the kernel's own, much longer, limit: the socket was not made non-blocking or the timeout not applied.
    if (e.pid == remote_pid) {
      if (e.call == C_CONNECT && c09) { int64_t tc = plan->knobs.geti("timeoutconnect", 60); if (k->clock - remote_last_event > tc + 2) violate("C09.connect-not-bounded", "connect() to " + std::to_string((uint32_t)e.a >> 24) + "." + std::to_string(((uint32_t)e.a >> 16) & 255) + "." + std::to_string(((uint32_t)e.a >> 8) & 255) + "." + std::to_string((uint32_t)e.a & 255) + " returned after " + std::to_string(k->clock - remote_last_event) + " s, timeoutconnect is " + std::to_string(tc)); }
      remote_last_event = k->clock;
    }
    if (p->role == "qmail-queue" && e.call == C_LINK && e.ret == 0 && e.path2.find("/queue/todo/") != std::string::npos && e.ino) {
      Q m; const std::string &env = e.ino->data; size_t i = 0;
      while (i < env.size()) { size_t z = env.find('\0', i); if (z == std::string::npos) break; std::string r = env.substr(i, z - i); if (!r.empty() && r[0] == 'F') m.sender = r.substr(1); else if (!r.empty() && r[0] == 'T') m.rcpts.push_back(r.substr(1)); i = z + 1; }
      uint64_t n = strtoull(e.path2.substr(e.path2.rfind('/') + 1).c_str(), 0, 10); Inode *mi = k->lookup(t.qp("mess", n, true));
      if (mi) { std::string d = mi->data; size_t nl = d.find('\n'); d = nl == std::string::npos ? "" : d.substr(nl + 1); size_t by = d.find("\n  by "); size_t end = by == std::string::npos ? std::string::npos : d.find('\n', by + 1); m.body = end == std::string::npos ? d : d.substr(end + 1); }
      queued.push_back(m);
    }
  }

  // qmail-remote(8) output: NUL-terminated reports; per recipient r/h/s in argument order, then K/Z/D
  void parse_out(std::vector<std::string> &segs) { const std::string &o = rout->data; size_t i = 0; while (i < o.size()) { size_t z = o.find('\0', i); if (z == std::string::npos) { segs.push_back(o.substr(i)); break; } segs.push_back(o.substr(i, z - i)); i = z + 1; } }

  void finish() override {
    res->nontrivial = accepted > 0 || !connect_order.empty();
    if (!remote_done) { violate(c09 ? "C09.remote-hung" : c06 ? "C06.remote-hung" : "C20.remote-hung", "qmail-remote still running"); return; }
    std::vector<std::string> segs; parse_out(segs);
    std::string outs; for (auto &s : segs) outs += "[" + printable(s, 70) + "]";
    if (c06 && !relay) check_c06(outs);
    if (c06 && relay) check_c06_relay(outs);
    if (c09 && !relay) check_c09(segs, outs);
    if (c17 && relay) check_c17(outs);
    Hash64 h; h.str(rout->data); h.str(payload); res->state_hash = h.get();
  }

  // the queue file could not be read to its end (injected error): the attempt must end without the end-of-data sequence and be
  // reported as a temporary failure; a terminated DATA is judged like any other, i.e. it must carry the whole message
  bool read_error_handled(const std::string &outs) {
    bool read_fault = false; for (auto &f : k->faults) if (f.fired && f.call == C_READ && f.kind == "error" && f.actor.compare(0, 12, "qmail-remote") == 0) read_fault = true;
    if (!read_fault || data_done) return false;
    std::vector<std::string> sg; parse_out(sg);
    if (sg.empty() || sg.back().empty() || sg.back()[0] != 'Z') violate("C06.read-error-not-temporary", "the message could not be read completely, qmail-remote said " + outs); else k->probe("c06_read_error_ends_without_terminator");
    return true;
  }

  void check_c06(const std::string &outs) {
    if (read_error_handled(outs)) return;
    bool ends_nl = !msg.empty() && (msg.back() == '\n' || msg.back() == '\r');   // a bare CR ends a line too (unit tests)
    if (!saw_data || data.code >= 400 || greeting.code != 220) return;
    if (!msg.empty() && !ends_nl) {
      // documented: a partial final line is a permanent failure and the end-of-data sequence must not have been sent
      if (data_done) violate("C06.partial-line-sent", "message without final newline was terminated on the wire; qmail-remote said " + outs);
      else if (rout->data.find("partial final line") == std::string::npos) violate("C06.partial-line-report", "message without final newline: qmail-remote said " + outs);
      return;
    }
    if (!data_done) { violate("C06.no-terminator", "the server never saw CRLF.CRLF; wire after DATA: \"" + printable(wire.substr(wire.find("DATA")), 200) + "\""); return; }
    // what followed the first end-of-data: exactly one QUIT
    if (after_data.size() != 1 || after_data[0] != "QUIT\r\n") {
      std::string a; for (auto &l : after_data) a += "[" + printable(l, 60) + "]";
      violate("C06.content-read-as-commands", "after the first CRLF.CRLF the server received " + a + " instead of a single QUIT: message content ended DATA early (message \"" + printable(msg, 120) + "\")"); return;
    }
    std::string why; std::vector<std::string> got, want;
    if (payload.find('\n') != std::string::npos) { for (size_t i = 0; i < payload.size(); i++) if (payload[i] == '\n' && (i == 0 || payload[i - 1] != '\r')) { violate("C06.bare-lf", "bare LF at payload offset " + std::to_string(i)); return; } }
    if (!ref_receive(payload, got, why)) { violate("C06.payload-format", why + "; payload \"" + printable(payload, 160) + "\""); return; }
    ref_lines(msg, want);
    if (got != want) { size_t d = 0; while (d < got.size() && d < want.size() && got[d] == want[d]) d++;
      violate("C06.lines-differ", "a conforming receiver reconstructs " + std::to_string(got.size()) + " lines, the message has " + std::to_string(want.size()) + "; first difference at line " + std::to_string(d + 1) + ": received \"" + printable(d < got.size() ? got[d] : std::string("<none>"), 60) + "\" original \"" + printable(d < want.size() ? want[d] : std::string("<none>"), 60) + "\"; message \"" + printable(msg, 100) + "\""); return; }
    if (msg.find('\r') == std::string::npos) { std::string re; for (auto &l : got) re += l + "\n"; if (re != msg) { violate("C06.not-byte-identical", "CR-free message is not reconstructed byte for byte"); return; } }
    k->probe("c06_payload_checked");
  }

  void check_c06_relay(const std::string &outs) {
    if (read_error_handled(outs)) return;
    bool ends_nl = !msg.empty() && msg.back() == '\n';
    if (msg.empty() || !ends_nl) return;
    bool k_ok = rout->data.find(std::string(1, '\0') + "K") != std::string::npos || rout->data.compare(0, 1, "K") == 0;
    if (msg.find('\r') != std::string::npos) return;   // with CR bytes only line contents are promised (judged against the strict receiver)
    if (!k_ok || queued.size() != 1) { violate("C06.relay-not-delivered", "own server did not take the message: qmail-remote said " + outs + ", " + std::to_string(queued.size()) + " messages queued"); return; }
    if (queued[0].body != msg) { size_t d = 0; while (d < msg.size() && d < queued[0].body.size() && msg[d] == queued[0].body[d]) d++; violate("C06.relay-body", "own server stored a different body: first difference at offset " + std::to_string(d)); return; }
    k->probe("c06_relay_identical");
  }

  void check_c17(const std::string &outs) {
    // envelope round trip: quoted for MAIL/RCPT by qmail-remote, parsed by qmail-smtpd
    if (msg.empty() || msg.back() != '\n') return;
    if (queued.size() != 1) { violate("C17.relay-not-delivered", "qmail-remote said " + outs + "; " + std::to_string(queued.size()) + " messages reached the receiving queue (sender \"" + printable(sender) + "\")"); return; }
    if (queued[0].sender != sender) { violate("C17.sender-roundtrip", "sender \"" + printable(sender) + "\" arrived as \"" + printable(queued[0].sender) + "\""); return; }
    if (queued[0].rcpts != rcpts) { std::string a, b; for (auto &x : queued[0].rcpts) a += "[" + printable(x) + "]"; for (auto &x : rcpts) b += "[" + printable(x) + "]"; violate("C17.recipient-roundtrip", "recipients " + b + " arrived as " + a); return; }
    k->probe("c17_roundtrip_ok");
  }

  void check_c09(const std::vector<std::string> &segs, const std::string &outs) {
    // an injected allocation failure may end the attempt with a temporary failure at any point; it never justifies success
    { bool alloc_fault = false; for (auto &f : plan->faults) if (f.kind == "null") alloc_fault = true;
      if (alloc_fault && !segs.empty() && segs.back().compare(0, 14, "ZOut of memory") == 0) { for (size_t i = 0; i + 1 < segs.size(); i++) if (!segs[i].empty() && segs[i][0] == 'K') { violate("C09.false-success", outs); return; } k->probe("c09_out_of_memory_is_temporary"); return; } }
    // ground truth, whatever the scripts were: success needs a server that itself answered the final dot of a DATA phase with 2xx on
    // its own connection, an accepted recipient needs a server that answered a RCPT with 2xx (replies a previous host sent do not count)
    if (!relay) { bool any_dot = false; size_t max_rcpt = 0; for (auto &c : conns) { if (c.dot_ok) any_dot = true; max_rcpt = std::max(max_rcpt, c.rcpt_ok); }
      if (!segs.empty() && !segs.back().empty() && segs.back()[0] == 'K' && !any_dot) { violate("C09.false-success", "no server answered the end of the message positively on its own connection, yet qmail-remote reported " + outs); return; }
      size_t nr = 0; for (size_t i = 0; i + 1 < segs.size(); i++) if (!segs[i].empty() && segs[i][0] == 'r') nr++; if (nr > max_rcpt) { violate("C09.recipient-accepted-without-server", std::to_string(nr) + " recipients reported accepted, no single connection saw more than " + std::to_string(max_rcpt) + " positive RCPT replies: " + outs); return; } }
    // the script that counts is the one of the first host that accepted the connection
    for (auto ip : connect_order) { auto it = hosts.find(ip); if (it != hosts.end() && it->second.kind == "accept") { if (it->second.has_greeting) greeting = it->second.greeting; break; } }
    // expected verdicts from the script
    std::vector<char> want_rcpt; char fin = 0; bool dup_warn = false; bool connected = false;
    // which address accepted the connection?
    for (auto ip : connect_order) { auto it = hosts.find(ip); if (it != hosts.end() && it->second.kind == "accept") { connected = true; break; } }
    int64_t tmo = plan->knobs.geti("timeoutremote", 1200);
    auto lost = [&](const Reply &r) { return r.act == "close" || r.act == "rst" || (r.act == "stall" && r.stall > tmo) || (r.act == "dribble" && false); };
    bool dns_fail = false; for (auto &f : zone.fail) if (f.first == host) dns_fail = true;
    // qmail-remote(8): if this host is itself among the MX hosts, only hosts with a better (lower) preference may be tried - anything
    // else is a mail loop - and if there is none the delivery fails permanently without any connection
    bool ambig = false;
    bool alloc_fired = false; for (auto &f : k->faults) if (f.fired && f.kind == "null") alloc_fired = true;   // (an allocation failure inside a lookup hides that MX host, this one included, like a soft failure does)
    if (zone.mx.count(host)) { long prefme = 100000; std::map<uint32_t, long> best;
      for (auto &m : zone.mx[host]) { if (zone.fail.count(m.second) && zone.fail[m.second] == "hard") continue;   /* a name that does not resolve at all offers nothing better; one that fails for the moment still might */
        for (uint32_t ip : zone.a[m.second]) { if (!best.count(ip) || m.first < best[ip]) best[ip] = m.first; if (!zone.fail.count(m.second) && std::find(interfaces.begin(), interfaces.end(), ip) != interfaces.end() && m.first < prefme) prefme = m.first; } }   // (it can recognise itself only in an answer it got)
      if (prefme < 100000) { k->probe("mx_set_contains_this_host");
        if (!alloc_fired) for (auto ip : connect_order) { bool worse = true; for (auto &m : zone.mx[host]) for (uint32_t a2 : zone.a[m.second]) if (a2 == ip && m.first < prefme) worse = false; if (worse) { violate("C09.mx-loop", "qmail-remote connects to " + std::to_string(ip >> 24) + "." + std::to_string((ip >> 16) & 255) + "." + std::to_string((ip >> 8) & 255) + "." + std::to_string(ip & 255) + " although this host itself is an MX of preference " + std::to_string(prefme) + " and that one is no better"); return; } }
        ambig = true; for (auto &b : best) if (b.second < prefme) ambig = false; } }
    if (dns_fail || !connected) {
      // no connection: temporary unless the name does not exist at all
      if (segs.empty()) { violate("C09.no-report", "qmail-remote printed nothing"); return; }
      char v = segs.back().empty() ? 0 : segs.back()[0];
      bool hard = zone.fail.count(host) && zone.fail[host] == "hard";
      if (zone.mx.count(host) && !zone.mx[host].empty()) { bool all_hard = true; for (auto &m : zone.mx[host]) if (!(zone.fail.count(m.second) && zone.fail[m.second] == "hard")) all_hard = false; if (all_hard) hard = true; }   // none of the MX names exists: nowhere to send it, ever
      if (v == 'K') { violate("C09.success-without-connection", "no SMTP connection was established but qmail-remote reported " + outs); return; }
      if (ambig && alloc_fired && !connect_order.empty()) { k->probe("c09_own_mx_hidden_by_allocation_failure"); return; }   // (the lookup of this host's own MX name failed for want of memory: it could not recognise itself)
      if (ambig) { if (!connect_order.empty()) violate("C09.mx-loop", "this host is the best MX and qmail-remote still connected somewhere: " + outs); k->probe("c09_best_mx_is_this_host"); return; }   // (documented as a permanent failure; not K is what the property needs)
      if (!hard && v != 'Z') { violate("C09.connect-trouble-not-temporary", "connection trouble must be a temporary failure; qmail-remote reported " + outs); return; }
      for (size_t i = 0; i + 1 < segs.size(); i++) if (!segs[i].empty() && segs[i][0] == 'r') { violate("C09.recipient-accepted-without-server", outs); return; }
      return;
    }
    bool stop = false;
    if (lost(greeting)) { fin = 'Z'; stop = true; } else if (greeting.code != 220) { fin = 'Z'; stop = true; }
    if (!stop) { if (lost(helo)) { fin = 'Z'; stop = true; } else if (helo.code != 250) { fin = 'Z'; stop = true; } }
    if (!stop) { if (lost(mail)) { fin = 'Z'; stop = true; } else if (mail.code >= 500) { fin = 'D'; stop = true; } else if (mail.code >= 400) { fin = 'Z'; stop = true; } }
    if (!stop) {
      bool any = false;
      for (size_t i = 0; i < rcpts.size(); i++) { Reply r = i < rcpt_r.size() ? rcpt_r[i] : Reply(); if (lost(r)) { fin = 'Z'; stop = true; break; } if (r.code >= 500) { want_rcpt.push_back('h'); } else if (r.code >= 400) want_rcpt.push_back('s'); else { want_rcpt.push_back('r'); any = true; } }
      if (!stop && !any) { fin = 'D'; stop = true; }
    }
    bool partial = !msg.empty() && msg.back() != '\n' && msg.back() != '\r';
    if (!stop) { if (lost(data)) { fin = 'Z'; stop = true; } else if (data.code >= 500) { fin = 'D'; stop = true; } else if (data.code >= 400) { fin = 'Z'; stop = true; } }
    // the server said 354 and then stopped reading: a message larger than the connection can hold never gets out (write times out:
    // temporary, and the final dot was never sent); a small one goes out completely and its acknowledgement never comes
    bool noread = data.act == "noread" && data.code < 400;
    if (!stop && noread && msg.size() > 100000) { fin = 'Z'; stop = true; }
    if (!stop && partial) { fin = 'D'; stop = true; }
    if (!stop && noread) { fin = 'Z'; dup_warn = true; stop = true; }
    if (!stop && data.act == "reply_rst") { fin = 'Z'; dup_warn = true; stop = true; }   // the write of the final dot itself fails: the dot may or may not have left
    if (!stop) { if (lost(dot)) { fin = 'Z'; dup_warn = true; } else if (dot.code >= 500) fin = 'D'; else if (dot.code >= 400) fin = 'Z'; else fin = 'K'; }
    // compare
    if (segs.size() != want_rcpt.size() + 1) { violate("C09.report-count", "expected " + std::to_string(want_rcpt.size()) + " recipient reports and one verdict, qmail-remote printed " + outs); return; }
    for (size_t i = 0; i < want_rcpt.size(); i++) { char g = segs[i].empty() ? 0 : segs[i][0]; if (g == 's' && want_rcpt[i] == 'h' && i < rcpt_r.size() && !rcpt_r[i].text.empty()) continue;   /* a line that is no reply at all is a refusal; the documents do not say which kind */
      if (g != want_rcpt[i]) { violate(g == 'r' ? "C09.recipient-upgraded" : "C09.recipient-report", "recipient " + std::to_string(i + 1) + " (server said " + std::to_string(i < rcpt_r.size() ? rcpt_r[i].code : 250) + ") reported as '" + std::string(1, g ? g : '?') + "', expected '" + std::string(1, want_rcpt[i]) + "'; output " + outs); return; } }
    char gf = segs.back().empty() ? 0 : segs.back()[0];
    { bool garbage_decides = (!mail.text.empty() && mail.code >= 500) || !data.text.empty() || !dot.text.empty(); if (gf == 'Z' && fin == 'D' && garbage_decides) fin = 'Z'; }
    if (gf != fin) { violate(gf == 'K' ? "C09.false-success" : "C09.verdict", "final verdict '" + std::string(1, gf ? gf : '?') + "', the server's behaviour (greeting " + std::to_string(greeting.code) + "/" + greeting.act + ", HELO " + std::to_string(helo.code) + "/" + helo.act + ", MAIL " + std::to_string(mail.code) + "/" + mail.act + ", DATA " + std::to_string(data.code) + "/" + data.act + ", dot " + std::to_string(dot.code) + "/" + dot.act + ") requires '" + std::string(1, fin) + "'; output " + outs); return; }
    if (dup_warn && segs.back().find("Possible duplicate") == std::string::npos) { violate("C09.no-duplicate-warning", "connection lost after the final dot but the report does not flag a possible duplicate: " + outs); return; }
    if (!dup_warn && fin == 'Z' && segs.back().find("Possible duplicate") != std::string::npos && !lost(dot)) { violate("C09.spurious-duplicate-warning", outs); return; }
    k->probe("c09_verdict_checked");
  }
};

World *make_world_so() { return new WorldSO; }

}  // namespace sim

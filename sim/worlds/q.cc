// q.cc - world Q: file system, boot, driver ops, stub spawners
#include "q.h"
#include "common.h"
#include "q_time.h"
#include <errno.h>
#include <fcntl.h>
#include <string.h>
#include <unistd.h>
#include <signal.h>
#include <sys/select.h>

namespace sim {

WorldQ::~WorldQ() { for (auto *m : msgs) delete m; delete tg; }
void time_ghost_idle(TimeGhost *t, int64_t from, int64_t to);
void WorldQ::on_idle(int64_t from, int64_t to) { if (tg) time_ghost_idle(tg, from, to); }

bool WorldQ::enabled(const std::string &o) const { return oracles_on.empty() ? !oracles_off.count(o) : oracles_on.count(o) > 0; }

std::string WorldQ::qp(const std::string &dir, uint64_t n, bool sp) const {
  std::string s = home + "/queue/" + dir + "/";
  if (sp) s += std::to_string(n % (uint64_t)split) + "/";
  return s + std::to_string(n);
}

static std::string lines(const Json &a) { std::string s; for (auto &x : a.a) { s += x.str(); s += "\n"; } return s; }

void WorldQ::setup() {
  split = (int)conf.geti("split", 23);
  home = conf.gets("qmail", "/var/qmail");
  const Json &us = conf["users"];
  const char *keys[8] = {"alias", "qmaild", "qmaill", "root", "qmailp", "qmailq", "qmailr", "qmails"};
  for (int i = 0; i < 8; i++) {
    std::string name = us.a.size() > (size_t)i ? us.a[i].str() : keys[i];
    uint32_t uid = std::string(keys[i]) == "root" ? 0 : 7790 + (uint32_t)i;
    uids[keys[i]] = uid;
    k->passwd.push_back(PwEnt{name, uid, (uint32_t)(i == 3 ? 0 : (i == 0 || i == 1 || i == 2 || i == 4 ? gid_nofiles : gid_qmail)), i == 0 ? home + "/alias" : home, "/bin/sh"});
  }
  k->passwd.push_back(PwEnt{"user1", 1001, 1001, "/home/user1", "/bin/sh"});
  k->passwd.push_back(PwEnt{"user2", 1002, 1002, "/home/user2", "/bin/sh"});
  k->group.push_back(GrEnt{conf["groups"].a.size() > 0 ? conf["groups"].a[0].str() : "qmail", gid_qmail});
  k->group.push_back(GrEnt{conf["groups"].a.size() > 1 ? conf["groups"].a[1].str() : "nofiles", gid_nofiles});

  uint32_t uq = uids["qmailq"], us_ = uids["qmails"], ur = uids["qmailr"];
  k->mkdir_p(home, 0755, 0, gid_qmail);
  k->mkdir_p(home + "/bin"); k->mkdir_p(home + "/control"); k->mkdir_p(home + "/alias", 02755, uids["alias"], gid_qmail);
  k->mkdir_p(home + "/users");
  std::string q = home + "/queue";
  k->mkdir_p(q, 0750, uq, gid_qmail);
  for (const char *d : {"pid", "intd", "todo", "bounce", "lock"}) k->mkdir_p(q + "/" + d, 0700, uq, gid_qmail);
  for (const char *d : {"mess", "info", "local", "remote"})
    for (int i = 0; i < split; i++) k->mkdir_p(q + "/" + d + "/" + std::to_string(i), 0700, uq, gid_qmail);
  k->put_file(q + "/lock/sendmutex", "", 0600, us_, gid_qmail);
  k->put_file(q + "/lock/tcpto", std::string(1024, '\0'), 0644, ur, gid_qmail);
  k->put_fifo(q + "/lock/trigger", 0622, us_, gid_qmail);

  real_spawners = plan->knobs.getb("real_spawners", false);
  k->put_exec(home + "/bin/qmail-start", "qmail-start", 0700);
  k->put_exec(home + "/bin/qmail-send", "qmail-send", 0711);
  k->put_exec(home + "/bin/qmail-clean", "qmail-clean", 0711);
  k->put_exec(home + "/bin/qmail-queue", "qmail-queue", 04711, uq, gid_qmail);
  k->put_exec(home + "/bin/qmail-lspawn", real_spawners ? "qmail-lspawn" : "stub:lspawn", 0700);
  k->put_exec(home + "/bin/qmail-rspawn", real_spawners ? "qmail-rspawn" : "stub:rspawn", 0711);
  k->natives["lspawn"] = [this](int, char **) { return spawner_stub(0); };
  k->natives["rspawn"] = [this](int, char **) { return spawner_stub(1); };

  // control files
  const Json &cf = plan->knobs["conf"];
  k->put_file(home + "/control/me", "sim.example\n");
  std::string loc = cf.has("locals") ? lines(cf["locals"]) : std::string("l.example\nsim.example\n");
  if (!cf.getb("no_locals", false)) k->put_file(home + "/control/locals", loc);   // (no such file: the host's own name, control/me, is the one local domain)
  if (cf.has("virtualdomains")) k->put_file(home + "/control/virtualdomains", lines(cf["virtualdomains"]));
  if (cf.has("percenthack")) k->put_file(home + "/control/percenthack", lines(cf["percenthack"]));
  for (const char *f : {"envnoathost", "bouncefrom", "bouncehost", "doublebounceto", "doublebouncehost"})
    if (cf.has(f)) k->put_file(home + "/control/" + f, cf[f].str() + "\n");
  if (cf.has("bouncefrom")) bfrom = cf["bouncefrom"].str(); if (cf.has("bouncehost")) bhost = cf["bouncehost"].str();
  if (cf.has("doublebounceto")) dbto = cf["doublebounceto"].str(); if (cf.has("doublebouncehost")) dbhost = cf["doublebouncehost"].str();
  for (auto &l : cf["virtualdomains"].a) { std::string v = l.str(); size_t c = v.find(':'); if (c != std::string::npos) { std::string key = v.substr(0, c); for (auto &ch : key) ch = (char)tolower((unsigned char)ch); vdoms_ref[key] = v.substr(c + 1); } }
  conc[0] = (int)cf.geti("concurrencylocal", 10); conc[1] = (int)cf.geti("concurrencyremote", 20);
  if (cf.has("concurrencylocal")) k->put_file(home + "/control/concurrencylocal", std::to_string(conc[0]) + "\n");
  if (cf.has("concurrencyremote")) k->put_file(home + "/control/concurrencyremote", std::to_string(conc[1]) + "\n");
  lifetime = cf.geti("queuelifetime", 604800);
  if (cf.has("queuelifetime")) k->put_file(home + "/control/queuelifetime", std::to_string(lifetime) + "\n");
  int spawnmax = (int)conf.geti("spawn", 120);
  spawn_limit[0] = (int)plan->knobs.geti("spawn_limit_local", spawnmax);
  spawn_limit[1] = (int)plan->knobs.geti("spawn_limit_remote", spawnmax);
  default_verdict = plan->knobs.gets("default_verdict", "K");
  for (auto &o : plan->knobs["oracles_off"].a) oracles_off.insert(o.str());
  for (auto &o : plan->knobs["oracles"].a) oracles_on.insert(o.str());

  { QmailTree tt; tt.home = home; tt.restyle_all_controls(k, (int)plan->knobs.geti("ctl_style", 0)); }
  for (auto &p : plan->knobs["control_raw"].o) k->put_file(home + "/control/" + p.first, p.second.str());
  logsink = k->new_sink("qmail-send-log");
  if (enabled("c15") || enabled("c16")) { if (!oracles_on.empty() || plan->knobs.getb("timing", false)) tg = make_time_ghost(this); }

  // scripts and planted entries are part of the ops list but take effect at setup
  for (auto &op : plan->ops.a) {
    if (op.gets("op") == "script") {
      std::vector<Attempt> v;
      for (auto &a : op["attempts"].a) { Attempt at; at.v = a.gets("v", "K"); at.text = a.gets("text", ""); at.lat = a.geti("lat", 0); at.raw = a.gets("raw"); at.die = a.getb("die", false); v.push_back(at); }
      scripts[op.gets("rcpt")] = v;
    }
  }
  for (auto &op : plan->ops.a) if (op.gets("op") == "junk") junk[op.geti("chan", 0) ? 1 : 0].push_back({(int)op.geti("after", 0), op.gets("bytes")});
  for (auto &f : plan->faults) if (f.actor.compare(0, 10, "qmail-send") == 0 || f.actor.compare(0, 11, "qmail-clean") == 0)
    if (f.kind == "error" || f.kind == "short" || f.kind == "eintr") io_faults_in_daemon = true;
}

// ---------------------------------------------------------------- stub spawner
int WorldQ::spawner_stub(int chan) {
  Kernel *kk = k;
  char lim = (char)spawn_limit[chan];
  if (kk->sys_write(1, &lim, 1) != 1) return 111;
  std::string inbuf;
  struct Pending { int64_t at; int delnum; std::string bytes; bool wellformed; std::string text; bool die; uint64_t order; };
  std::vector<Pending> pend; uint64_t ord = 0;
  size_t junk_idx = 0; int cmds_seen = 0;
  for (;;) {
    // hostile bytes on the report channel (C18c): record-aligned junk; a record that happens to name a delivery in flight
    // IS a report as far as the daemon can tell, and the ghost is told so
    while (junk_idx < junk[chan].size() && cmds_seen >= junk[chan][junk_idx].first) {
      const std::string &jb = junk[chan][junk_idx++].second;
      size_t joff = 0; while (joff < jb.size()) { ssize_t w = kk->sys_write(1, jb.data() + joff, jb.size() - joff); if (w <= 0) return 0; joff += (size_t)w; }
      kk->probe("junk_report_bytes", jb.size()); kk->note_fault("peer_garbage");

    }
    // send due reports (in due-time order, ties by arrival)
    for (;;) {
      size_t best = pend.size();
      for (size_t i = 0; i < pend.size(); i++) if (pend[i].at <= kk->clock && (best == pend.size() || pend[i].at < pend[best].at || (pend[i].at == pend[best].at && pend[i].order < pend[best].order))) best = i;
      if (best == pend.size()) break;
      Pending p = pend[best]; pend.erase(pend.begin() + (long)best);
      if (p.die) return 0;   // spawner dies with this delivery outstanding
      size_t off = 0;
      while (off < p.bytes.size()) { ssize_t w = kk->sys_write(1, p.bytes.data() + off, p.bytes.size() - off); if (w <= 0) return 0; off += (size_t)w; }
      if (stub_unanswered[chan] > 0) stub_unanswered[chan]--;
      // (the ghost learns about reports when the daemon reads them: see on_send_event)
    }
    int64_t next = -1;
    for (auto &p : pend) if (next < 0 || p.at < next) next = p.at;
    fd_set rf; FD_ZERO(&rf); FD_SET(0, &rf);
    struct timeval tv; tv.tv_sec = next < 0 ? 0 : (next > kk->clock ? next - kk->clock : 0); tv.tv_usec = 0;
    int r = kk->sys_select(1, &rf, nullptr, nullptr, next < 0 ? nullptr : &tv);
    if (r < 0) continue;
    if (r == 0) continue;
    char buf[4096];
    ssize_t n = kk->sys_read(0, buf, sizeof buf);
    if (n == 0) return 0;
    if (n < 0) continue;
    inbuf.append(buf, (size_t)n);
    for (;;) {
      // delnum, messid\0 sender\0 recip\0
      if (inbuf.size() < 1) break;
      size_t a = inbuf.find('\0', 1); if (a == std::string::npos) break;
      size_t b = inbuf.find('\0', a + 1); if (b == std::string::npos) break;
      size_t c = inbuf.find('\0', b + 1); if (c == std::string::npos) break;
      SpawnCmd cmd; cmd.chan = chan; cmd.delnum = (unsigned char)inbuf[0]; cmd.messid = inbuf.substr(1, a - 1);
      cmd.sender = inbuf.substr(a + 1, b - a - 1); cmd.recip = inbuf.substr(b + 1, c - b - 1); cmd.t = kk->clock; cmd.num = 0;
      inbuf.erase(0, c + 1); cmds_seen++;
      Attempt at; at.v = default_verdict; at.text = "default"; at.lat = plan->knobs.geti("default_lat", 0);
      auto it = scripts.find(cmd.recip);
      if (it != scripts.end()) { int &no = attempt_no[cmd.recip]; if ((size_t)no < it->second.size()) at = it->second[(size_t)no]; no++; }
      Pending p; p.at = kk->clock + at.lat; p.delnum = cmd.delnum; p.order = ord++; p.die = at.die;
      if (!at.raw.empty()) { p.bytes = at.raw; p.wellformed = false; p.text = at.raw; }
      else { p.text = at.v + at.text; p.bytes = std::string(1, (char)cmd.delnum) + p.text + std::string(1, '\0'); p.wellformed = true; }
      pend.push_back(p); stub_unanswered[chan]++;
    }
  }
}

// ---------------------------------------------------------------- driver
void WorldQ::op_boot() {
  if (send_pid && k->find_proc(send_pid) && k->find_proc(send_pid)->st == Proc::LIVE) return;
  // wait for leftovers of a previous incarnation (spawners, cleaner) to go away
  k->block([this] { for (auto &pp : k->procs) { Proc *p = pp.second; if (p->st == Proc::LIVE && !p->immortal && (p->role == "qmail-clean" || p->role == "qmail-lspawn" || p->role == "qmail-rspawn" || p->role == "qmail-start")) return false; } return true; }, k->clock + 5, false, true);
  for (auto &pp : k->procs) { Proc *p = pp.second; if (p->st == Proc::LIVE && !p->immortal && (p->role == "qmail-clean" || p->role == "qmail-lspawn" || p->role == "qmail-rspawn")) k->kill_proc(p, 9); }
  attempt_no = attempt_no;  // scripts continue across incarnations
  std::vector<Kernel::FdSpec> fds = {{0, k->of_null()}, {1, k->of_sink(logsink)}, {2, k->of_sink(logsink)}};
  int pid = k->spawn(k->cp(), home + "/bin/qmail-start", {"qmail-start", "./Mailbox"}, {"PATH=" + home + "/bin"}, fds, 0, 0, "/");
  (void)pid;
}

static std::string build_env(const std::string &sender, const std::vector<std::string> &rcpts) {
  std::string e = "F" + sender; e.push_back('\0');
  for (auto &r : rcpts) { e += "T" + r; e.push_back('\0'); }
  e.push_back('\0');
  return e;
}

void WorldQ::op_inject(const Json &op) {
  GMsg *m = new GMsg; m->id = op.gets("id", "m" + std::to_string(msgs.size())); m->tagged = true;
  m->body = op.has("body") ? op.gets("body") : gen_body((uint64_t)op.geti("body_seed", 1), (size_t)op.geti("body_len", 100));
  m->sender = op.gets("sender", "s@x.example");
  for (auto &r : op["rcpts"].a) m->rcpts.push_back(r.str());
  m->env_raw = op.has("env_raw") ? op.gets("env_raw") : build_env(m->sender, m->rcpts);
  std::string user = op.gets("user", "user1");
  uint32_t uid = 1001, gid = 1001;
  for (auto &pe : k->passwd) if (pe.name == user) { uid = pe.uid; gid = pe.gid; }
  if (uids.count(user)) { uid = uids[user]; }
  m->uid = uid; m->inj_start = k->clock;
  msgs.push_back(m); byid[m->id] = m;
  std::vector<Kernel::FdSpec> fds = {{0, k->of_preloaded(m->body, "body:" + m->id)}, {1, k->of_preloaded(m->env_raw, "env:" + m->id)}, {2, k->of_sink(logsink)}};
  int64_t feed_delay = op.geti("feed_delay", 0);
  if (feed_delay > 0) {
    // a slow client: the message arrives in two pieces with a pause in between, so the injector blocks in read() for a while
    Pipe *fp = k->new_pipe("slow-body:" + m->id); fp->cap = 262144;
    fds[0] = {0, k->of_pipe_r(fp)};
    std::string body = m->body; Kernel *kk = k;
    k->spawn_native(k->cp(), "feeder", [kk, body, feed_delay](int, char **) { kk->cp()->sig[SIGPIPE].handler = SIG_IGN; size_t half = body.size() / 2; size_t off = 0;
        while (off < half) { ssize_t w = kk->sys_write(1, body.data() + off, half - off); if (w <= 0) return 0; off += (size_t)w; }
        kk->block([] { return false; }, kk->clock + feed_delay, false);
        while (off < body.size()) { ssize_t w = kk->sys_write(1, body.data() + off, body.size() - off); if (w <= 0) return 0; off += (size_t)w; }
        return 0; }, {{1, k->of_pipe_w(fp)}}, 1, 1, "/");
  }
  int pid = k->spawn(k->cp(), home + "/bin/qmail-queue", {"qmail-queue"}, {}, fds, uid, gid, "/", m->id);
  m->inj_pid = pid; bypid[pid] = m;
  if (op.getb("wait", false)) { k->block([this, pid] { Proc *p = k->find_proc(pid); return !p || p->st != Proc::LIVE; }, -1, false); }
}

bool WorldQ::queue_empty() {
  for (auto &pr : pattern) if (pr.second) return false;
  return true;
}

void WorldQ::op_settle(int64_t max_s) {
  int64_t until = k->clock + max_s;
  // runnable only when the whole system is idle: then either the queue is empty (done) or we let time pass
  for (;;) {
    bool done = false;
    int crashes = k->crash_count;
    k->block([this, &done, crashes] { done = queue_empty() || k->crash_count != crashes; bool injecting = false; for (auto &pp : k->procs) if (pp.second->st == Proc::LIVE && pp.second->role == "qmail-queue") injecting = true; return done && !injecting; }, until, false, true);
    if (done || k->clock >= until) return;
  }
}

void WorldQ::driver() {
  for (auto &op : plan->ops.a) {
    if (k->stop) break;
    std::string o = op.gets("op");
    if (o == "boot") op_boot();
    else if (o == "inject") op_inject(op);
    else if (o == "script" || o == "junk") {}
    else if (o == "plant") plant(op);
    else if (o == "sleep") k->block([] { return false; }, k->clock + op.geti("s", 1), false);
    else if (o == "yield") { for (int64_t i = 0; i < op.geti("n", 1); i++) k->yield_point(); }
    else if (o == "settle") op_settle(op.geti("max_s", 100000));
    else if (o == "signal") {
      Proc *p = k->find_role(op.gets("to", "qmail-send"));
      std::string s = op.gets("sig", "ALRM");
      int sig = s == "HUP" ? SIGHUP : s == "TERM" ? SIGTERM : s == "ALRM" ? SIGALRM : s == "KILL" ? SIGKILL : SIGALRM;
      if (p) { if (sig == SIGKILL) { had_proc_crash = true; k->note_fault("crash_process"); k->kill_proc(p, 9); } else { k->note_fault(std::string("signal_") + s); k->post_signal(p, sig); } }
    }
    else if (o == "crash") { k->machine_crash(op.gets("image", "random")); }
    else if (o == "control") {
      // replace by rename semantics: new inode, readers in progress keep the old one
      std::string path = home + "/control/" + op.gets("file");
      k->remove_path(path);
      if (!op.getb("remove", false)) { k->put_file(path, op.gets("content")); QmailTree::restyle_control(k, path, (int)plan->knobs.geti("ctl_style", 0)); }
    }
    else if (o == "second_send") {
      std::vector<Kernel::FdSpec> fds = {{0, k->of_sink(logsink)}, {1, k->of_null()}, {2, k->of_preloaded(std::string(1, (char)5))}, {3, k->of_null()}, {4, k->of_preloaded(std::string(1, (char)5))}, {5, k->of_null()}, {6, k->of_null()}};
      second_pid = k->spawn(k->cp(), home + "/bin/qmail-send", {"qmail-send"}, {}, fds, uids["qmails"], gid_qmail, "/", "second");
    }
    else if (o == "shutdown") {
      Proc *p = k->find_role("qmail-send");
      if (p) { k->post_signal(p, SIGTERM); int pid = p->pid; k->block([this, pid] { Proc *q = k->find_proc(pid); return !q || q->st != Proc::LIVE; }, k->clock + op.geti("max_s", 100000), false); }
    }
    if (k->crashed_flag) { k->crashed_flag = false; }
  }
  k->stop = true;
}

}  // namespace sim

// i.cc - world I: real qmail-inject (+ real qmail-queue) fed on stdin; captures what reaches the queue.
// C17 (header -> envelope leg) compares with the mailboxes the generator built the header from; C20 runs hostile headers.
#include "common.h"
#include <errno.h>
#include <fcntl.h>
#include <string.h>
#include <algorithm>

namespace sim {

struct WorldI : World {
  QmailTree t;
  struct Q { std::string sender; std::vector<std::string> rcpts; std::string body; }; std::vector<Q> queued;
  int pid = 0; bool done = false; int status = -1; Sink *errs = nullptr;
  bool c17 = false; bool first_done = false; int first_status = 0;

  void setup() override {
    t.build(k, conf);
    errs = k->new_sink("stderr");
    for (auto &o : plan->knobs["oracles"].a) if (o.str() == "c17") c17 = true;
    k->put_exec(t.home + "/bin/qmail-inject", "qmail-inject", 0755);
    k->put_exec(t.home + "/bin/qmail-queue", "qmail-queue", 04711, t.uids["qmailq"], t.gid_qmail);
    k->passwd.push_back(PwEnt{"user1", 1001, 1001, "/home/user1", "/bin/sh"});
    for (auto &p : plan->knobs["control"].o) k->put_file(t.home + "/control/" + p.first, p.second.str());
    if (plan->knobs.has("mft")) { k->mkdir_p("/home/user1", 0755, 1001, 1001); k->put_file("/home/user1/mft", plan->knobs.gets("mft"), 0644, 1001, 1001); }   // $QMAILMFTFILE: the user's mailing lists (Mail-Followup-To is generated when one of them is a recipient)
  }
  void driver() override {
    std::vector<std::string> argv = {"qmail-inject"}; for (auto &a : plan->knobs["args"].a) argv.push_back(a.str());
    std::vector<std::string> env = {"USER=user1", "HOME=/home/user1"}; for (auto &p : plan->knobs["env"].o) env.push_back(p.first + "=" + p.second.str());
    pid = k->spawn(k->cp(), t.home + "/bin/qmail-inject", argv, env, {{0, k->of_preloaded(plan->knobs.gets("stdin"), "stdin")}, {1, k->of_sink(errs)}, {2, k->of_sink(errs)}}, 1001, 1001, "/");
    k->block([this] { for (auto &pp : k->procs) if (pp.second->st == Proc::LIVE && !pp.second->immortal) return false; return true; }, k->clock + 200000, false, true);
    if (plan->knobs.getb("reinject", false) && queued.size() == 1) {
      // feed the rewritten message back: its header must parse to the same recipients
      first_done = true; first_status = status; done = false;
      pid = k->spawn(k->cp(), t.home + "/bin/qmail-inject", {"qmail-inject", "-h"}, env, {{0, k->of_preloaded(queued[0].body, "stdin2")}, {1, k->of_sink(errs)}, {2, k->of_sink(errs)}}, 1001, 1001, "/");
      k->block([this] { for (auto &pp : k->procs) if (pp.second->st == Proc::LIVE && !pp.second->immortal) return false; return true; }, k->clock + 200000, false, true);
    }
    k->stop = true;
  }
  void on_event(const Event &e) override {
    Proc *p = e.proc; if (!p) return;
    if (e.pid == pid && e.call == C_EXIT) { done = true; status = (int)e.a; }
    if (p->role == "qmail-queue" && e.call == C_LINK && e.ret == 0 && e.path2.find("/queue/todo/") != std::string::npos && e.ino) {
      Q m; const std::string &env = e.ino->data; size_t i = 0;
      while (i < env.size()) { size_t z = env.find('\0', i); if (z == std::string::npos) break; std::string r = env.substr(i, z - i); if (!r.empty() && r[0] == 'F') m.sender = r.substr(1); else if (!r.empty() && r[0] == 'T') m.rcpts.push_back(r.substr(1)); i = z + 1; }
      uint64_t n = strtoull(e.path2.substr(e.path2.rfind('/') + 1).c_str(), 0, 10); Inode *mi = k->lookup(t.qp("mess", n, true));
      if (mi) { std::string d = mi->data; size_t nl = d.find('\n'); m.body = nl == std::string::npos ? "" : d.substr(nl + 1); }
      queued.push_back(m);
    }
  }
  void finish() override {
    res->nontrivial = done;
    if (!done) { violate(c17 ? "C17.inject-hung" : "C20.inject-hung", "qmail-inject still running"); return; }
    Hash64 h; h.u64((uint64_t)status); for (auto &q : queued) { h.str(q.sender); for (auto &r : q.rcpts) h.str(r); } res->state_hash = h.get();
    if (!c17) return;
    int code = ((first_done ? first_status : status) >> 8) & 0xff;
    const Json &want = plan->knobs["expect"];
    if (want.is_null()) return;
    std::string in = plan->knobs.gets("stdin");
    // out of memory (or another injected fault) may make the injection fail as a whole: exit 111 and nothing queued is fine, a
    // queued message is not excused - its envelope must still be complete
    bool faulted = !plan->faults.empty();
    if (faulted && queued.empty() && (code == 111 || code == 100)) { k->probe("c17_inject_failed_cleanly_under_fault"); return; }
    if (code != 0 || queued.size() < 1) { violate("C17.inject-refused", "qmail-inject exited " + std::to_string(code) + " with " + std::to_string(queued.size()) + " messages queued for header \"" + printable(in, 200) + "\""); return; }
    std::vector<std::string> w; for (auto &x : want["rcpts"].a) w.push_back(x.str());
    std::vector<std::string> g = queued[0].rcpts;
    std::vector<std::string> ws = w, gs = g; std::sort(ws.begin(), ws.end()); std::sort(gs.begin(), gs.end());
    if (ws != gs) { std::string a, b; for (auto &x : g) a += "[" + printable(x, 40) + "]"; for (auto &x : w) b += "[" + printable(x, 40) + "]"; violate("C17.header-recipients", "envelope recipients " + a + " differ from the mailboxes listed in the header " + b + "; header \"" + printable(in, 300) + "\""); return; }
    if (want.has("sender") && queued[0].sender != want.gets("sender")) { violate("C17.inject-sender", "envelope sender \"" + printable(queued[0].sender) + "\", expected \"" + printable(want.gets("sender")) + "\""); return; }
    // Bcc must not survive in the stored header
    { const std::string &b = queued[0].body; size_t he = b.find("\n\n"); std::string hdr = he == std::string::npos ? b : b.substr(0, he + 1); std::string lh = hdr; for (auto &c : lh) c = (char)tolower((unsigned char)c);
      bool kept = false; for (size_t at = 0; at != std::string::npos && at < lh.size(); at = lh.find('\n', at), at = at == std::string::npos ? at : at + 1) if (lh.compare(at, 3, "bcc") == 0) { size_t q = at + 3; while (q < lh.size() && (lh[q] == ' ' || lh[q] == '\t')) q++; if (q < lh.size() && lh[q] == ':') kept = true; }
      if (kept) { violate("C17.bcc-kept", "stored header still has a Bcc field: \"" + printable(hdr, 200) + "\""); return; } }
    if (first_done) {
      if (queued.size() != 2) { violate("C17.reparse", "the rewritten header was refused on re-injection (exit " + std::to_string((status >> 8) & 0xff) + "): \"" + printable(queued[0].body, 300) + "\""); return; }
      std::vector<std::string> a = queued[0].rcpts, b = queued[1].rcpts; std::sort(a.begin(), a.end()); std::sort(b.begin(), b.end());
      if (a != b) { std::string x, y; for (auto &q : a) x += "[" + printable(q, 40) + "]"; for (auto &q : b) y += "[" + printable(q, 40) + "]"; violate("C17.reparse", "rewritten header parses to " + y + " instead of " + x + ": \"" + printable(queued[0].body, 300) + "\""); return; }
      k->probe("c17_reparse_checked");
    }
    k->probe("c17_inject_checked");
  }
};

World *make_world_i() { return new WorldI; }
}  // namespace sim

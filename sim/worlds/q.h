// q.h - world Q: real qmail-start/qmail-send/qmail-clean/qmail-queue around the real queue; stub or real spawners
#pragma once
#include "../world.h"

namespace sim {

struct GRcpt {
  std::string addr;          // as written in the channel file (after rewriting)
  int chan = 0; uint64_t off = 0;
  bool marked = false;       // D mark present (current view; re-read from the surviving image after a crash)
  int outstanding = -1;      // delnum of the command in flight, -1 none
  int cmds = 0;              // commands issued
  int cmds_since_boot = 0;
  char last_verdict = 0; char maybe_verdict = 0;     // verdict letter of the report written for the in-flight/last command (0 none since command)
  bool verdict_is_wellformed = false;
  int k_reports = 0, d_reports = 0;
  bool k_done = false;       // marked after a K report
  bool noted = false;        // note appended to bounce/n (not yet in a sent bounce)
  bool named = false;        // the bounce message just queued for this message carries this recipient's paragraph
  bool bounced = false;      // note was in a bounce whose injection exited 0 (or documented discard)
  bool exempt = false;       // lossy-crash exemption (bounce record not crashproof)
  bool cmd_after_mark = false;
  int64_t last_cmd_t = 0;
  std::string fail_text;
  int note_seq = 0;
};

struct GMsg {
  std::string id;            // logical id
  bool tagged = false;       // created by an inject op (body/envelope known)
  int inj_pid = 0; uint32_t uid = 0; int64_t inj_start = 0;
  std::string body, env_raw, sender; std::vector<std::string> rcpts;
  std::string pidfn;         // canonical pid/ file name
  uint64_t num = 0;
  enum Phase { INJECTING, QUEUED, PREPROCESSED, FINISHED, ABORTED } phase = INJECTING;
  bool published = false;    // link(intd,todo) succeeded
  bool exited = false; int status = -1;
  bool accepted = false;
  bool fault_hit = false;    // an injected fault fired inside its injector
  std::vector<GRcpt> rc;     // valid from PREPROCESSED
  int64_t birth = 0;         // mtime of info/n
  bool info_unlinked_by_send = false; int eliminated_in = -1;
  int64_t t_published = -1, t_noticed = -1;   // C16
  std::string bounce_of;     // for bounces queued by qmail-send: logical id of the original
  int send_incarnation = 0;  // incarnation of qmail-send that preprocessed it
  std::string info_sender;
  bool pre_planted = false;
  bool mess_gone = false;
  int bounces_sent = 0;
};

struct RouteConf {
  std::set<std::string> locals, percenthack; std::map<std::string, std::string> vdoms; std::string envnoathost;
  static void set_lines(std::set<std::string> &dst, const std::string &data); void set_vdoms(const std::string &data);
  int route(const std::string &recip, std::string &out) const;
};

struct SpawnCmd { int chan; int delnum; std::string messid, sender, recip; int64_t t; uint64_t num; };

struct Attempt { std::string v; std::string text; int64_t lat = 0; std::string raw; bool die = false; };

struct WorldQ : World {
  // configuration
  std::string home = "/var/qmail";
  int split = 23;
  std::map<std::string, uint32_t> uids; uint32_t gid_qmail = 2107, gid_nofiles = 2108;
  bool real_spawners = false;
  int spawn_limit[2] = {120, 120};
  int conc[2] = {10, 20};
  int64_t lifetime = 604800;
  std::map<std::string, std::vector<Attempt>> scripts;   // by recipient as seen by the spawner
  std::map<std::string, int> attempt_no;
  std::vector<std::pair<int, std::string>> junk[2];   // (after this many commands, bytes) per channel
  std::string default_verdict = "K";
  Sink *logsink = nullptr;
  // ghost
  std::vector<GMsg *> msgs;
  std::map<uint64_t, GMsg *> bynum;          // live number -> message
  std::map<std::string, GMsg *> byid;
  std::map<int, GMsg *> bypid;               // injector pid -> message
  std::map<uint64_t, uint8_t> pattern;       // n -> bits (M I T F L R B) tracked from events
  int send_pid = 0, clean_pid = 0, send_incarnation = 0;
  bool send_exiting = false; bool send_term_seen = false;
  bool had_crash = false, had_lossy_crash = false, had_proc_crash = false;
  bool io_faults_in_daemon = false;
  int outstanding_count[2] = {0, 0};
  std::set<int> delnum_used[2]; std::string cmdbuf[2], repbuf[2]; bool greeted[2] = {false, false}; std::map<int, std::string> floating[2];
  int eff_conc[2] = {0, 0};
  // bounce injection tracking (qmail-send's injectbounce is synchronous)
  uint64_t bounce_open_n = 0; int bounce_child_pid = 0; int bounce_child_status = -1; bool bounce_child_seen = false;
  uint64_t events_since_scan = 0;
  // C16 / C15 ghosts live in q_time.cc
  struct TimeGhost *tg = nullptr;
  // second daemon
  int second_pid = 0; bool second_got_lock = false; bool second_mutated = false; int second_status = -1;

  ~WorldQ() override;
  void setup() override;
  void driver() override;
  void finish() override;
  void on_event(const Event &e) override;
  void on_idle(int64_t from, int64_t to) override;

  // helpers
  std::string qp(const std::string &dir, uint64_t n, bool splitdir) const;
  uint8_t scan_pattern(uint64_t n);
  bool parse_qpath(const std::string &canon, std::string &dir, uint64_t &n) const;
  void check_pattern(uint64_t n, const char *when);
  void full_scan_check(const char *when);
  void on_queue_event(const Event &e);
  void on_send_event(const Event &e);
  void on_clean_event(const Event &e);
  void on_command(const SpawnCmd &c);
  void on_report(int chan, int delnum, const std::string &text, bool wellformed);
  void preprocess_done(GMsg *m);
  void after_crash();
  GMsg *new_auto_msg(uint64_t n, int pid);
  void check_publication(GMsg *m, const Event &e);
  int expected_exit(const std::string &env_raw, size_t *consumed = nullptr) const;
  void op_boot(); void op_inject(const Json &op); void op_settle(int64_t max_s);
  bool queue_empty();
  int spawner_stub(int chan);
  void plant(const Json &op);
  void finish_c01(); void finish_c03(); void finish_c15(); void finish_c04();
  int stub_unanswered[2] = {0, 0};   // commands a spawner stub has read and not yet answered
  int64_t term_t = -1;               // when the running daemon got SIGTERM
  // a daemon that got TERM long ago, has nothing outstanding at the spawners and is still there is not "stopping": it is stuck, and the
  // progress clauses apply to it like to any running daemon
  bool term_excuses() const { if (!send_term_seen) return false; bool stuck = send_pid && term_t >= 0 && k->clock - term_t > 20000 && stub_unanswered[0] == 0 && stub_unanswered[1] == 0; return !stuck; }
  bool enabled(const std::string &oracle) const;
  std::set<std::string> oracles_off, oracles_on;
  // C10: configuration in force (what the daemon last read successfully)
  RouteConf rc_force, rc_cand; bool rc_valid = false, rc_reading = false, rc_failed = false, rc_seen_locals = false, rc_seen_vdoms = false; std::string rc_me; int rc_hup_pid = 0; bool rc_hup_owed = false; int rc_hup_selects = 0;   // a HUP whose handler ran obliges this daemon process to start a reread
  void c10_on_send_event(const Event &e); void c10_check_preprocessed(GMsg *m); void c10_check_command(const SpawnCmd &c, GMsg *m);
  // C14 reference configuration
  std::map<std::string, std::string> vdoms_ref; std::string bfrom = "MAILER-DAEMON", bhost = "sim.example", dbto = "postmaster", dbhost = "sim.example"; int note_counter = 0;
  std::string strip_prepend(const std::string &recip) const; void check_bounce(GMsg *b); void finish_c14();
};

// bit positions in pattern
enum { QB_M = 1, QB_I = 2, QB_T = 4, QB_F = 8, QB_L = 16, QB_R = 32, QB_B = 64 };

}  // namespace sim

// q_c14.cc - bounce parser over every message qmail-send queues (C14)
// Reference written from qmail-send(8)/envelopes(5)/addresses(5): who gets the bounce, with which envelope sender,
// one paragraph per failed recipient (prepend stripped), the original message appended, chain bounded by the double bounce.
#include "q.h"
#include <time.h>
#include <algorithm>

namespace sim {

static bool plain(const std::string &s) {
  if (s.empty()) return false;
  for (unsigned char c : s) if (!(isalnum(c) || c == '.' || c == '@' || c == '=' || c == '_' || c == '-')) return false;
  if (s.find("..") != std::string::npos || s[0] == '.') return false;
  size_t at = s.rfind('@'); if (at != std::string::npos && at > 0 && s[at - 1] == '.') return false;
  return true;
}

static std::string lower(std::string s) { for (auto &c : s) c = (char)tolower((unsigned char)c); return s; }

// addresses(5)/qmail-send(8): strip the virtual-domain prepend that controls this address
std::string WorldQ::strip_prepend(const std::string &recip) const {
  size_t at = recip.rfind('@'); if (at == std::string::npos) return recip;
  std::string dom = lower(recip.substr(at + 1));
  for (size_t i = 0; i <= dom.size(); i++) {
    if (!(i == 0 || i == dom.size() || dom[i] == '.')) continue;
    auto it = vdoms_ref.find(dom.substr(i));
    if (it == vdoms_ref.end()) continue;
    const std::string &pre = it->second;
    if (pre.empty()) break;
    if (recip.compare(0, pre.size(), pre) != 0) break;
    if (recip.size() <= pre.size() || recip[pre.size()] != '-') break;
    return recip.substr(pre.size() + 1);
  }
  return recip;
}

void WorldQ::check_bounce(GMsg *b) {
  if (enabled("c03") || enabled("c14")) {
    // C03/C14: which of the recorded failures does the queued bounce actually name, with its reason?
    auto oi = bynum.find(strtoull(b->bounce_of.c_str(), 0, 10)); Inode *bm = k->lookup(qp("mess", b->num, true));
    if (oi != bynum.end() && bm) for (auto &r : oi->second->rc) if (r.noted) {
      std::string a = strip_prepend(r.addr); for (auto &c : a) if (c == '\n') c = '_';
      // (after a crash that lost unsynced data the record may hold garbage before the note: bounce/n is documented as not crash-proof)
      std::string head = std::string(had_lossy_crash ? "" : "\n") + "<" + a + ">:\n"; size_t pos = bm->data.find(head);
      r.named = false;
      for (; pos != std::string::npos && !r.named; pos = bm->data.find(head, pos + 1)) {   // a recipient retried after a crash can have an older paragraph as well
        if (r.last_verdict != 'D' || had_lossy_crash || !junk[0].empty() || !junk[1].empty()) { r.named = true; break; }   // (with a hostile peer on the report channel the attribution of texts to recipients is ambiguous: the name is required, the text is not compared)
        size_t s0 = pos + head.size(), e0 = bm->data.find("\n\n", s0 ? s0 - 1 : 0); std::string got = bm->data.substr(s0, e0 == std::string::npos || e0 < s0 ? 0 : e0 - s0);
        std::string a1, b1; for (char c : r.fail_text) if (c != '\n' && c != '/') a1 += c; for (char c : got) if (c != '\n' && c != '/') b1 += c;
        if (a1 == b1 || (std::min(a1.size(), b1.size()) >= 5000 && a1.compare(0, std::min(a1.size(), b1.size()), b1, 0, std::min(a1.size(), b1.size())) == 0)) r.named = true;   // reports are cut at REPORTMAX (10000) bytes
      }
      k->probe("c03_bounce_naming_checked");
    }
  }
  if (!enabled("c14")) return;
  uint64_t on = strtoull(b->bounce_of.c_str(), 0, 10);
  auto it = bynum.find(on);
  if (it == bynum.end()) { violate("C14.bounce-for-unknown-message", "bounce " + b->id + " refers to msg " + b->bounce_of); return; }
  GMsg *o = it->second;
  Inode *mi = k->lookup(qp("mess", b->num, true)), *ti = k->lookup(qp("todo", b->num, false)), *omi = k->lookup(qp("mess", on, true));
  if (!mi || !ti || !omi) { violate("C14.bounce-files-missing", b->id); return; }
  res->nontrivial = true; k->probe("bounce_parsed");
  std::string osender = o->info_sender;
  // --- envelope
  std::string env = ti->data; std::vector<std::string> recs; { size_t i = 0; while (i < env.size()) { size_t z = env.find('\0', i); if (z == std::string::npos) break; recs.push_back(env.substr(i, z - i)); i = z + 1; } }
  std::string esender = "?"; std::vector<std::string> ercpt;
  for (auto &r : recs) { if (!r.empty() && r[0] == 'F') esender = r.substr(1); else if (!r.empty() && r[0] == 'T') ercpt.push_back(r.substr(1)); }
  if (osender == "#@[]") { violate("C14.bounce-of-double-bounce", "a bounce was queued for msg " + std::to_string(on) + " whose sender is #@[] (a failing double bounce must be discarded)"); return; }
  bool dbl = osender.empty();
  std::string want_sender = dbl ? "#@[]" : "";
  std::string want_rcpt = osender;
  if (!dbl && osender.size() >= 4 && osender.compare(osender.size() - 4, 4, "-@[]") == 0) want_rcpt = osender.substr(0, osender.size() - 4);
  if (dbl) want_rcpt = dbto + "@" + dbhost;
  if (esender != want_sender) { violate("C14.bounce-envelope-sender", "bounce of msg " + std::to_string(on) + " (sender \"" + printable(osender) + "\") has envelope sender \"" + printable(esender) + "\", expected \"" + want_sender + "\""); return; }
  if (ercpt.size() != 1 || ercpt[0] != want_rcpt) { violate("C14.bounce-recipient", "bounce of msg " + std::to_string(on) + " goes to \"" + (ercpt.empty() ? std::string("<none>") : printable(ercpt[0])) + "\" (" + std::to_string(ercpt.size()) + " recipients), expected \"" + printable(want_rcpt) + "\""); return; }
  o->bounces_sent++;
  // "bounces go back once": a second bounce for the same message is excusable only after something failed for real (a crash, a
  // failing call, a fault inside the injecting child); an interrupted wait is not a failure
  if (o->bounces_sent > 1 && !had_crash && !had_proc_crash) { bool excuse = false; for (auto &f : k->faults) if (f.fired && (f.kind == "error" || f.kind == "short" || f.kind == "kill" || f.kind == "crash" || f.kind == "null" || f.kind == "stall")) excuse = true;
    if (!excuse) { violate("C14.bounce-sent-twice", "a second bounce was queued for msg " + std::to_string(on) + " (sender \"" + printable(osender) + "\") although nothing failed"); return; } }
  // --- body
  const std::string &body = mi->data;
  size_t p = body.find('\n'); if (p == std::string::npos || body.compare(0, 17, "Received: (qmail ") != 0) { violate("C14.bounce-format", "no Received line"); return; }
  std::string rest = body.substr(p + 1);
  auto eat = [&](const std::string &lit, const char *what) { if (rest.compare(0, lit.size(), lit) != 0) { violate("C14.bounce-format", std::string("expected ") + what + " \"" + printable(lit, 80) + "\" but found \"" + printable(rest.substr(0, 80), 100) + "\""); return false; } rest.erase(0, lit.size()); return true; };
  if (rest.compare(0, 6, "Date: ") != 0) { violate("C14.bounce-format", "no Date field"); return; }
  rest.erase(0, rest.find('\n') + 1);
  if (plain(bfrom) && plain(bhost)) { if (!eat("From: " + bfrom + "@" + bhost + "\n", "From field")) return; } else rest.erase(0, rest.find('\n') + 1);
  if (plain(want_rcpt)) { if (!eat("To: " + want_rcpt + "\n", "To field")) return; } else { if (rest.compare(0, 4, "To: ") != 0) { violate("C14.bounce-format", "no To field"); return; } rest.erase(0, rest.find('\n') + 1); }
  if (!eat("Subject: failure notice\n\nHi. This is the qmail-send program at " + bhost + ".\n", "greeting")) return;
  if (!dbl) { if (!eat("I'm afraid I wasn't able to deliver your message to the following addresses.\nThis is a permanent error; I've given up. Sorry it didn't work out.\n\n", "single-bounce introduction")) return; }
  else { if (!eat("I tried to deliver a bounce message to this address, but the bounce bounced!\n\n", "double-bounce introduction")) return; }
  std::string marker = dbl ? "--- Below this line is the original bounce.\n\n" : "--- Below this line is a copy of the message.\n\n";
  // the appended original must be the tail of the bounce: locate the marker from the END
  std::string tail = marker + "Return-Path: <" + (plain(osender) || osender.empty() ? osender : std::string("\x01")) + ">\n" + omi->data;
  bool tail_exact = plain(osender) || osender.empty();
  std::string section;
  if (tail_exact) {
    if (rest.size() < tail.size() || rest.compare(rest.size() - tail.size(), tail.size(), tail) != 0) { violate("C14.original-not-appended", "bounce of msg " + std::to_string(on) + " does not end with the marker, Return-Path: <" + printable(osender) + "> and the " + std::to_string(omi->data.size()) + " bytes of the original message"); return; }
    section = rest.substr(0, rest.size() - tail.size());
  } else {
    size_t mk = rest.rfind(marker + "Return-Path: <"); if (mk == std::string::npos) { violate("C14.original-not-appended", "marker missing"); return; }
    if (rest.size() < omi->data.size() || rest.compare(rest.size() - omi->data.size(), omi->data.size(), omi->data) != 0) { violate("C14.original-not-appended", "original message bytes missing"); return; }
    section = rest.substr(0, mk);
  }
  // --- one paragraph per failed recipient
  if (had_crash || io_faults_in_daemon) return;   // bounce/n is documented as not crash-proof; paragraph accounting needs an intact record
  std::vector<GRcpt *> noted; for (auto &r : o->rc) if (r.noted) noted.push_back(&r);
  std::sort(noted.begin(), noted.end(), [](GRcpt *a, GRcpt *b2) { return a->note_seq < b2->note_seq; });
  std::vector<std::string> paras; { size_t i = 0; while (i < section.size()) { while (i < section.size() && section[i] == '\n') i++; if (i >= section.size()) break; size_t e = section.find("\n\n", i); if (e == std::string::npos) e = section.size(); paras.push_back(section.substr(i, e - i)); i = e; } }
  if (paras.size() != noted.size()) {
    std::string heads; for (auto &pp : paras) heads += "[" + printable(pp.substr(0, 40), 60) + "] ";
    violate("C14.paragraph-count", "bounce of msg " + std::to_string(on) + " names " + std::to_string(paras.size()) + " paragraphs for " + std::to_string(noted.size()) + " failed recipients: " + heads); return;
  }
  for (size_t i = 0; i < paras.size(); i++) {
    std::string a = strip_prepend(noted[i]->addr); for (auto &c : a) if (c == '\n') c = '_';
    std::string head = "<" + a + ">:\n";
    if (paras[i].compare(0, head.size(), head) != 0 && paras[i] + "\n" != head) { violate("C14.paragraph-head", "paragraph " + std::to_string(i + 1) + " of the bounce of msg " + std::to_string(on) + " starts \"" + printable(paras[i].substr(0, 60), 80) + "\", expected \"" + printable(head) + "\""); return; }
    // the failure text must be there (up to the documented blank-line breaking)
    std::string txt = noted[i]->fail_text; std::string got = paras[i].size() >= head.size() ? paras[i].substr(head.size()) : "";
    std::string a1, b1; for (char c : txt) if (c != '\n' && c != '/') a1 += c; for (char c : got) if (c != '\n' && c != '/') b1 += c;
    if (noted[i]->last_verdict == 'Z') continue;   // expiry text is appended by the daemon
    if (a1 != b1) { violate("C14.failure-text", "paragraph " + std::to_string(i + 1) + " of the bounce of msg " + std::to_string(on) + " carries \"" + printable(got, 80) + "\" (" + std::to_string(got.size()) + " bytes) for report \"" + printable(txt, 80) + "\" (" + std::to_string(txt.size()) + " bytes)"); return; }
  }
}

}  // namespace sim

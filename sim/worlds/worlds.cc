#include "../world.h"
namespace sim {
World *make_world_q();
World *make_world_h();
World *make_world_l();
World *make_world_si();
World *make_world_so();
World *make_world_p();
World *make_world_i();
World *make_world_k();
World *make_world(const std::string &name) {
  if (name == "Q") return make_world_q();
  if (name == "H") return make_world_h();
  if (name == "L") return make_world_l();
  if (name == "SI") return make_world_si();
  if (name == "SO") return make_world_so();
  if (name == "P") return make_world_p();
  if (name == "I") return make_world_i();
  if (name == "K") return make_world_k();
  return nullptr;
}
}  // namespace sim

#include "../world.h"
namespace sim {
World *make_world_q();
World *make_world(const std::string &name) {
  if (name == "Q") return make_world_q();
  return nullptr;
}
}  // namespace sim

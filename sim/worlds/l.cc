// l.cc - world L: real qmail-local (+ real qmail-queue for forwards) in a hermetic home directory with a stub /bin/sh.
// Oracles: C12 (maildir atomic / mbox rolled back) and C13 (.qmail interpretation against a reference interpreter).
#include "common.h"
#include <errno.h>
#include <fcntl.h>
#include <string.h>
#include <signal.h>
#include <sys/wait.h>
#include <algorithm>

namespace sim {

struct LAction { std::string kind, arg; std::map<std::string, std::string> env; std::string sender; std::vector<std::string> rcpts; std::string body; int code = 0; };

struct LDelivery {
  std::string id; std::vector<std::string> args;   // user home local dash ext host sender aliasempty
  std::string msg; bool dry = false;
  int pid = 0; Sink *out = nullptr; bool exited = false; int status = -1;
  std::vector<LAction> actions;
  std::vector<std::string> new_files;    // maildir entries published by this delivery (canonical paths)
  bool fault_hit = false; bool qmail_read_fault = false; bool chdir_fault = false; bool fork_fault = false; bool alloc_fault = false;
  std::string user() const { return args[0]; } std::string home() const { return args[1]; } std::string local() const { return args[2]; }
  std::string dash() const { return args[3]; } std::string ext() const { return args[4]; } std::string host() const { return args[5]; }
  std::string sender() const { return args[6]; } std::string aliasempty() const { return args[7]; }
};

// ---- reference pieces written from the documents -------------------------------------------------
static bool atom_ok(unsigned char c) {
  if (c >= 128 || c <= 32 || c == 127) return false;
  return !strchr("()<>@,;:\\\"[]", c);
}
static std::string quote_local(const std::string &s) {   // RFC 822 local-part: quote unless it is a dot-atom
  bool need = s.empty();
  for (unsigned char c : s) if (!atom_ok(c)) need = true;
  if (!need && (s[0] == '.' || s.back() == '.' || s.find("..") != std::string::npos)) need = true;
  if (!need) return s;
  std::string o = "\""; for (char c : s) { if (c == '\r' || c == '\n' || c == '"' || c == '\\') o += '\\'; o += c; } o += "\""; return o;
}
static std::string quote_addr(const std::string &a) { if (a.empty()) return a; /* the null reverse-path */ size_t at = a.rfind('@'); if (at == std::string::npos) return quote_local(a); return quote_local(a.substr(0, at)) + a.substr(at); }
static std::string nl_to_us(std::string s) { for (auto &c : s) if (c == '\n') c = '_'; return s; }
static std::string ref_rpline(const std::string &sender) { return "Return-Path: <" + nl_to_us(quote_addr(sender)) + ">\n"; }
static std::string ref_dtline(const std::string &local, const std::string &host) { return "Delivered-To: " + nl_to_us(local + "@" + host) + "\n"; }

// mbox(5) reader: split at From_ lines, strip the final blank line, remove one level of >From quoting
struct MboxEntry { std::string fromline, message; };
static bool mbox_read(const std::string &data, std::vector<MboxEntry> &out, std::string &why) {
  std::vector<std::string> lines; size_t i = 0;
  while (i < data.size()) { size_t e = data.find('\n', i); if (e == std::string::npos) { lines.push_back(data.substr(i)); why = "file does not end with a newline"; return false; } lines.push_back(data.substr(i, e - i + 1)); i = e + 1; }
  if (!lines.empty() && lines[0].compare(0, 5, "From ") != 0) { why = "file does not start with a From_ line"; return false; }
  MboxEntry cur; bool have = false;
  auto flush = [&]() -> bool {
    if (!have) return true;
    if (cur.message.size() < 1 || cur.message.back() != '\n') { why = "entry without final blank line"; return false; }
    // final blank line
    if (cur.message.size() >= 1 && (cur.message.size() == 1 || cur.message[cur.message.size() - 2] == '\n')) cur.message.pop_back(); else { why = "entry does not end with a blank line"; return false; }
    out.push_back(cur); return true;
  };
  for (auto &l : lines) {
    if (l.compare(0, 5, "From ") == 0) { if (!flush()) return false; cur = MboxEntry(); cur.fromline = l; have = true; continue; }
    size_t g = 0; while (g < l.size() && l[g] == '>') g++;
    if (g > 0 && l.compare(g, 5, "From ") == 0) cur.message += l.substr(1); else cur.message += l;
  }
  return flush();
}

struct WorldL : World {
  QmailTree t;
  std::vector<LDelivery *> dels; std::map<int, LDelivery *> bypid;
  std::string mbox_path; std::string mbox_initial;
  std::set<Inode *> published;          // maildir files visible in new/
  std::map<Inode *, LDelivery *> tmp_owner; std::map<int, std::string> pending_md;
  bool c12, c13; bool had_crash = false;
  uint32_t patrn = 002;
  Sink *errs = nullptr;
  struct ShRun { int pid; std::string prog; std::map<std::string, std::string> env; LDelivery *d; };

  ~WorldL() override { for (auto *d : dels) delete d; }

  void setup() override {
    t.build(k, conf);
    patrn = (uint32_t)strtoul(conf.gets("patrn", "002").c_str(), 0, 8);
    c12 = c13 = true;
    if (plan->knobs.has("oracles")) { c12 = c13 = false; for (auto &o : plan->knobs["oracles"].a) { if (o.str() == "c12") c12 = true; if (o.str() == "c13") c13 = true; } }
    errs = k->new_sink("stderr");
    k->put_exec(t.home + "/bin/qmail-local", "qmail-local", 0711);
    k->put_exec(t.home + "/bin/qmail-queue", "qmail-queue", 04711, t.uids["qmailq"], t.gid_qmail);
    k->put_exec("/bin/sh", "stub:sh", 0755);
    k->natives["sh"] = [this](int argc, char **argv) { return sh_main(argc, argv); };
    k->passwd.push_back(PwEnt{"user1", 1001, 1001, "/home/user1", "/bin/sh"});
    const Json &h = plan->knobs["home"];
    std::string hp = h.gets("path", "/home/user1");
    Inode *hd = k->mkdir_p(hp, (uint32_t)h.geti("mode", 0755), 1001, 1001); hd->mode = (uint32_t)h.geti("mode", 0755);
    for (auto &f : h["files"].a) {
      std::string p = hp + "/" + f.gets("name");
      if (f.getb("dir", false)) { Inode *d = k->mkdir_p(p, (uint32_t)f.geti("mode", 0700), 1001, 1001); (void)d; }
      else k->put_file(p, f.gets("content"), (uint32_t)f.geti("mode", 0600), 1001, 1001);
    }
    for (auto &m : h["maildirs"].a) for (const char *s : {"/tmp", "/new", "/cur"}) k->mkdir_p(hp + "/" + m.str() + s, 0700, 1001, 1001);
    if (h.has("mbox")) { mbox_path = hp + "/" + h.gets("mbox"); mbox_initial = h.gets("mbox_initial"); k->put_file(mbox_path, mbox_initial, 0600, 1001, 1001); }
    if (h.has("precreate_tmp")) for (auto &n : h["precreate_tmp"].a) k->put_file(hp + "/" + n.str(), "collision", 0600, 1001, 1001);
  }

  // ---- stub /bin/sh: "exit N; sleep N; cat>>FILE; readall; kill; echo TEXT"
  int sh_main(int argc, char **argv) {
    Proc *p = k->cp();
    std::string prog = argc >= 3 ? argv[2] : "";
    LDelivery *d = nullptr; { Proc *q = p; for (int hop = 0; hop < 4 && q; hop++) { auto it = bypid.find(q->pid); if (it != bypid.end()) { d = it->second; break; } q = k->find_proc(q->ppid); } }
    LAction a; a.kind = "program"; a.arg = prog;
    for (auto &e : p->env_s) { size_t eq = e.find('='); if (eq != std::string::npos) a.env[e.substr(0, eq)] = e.substr(eq + 1); }
    a.env["@uid"] = std::to_string(p->uid); a.env["@cwd"] = p->cwd_path;
    int code = 0; size_t i = 0;
    while (i <= prog.size()) {
      size_t e = prog.find(';', i); if (e == std::string::npos) e = prog.size();
      std::string c = prog.substr(i, e - i); i = e + 1;
      while (!c.empty() && c[0] == ' ') c.erase(0, 1);
      if (c.compare(0, 5, "exit ") == 0) { code = atoi(c.c_str() + 5); break; }
      else if (c.compare(0, 6, "sleep ") == 0) k->sys_sleep((unsigned)atoi(c.c_str() + 6));
      else if (c == "kill") { a.code = -9; if (d) d->actions.push_back(a); k->kill_proc(p, 9); }
      else if (c.compare(0, 5, "cat>>") == 0 || c == "readall") {
        std::string data; char b[512]; for (;;) { ssize_t n = k->sys_read(0, b, sizeof b); if (n <= 0) break; data.append(b, (size_t)n); }
        a.body = data;
        if (c[0] == 'c') { int fd = k->sys_open(c.c_str() + 5, O_WRONLY | O_APPEND | O_CREAT, 0600); if (fd >= 0) { k->sys_write(fd, data.data(), data.size()); k->sys_close(fd); } else code = 111; }
      }
      else if (c.compare(0, 5, "echo ") == 0) { std::string s = c.substr(5) + "\n"; k->sys_write(1, s.data(), s.size()); }
    }
    a.code = code; if (d) d->actions.push_back(a);
    return code;
  }

  void driver() override {
    for (auto &op : plan->ops.a) {
      if (k->stop) break;
      std::string o = op.gets("op");
      if (o == "deliver") {
        LDelivery *d = new LDelivery; d->id = op.gets("id", "d" + std::to_string(dels.size() + 1));
        d->args = {op.gets("user", "user1"), op.gets("home", "/home/user1"), op.gets("local", "user1"), op.gets("dash", ""), op.gets("ext", ""), op.gets("host", "l.example"), op.gets("sender", "s@x.example"), op.gets("aliasempty", "./Mailbox")};
        d->msg = op.has("msg") ? op.gets("msg") : gen_body((uint64_t)op.geti("body_seed", 1), (size_t)op.geti("body_len", 100));
        d->dry = op.getb("n", false);
        d->out = k->new_sink("out:" + d->id);
        uint64_t n = 500 + dels.size();
        std::string mp = t.qp("mess", n, true);
        k->put_file(mp, d->msg, 0644, t.uids["qmailq"], t.gid_qmail);
        std::vector<std::string> argv = {"qmail-local"}; if (d->dry) argv.push_back("-n"); argv.push_back("--"); for (auto &a : d->args) argv.push_back(a);
        std::vector<Kernel::FdSpec> fds = {{0, k->of_file(mp, O_RDONLY)}, {1, k->of_sink(d->out)}, {2, k->of_sink(d->out)}};
        d->pid = k->spawn(k->cp(), t.home + "/bin/qmail-local", argv, {"PATH=/bin"}, fds, (uint32_t)op.geti("uid", 1001), 1001, "/", d->id);
        dels.push_back(d); bypid[d->pid] = d;
        if (op.getb("wait", false)) { int pid = d->pid; k->block([this, pid] { Proc *p = k->find_proc(pid); return !p || p->st != Proc::LIVE; }, k->clock + 200000, false); }
      } else if (o == "yield") { for (int64_t i = 0; i < op.geti("n", 1); i++) k->yield_point(); }
      else if (o == "sleep") k->block([] { return false; }, k->clock + op.geti("s", 1), false);
      else if (o == "wait_all") { k->block([this] { for (auto *d : dels) { Proc *p = k->find_proc(d->pid); if (p && p->st == Proc::LIVE) return false; } return true; }, k->clock + op.geti("max_s", 200000), false, true); }
    }
    k->block([this] { for (auto &pp : k->procs) if (pp.second->st == Proc::LIVE && !pp.second->immortal) return false; return true; }, k->clock + 200000, false, true);
    k->stop = true;
  }

  LDelivery *owner(Proc *p) { for (int hop = 0; hop < 5 && p; hop++) { auto it = bypid.find(p->pid); if (it != bypid.end()) return it->second; p = k->find_proc(p->ppid); } return nullptr; }

  std::string expected_maildir_file(LDelivery *d) { return ref_rpline(d->sender()) + ref_dtline(d->local(), d->host()) + d->msg; }

  void on_event(const Event &e) override {
    Proc *p = e.proc; if (!p) return;
    if (e.call == C_CRASH) { had_crash = true; check_new_dirs_after_crash(); return; }
    if (e.call == C_FORK && e.ret > 0) { LDelivery *d = owner(p); if (d) bypid[(int)e.ret] = d; return; }
    LDelivery *d = owner(p); if (!d) return;
    if (e.injected) d->fault_hit = true;
    if (e.injected && e.call == C_CHDIR) d->chdir_fault = true;
    if (e.injected && e.call == C_MALLOC) d->alloc_fault = true;
    if (e.injected && (e.call == C_FORK || e.call == C_PIPE) && e.proc && e.proc->role == "qmail-local") d->fork_fault = true;
    if (e.injected && e.call == C_READ && e.path.find("/.qmail") != std::string::npos) d->qmail_read_fault = true;
    bool is_child = p->role == "qmail-local/child";
    if (p->role == "qmail-local" && e.call == C_EXIT && e.pid == d->pid) { d->exited = true; d->status = (int)e.a; on_delivery_exit(d); return; }
    // a child of qmail-local that changes directory is either the maildir writer or the qmail-queue launcher (which execs)
    if (is_child && e.call == C_CHDIR && p->ppid == d->pid) { pending_md[e.pid] = e.ret == 0 ? e.path : "?"; }
    if (e.call == C_EXEC) pending_md.erase(e.pid);
    if (is_child && (e.call == C_ALARM || e.call == C_EXIT) && pending_md.count(e.pid)) { LAction a; a.kind = "maildir"; a.arg = pending_md[e.pid]; d->actions.push_back(a); pending_md.erase(e.pid); }
    if (p->role == "qmail-local" && e.call == C_OPEN && (e.a & O_APPEND)) { LAction a; a.kind = "mbox"; a.arg = e.ret >= 0 ? e.path : "?"; d->actions.push_back(a); }
    if (is_child && e.call == C_OPEN && (e.b & (1 << 20)) && e.path.find("/tmp/") != std::string::npos && e.ino) {
      tmp_owner[e.ino] = d;
      if (c12) { // names: time.pid.host
        std::string nm = e.path.substr(e.path.rfind('/') + 1); size_t d1 = nm.find('.'), d2 = nm.find('.', d1 + 1);
        bool ok = d1 != std::string::npos && d2 != std::string::npos && nm.substr(0, d1) == std::to_string(k->clock) && nm.substr(d1 + 1, d2 - d1 - 1) == std::to_string(p->pid) && nm.substr(d2 + 1) == k->hostname;
        if (!ok) violate("C12.maildir-name", "temporary file " + nm + " is not time.pid.host (" + std::to_string(k->clock) + "." + std::to_string(p->pid) + "." + k->hostname + ")");
      }
    }
    if (e.call == C_LINK && e.ret == 0 && e.path2.find("/new/") != std::string::npos && e.ino) {
      published.insert(e.ino); d->new_files.push_back(e.path2); res->nontrivial = true;
      if (c12) {
        std::string want = expected_maildir_file(d);
        if (e.ino->synced != want) { size_t df = 0; while (df < want.size() && df < e.ino->synced.size() && want[df] == e.ino->synced[df]) df++;
          violate("C12.maildir-incomplete-visible", e.path2 + " became visible with " + std::to_string(e.ino->synced.size()) + " durable bytes (current " + std::to_string(e.ino->data.size()) + "), the complete message has " + std::to_string(want.size()) + "; first difference at " + std::to_string(df) + ": \"" + printable(e.ino->synced.substr(df, 30)) + "\" vs \"" + printable(want.substr(df, 30)) + "\""); }
        else if (e.ino->data != want) violate("C12.maildir-content", e.path2 + " differs from Return-Path + Delivered-To + message");
      }
    }
    if (c12 && (e.call == C_WRITE || e.call == C_FTRUNCATE) && e.ret >= 0 && e.ino && published.count(e.ino) && (e.call == C_FTRUNCATE || e.ret > 0)) violate("C12.maildir-modified-after-publication", e.path);
    // forwards: the envelope and body as they land in the queue
    if (p->role == "qmail-queue" && e.call == C_LINK && e.ret == 0 && e.path2.find("/queue/todo/") != std::string::npos && e.ino) {
      LAction a; a.kind = "forward"; const std::string &env = e.ino->data; size_t i = 0;
      while (i < env.size()) { size_t z = env.find('\0', i); if (z == std::string::npos) break; std::string r = env.substr(i, z - i); if (!r.empty() && r[0] == 'F') a.sender = r.substr(1); else if (!r.empty() && r[0] == 'T') a.rcpts.push_back(r.substr(1)); i = z + 1; }
      uint64_t n = strtoull(e.path2.substr(e.path2.rfind('/') + 1).c_str(), 0, 10); Inode *mi = k->lookup(t.qp("mess", n, true));
      if (mi) { size_t nl = mi->data.find('\n'); a.body = nl == std::string::npos ? "" : mi->data.substr(nl + 1); }
      d->actions.push_back(a);
    }
  }

  void check_new_dirs_after_crash() {
    if (!c12) return;
    // every entry of any new/ must be a complete message of some delivery
    const Json &h = plan->knobs["home"]; std::string hp = h.gets("path", "/home/user1");
    for (auto &m : h["maildirs"].a) for (auto &nm : k->listdir(hp + "/" + m.str() + "/new")) {
      Inode *f = k->lookup(hp + "/" + m.str() + "/new/" + nm); if (!f) continue; bool ok = false;
      for (auto *d : dels) if (f->data == expected_maildir_file(d)) ok = true;
      if (!ok) violate("C12.maildir-incomplete-after-crash", "new/" + nm + " holds " + std::to_string(f->data.size()) + " bytes after the crash: not a complete delivered message");
    }
  }

  // ---------------------------------------------------------------- C13 reference interpreter
  struct RefResult { int code = 0; std::vector<LAction> actions; std::string file; bool has_default = false; std::string deflt; std::vector<std::string> dry_lines; bool indeterminate = false; };

  Inode *home_file(LDelivery *d, const std::string &name) { return k->lookup(d->home() + "/" + name); }

  RefResult ref_interpret(LDelivery *d) {
    RefResult R; bool doit = !d->dry;
    Inode *hd = k->lookup(d->home());
    if (!hd || hd->type != T_DIR) { R.code = 111; return R; }
    if (hd->mode & patrn) { R.code = 111; return R; }
    if ((hd->mode & 01000) && doit) { R.code = 111; return R; }
    std::string dt = ref_dtline(d->local(), d->host());
    if (doit) {   // loop detection: header only
      size_t i = 0; const std::string &m = d->msg;
      while (i < m.size()) { size_t e = m.find('\n', i); if (e == std::string::npos) break; std::string line = m.substr(i, e - i + 1); if (line.size() <= 1) break; if (line == dt) { R.code = 100; return R; } i = e + 1; }
    }
    std::string safe = d->ext(); for (auto &c : safe) { c = (char)tolower((unsigned char)c); if (c == '.') c = ':'; }
    auto usable = [&](const std::string &name, bool &writable, bool &cut) -> bool { Inode *f = home_file(d, name); if (!f || f->type != T_REG) return false; writable = (f->mode & patrn) != 0; cut = (f->mode & 0100) != 0; return true; };
    std::string chosen; bool found = false, wr = false, cut = false;
    if (safe.find('/') != std::string::npos) R.indeterminate = true;   // slash in the extension: lookup leaves the flat name space of the model
    std::string exact = ".qmail" + d->dash() + safe;
    if (usable(exact, wr, cut)) { found = true; chosen = exact; if (safe.size() >= 7 && safe.compare(safe.size() - 7, 7, "default") == 0) { R.has_default = true; R.deflt = d->ext().substr(safe.size() - 7); } }
    else for (int i = (int)safe.size(); i >= 0 && !found; --i) if (i == 0 || safe[(size_t)i - 1] == '-') {
      std::string nm = ".qmail" + d->dash() + safe.substr(0, (size_t)i) + "default";
      if (usable(nm, wr, cut)) { found = true; chosen = nm; R.has_default = true; R.deflt = d->ext().substr((size_t)i); }
    }
    if (found && wr) { R.code = 111; return R; }
    if (!found && !d->dash().empty()) { R.code = 100; return R; }
    R.file = chosen;
    std::string newsender = d->sender();
    if (!d->sender().empty() && d->sender() != "#@[]") {
      Inode *o1 = home_file(d, ".qmail" + d->dash() + safe + "-owner");
      if (o1) { Inode *o2 = home_file(d, ".qmail" + d->dash() + safe + "-owner-default"); newsender = o2 ? d->local() + "-owner-@" + d->host() + "-@[]" : d->local() + "-owner@" + d->host(); }
    }
    std::string cmds = found ? home_file(d, chosen)->data : ""; bool fwdonly = found ? cut : false;
    if (cmds.empty()) { cmds = d->aliasempty(); fwdonly = false; }
    if (cmds.empty() || cmds.back() != '\n') cmds += "\n";
    if (cmds.find('\0') != std::string::npos) R.indeterminate = true;
    std::vector<std::string> fwd; size_t i = 0; bool first = true; int nfile = 0, nprog = 0, nfwd = 0;
    std::map<std::string, std::string> env;
    env["SENDER"] = d->sender(); env["NEWSENDER"] = newsender; env["RECIPIENT"] = d->local() + "@" + d->host(); env["USER"] = d->user(); env["HOME"] = d->home(); env["HOST"] = d->host(); env["LOCAL"] = d->local(); env["EXT"] = d->ext();
    env["DTLINE"] = dt; env["RPLINE"] = ref_rpline(d->sender());
    { std::string x = d->ext(); for (int q = 2; q <= 4; q++) { size_t ds = x.find('-'); x = ds == std::string::npos ? "" : x.substr(ds + 1); env["EXT" + std::to_string(q)] = x; } }
    { std::string hs = d->host(); for (int q = 2; q <= 4; q++) { size_t dp = hs.rfind('.'); hs = dp == std::string::npos ? hs : hs.substr(0, dp); env["HOST" + std::to_string(q)] = hs; } }
    if (R.has_default) env["DEFAULT"] = R.deflt;
    while (i < cmds.size()) {
      size_t e = cmds.find('\n', i); std::string line = cmds.substr(i, e - i); i = e + 1;
      while (!line.empty() && (line.back() == ' ' || line.back() == '\t')) line.pop_back();
      bool was_first = first; first = false;
      if (line.empty()) { if (was_first) { R.code = 111; return R; } continue; }
      char c0 = line[0];
      if (c0 == '#') continue;
      if (c0 == '.' || c0 == '/') {
        nfile++; if (fwdonly) { R.code = 111; return R; }
        LAction a; a.kind = line.back() == '/' ? "maildir" : "mbox"; a.arg = line;
        if (doit) { R.actions.push_back(a);
          // does the target exist? a missing maildir or an unwritable place is a temporary failure
          std::string path = line[0] == '/' ? line : d->home() + "/" + line;
          if (a.kind == "maildir") { Inode *md = k->lookup(path.substr(0, path.size() - 1)); Inode *tm = md ? k->lookup(path + "tmp") : nullptr; Inode *nw = md ? k->lookup(path + "new") : nullptr; if (!md || md->type != T_DIR || !tm || !nw) { R.code = 111; return R; } }
          else { std::string dir = path.substr(0, path.rfind('/')); Inode *dd = k->lookup(dir.empty() ? "/" : dir); if (!dd || dd->type != T_DIR) { R.code = 111; return R; } Inode *f = k->lookup(path); if (f && f->type == T_DIR) { R.code = 111; return R; } }
        } else R.dry_lines.push_back((a.kind == "maildir" ? "maildir " : "mbox ") + line);
        continue;
      }
      if (c0 == '|') {
        nprog++; if (fwdonly) { R.code = 111; return R; }
        std::string prog = line.substr(1);
        if (!doit) { R.dry_lines.push_back("program " + prog); continue; }
        LAction a; a.kind = "program"; a.arg = prog; a.env = env; R.actions.push_back(a);
        // what will the stub do?
        int code = 0; bool killed = false; size_t q = 0;
        while (q <= prog.size()) { size_t s = prog.find(';', q); if (s == std::string::npos) s = prog.size(); std::string c = prog.substr(q, s - q); q = s + 1; while (!c.empty() && c[0] == ' ') c.erase(0, 1); if (c.compare(0, 5, "exit ") == 0) { code = atoi(c.c_str() + 5) & 0xff; break; } if (c == "kill") { killed = true; break; } }
        if (killed) { R.code = 111; return R; }
        if (code == 0) continue;
        if (code == 99) break;
        if (code == 100 || code == 64 || code == 65 || code == 70 || code == 76 || code == 77 || code == 78 || code == 112) { R.code = 100; return R; }
        R.code = 111; return R;
      }
      if (c0 == '+') { if (line == "+list") fwdonly = true; continue; }
      std::string r = c0 == '&' ? line.substr(1) : line;
      nfwd++;
      if (doit) fwd.push_back(r); else R.dry_lines.push_back("forward " + r);
    }
    if (!fwd.empty() && doit) {
      LAction a; a.kind = "forward"; a.sender = newsender; a.rcpts = fwd; a.body = dt + d->msg; R.actions.push_back(a);
      for (auto &r : fwd) if (r.size() >= 1003 || r.empty()) R.indeterminate = true;   // qmail-queue refuses over-long addresses; outcome classes differ
    }
    R.dry_lines.push_back("did " + std::to_string(nfile) + "+" + std::to_string(nfwd) + "+" + std::to_string(nprog));
    R.code = 0; return R;
  }

  void on_delivery_exit(LDelivery *d) {
    int code = (d->status >> 8) & 0xff; bool sig = (d->status & 0x7f) != 0;
    // the instruction file could not be read: nothing of it may be acted on and the delivery is deferred
    if (c13 && d->qmail_read_fault && !had_crash) {
      res->nontrivial = true; k->probe("dotqmail_read_error");
      if (sig || code != 111 || !d->actions.empty()) { std::string acts; for (auto &a : d->actions) acts += a.kind + "(" + printable(a.arg, 30) + ") "; violate("C13.read-error-not-deferred", d->id + ": reading the .qmail file failed, qmail-local exited " + std::to_string(code) + " after { " + acts + "}; expected a temporary failure with nothing executed"); return; }
    }
    // no process (or no pipe) for an instruction that needs one: the delivery is deferred at that instruction - what ran before it ran as
    // documented, nothing after it runs, and it is not reported as done
    if (c13 && d->fork_fault && !had_crash) {
      RefResult R = ref_interpret(d); res->nontrivial = true; k->probe("fork_failure_in_delivery");
      if (!R.indeterminate) {
        if (sig || code != 111) { violate("C13.fork-failure-not-deferred", d->id + ": fork or pipe failed inside qmail-local, which exited " + std::to_string(code) + " (\"" + printable(d->out->data, 80) + "\") after " + std::to_string(d->actions.size()) + " actions"); return; }
        bool prefix = d->actions.size() <= R.actions.size(); for (size_t q = 0; prefix && q < d->actions.size(); q++) if (d->actions[q].kind != R.actions[q].kind) prefix = false;
        if (!prefix) { violate("C13.instruction-sequence", d->id + ": after a failing fork the executed instructions are not a prefix of the documented sequence"); return; }
      }
    }
    // out of memory somewhere in the delivery: either it did not matter (the documented outcome, completely), or the delivery is deferred
    // at that point - what ran before ran as documented, nothing else runs, and it is not reported as done or as failed for good
    if (c13 && d->alloc_fault && !d->fork_fault && !d->chdir_fault && !d->qmail_read_fault && !had_crash) {
      RefResult R = ref_interpret(d); res->nontrivial = true; k->probe("alloc_failure_in_delivery");
      if (!R.indeterminate && !sig) {
        bool same = code == R.code && d->actions.size() == R.actions.size(); for (size_t q = 0; same && q < d->actions.size(); q++) if (d->actions[q].kind != R.actions[q].kind) same = false;
        bool prefix = d->actions.size() <= R.actions.size(); for (size_t q = 0; prefix && q < d->actions.size(); q++) if (d->actions[q].kind != R.actions[q].kind) prefix = false;
        if (!same && !(code == 111 && prefix)) { std::string a, b; for (auto &x : d->actions) a += x.kind + " "; for (auto &x : R.actions) b += x.kind + " "; violate("C13.alloc-failure-not-deferred", d->id + ": an allocation failed inside the delivery, which exited " + std::to_string(code) + " having executed { " + a + "}; the documents give exit " + std::to_string(R.code) + " after { " + b + "}"); return; }
      }
    }
    // the home directory could not be entered (file server away, permissions): temporary failure, nothing acted on
    if (c13 && d->chdir_fault && !had_crash) { res->nontrivial = true; k->probe("home_unreachable"); if (sig || code != 111 || !d->actions.empty()) { violate("C13.home-unreachable-not-deferred", d->id + ": chdir to the home directory failed, qmail-local exited " + std::to_string(code) + " after " + std::to_string(d->actions.size()) + " actions"); return; } }
    if (c13 && !d->fault_hit && !had_crash) {
      RefResult R = ref_interpret(d);
      k->probe("dotqmail_interpreted");
      if (!R.indeterminate) {
        res->nontrivial = true;
        std::string ctx = d->id + " (ext \"" + printable(d->ext()) + "\", dash \"" + d->dash() + "\", file " + (R.file.empty() ? "<none>" : R.file) + ")";
        if (sig) { violate("C13.crashed", ctx + ": qmail-local died from a signal"); return; }
        if (code != R.code) { violate("C13.exit-code", ctx + ": qmail-local exited " + std::to_string(code) + " (\"" + printable(d->out->data, 100) + "\"), the documents give " + std::to_string(R.code)); return; }
        // compare the executed instruction sequence; on failure only the prefix up to the failing instruction is fixed
        size_t n = R.actions.size();
        if (d->actions.size() != n) {
          std::string a, b; for (auto &x : d->actions) a += x.kind + "(" + printable(x.arg, 30) + ") "; for (auto &x : R.actions) b += x.kind + "(" + printable(x.arg, 30) + ") ";
          violate("C13.instruction-sequence", ctx + ": executed { " + a + "}, the documents give { " + b + "}"); return;
        }
        for (size_t i = 0; i < n; i++) {
          const LAction &g = d->actions[i], &w = R.actions[i];
          if (g.kind != w.kind) { violate("C13.instruction-sequence", ctx + ": instruction " + std::to_string(i + 1) + " ran as " + g.kind + ", expected " + w.kind); return; }
          if (w.kind == "program") {
            if (g.arg != w.arg) { violate("C13.program-command", ctx + ": sh -c \"" + printable(g.arg) + "\", expected \"" + printable(w.arg) + "\""); return; }
            for (auto &ev : w.env) { auto it = g.env.find(ev.first); if (it == g.env.end() || it->second != ev.second) { violate("C13.program-environment", ctx + ": $" + ev.first + " is " + (it == g.env.end() ? std::string("unset") : "\"" + printable(it->second) + "\"") + ", expected \"" + printable(ev.second) + "\""); return; } }
            if (!w.env.count("DEFAULT") && g.env.count("DEFAULT")) { violate("C13.program-environment", ctx + ": $DEFAULT is set to \"" + printable(g.env.at("DEFAULT")) + "\" although the file name does not end in default"); return; }
            if (g.env.at("@cwd") != d->home()) { violate("C13.program-environment", ctx + ": program ran in " + g.env.at("@cwd")); return; }
          } else if (w.kind == "forward") {
            if (g.sender != w.sender || g.rcpts != w.rcpts) { std::string gr, wr2; for (auto &x : g.rcpts) gr += "[" + printable(x, 40) + "]"; for (auto &x : w.rcpts) wr2 += "[" + printable(x, 40) + "]";
              violate("C13.forward-envelope", ctx + ": forwarded from \"" + printable(g.sender) + "\" to " + gr + ", expected from \"" + printable(w.sender) + "\" to " + wr2); return; }
            if (g.body != w.body) { violate("C13.forward-body", ctx + ": forwarded copy is not Delivered-To + message"); return; }
          } else {
            std::string wpath = w.arg[0] == '/' ? w.arg : d->home() + "/" + w.arg; if (w.kind == "maildir") wpath.pop_back();
            // canonical comparison: strip "./"
            std::string canon; { std::vector<std::string> parts; size_t q = 0; while (q < wpath.size()) { size_t s = wpath.find('/', q); if (s == std::string::npos) s = wpath.size(); std::string c = wpath.substr(q, s - q); q = s + 1; if (c.empty() || c == ".") continue; if (c == "..") { if (!parts.empty()) parts.pop_back(); continue; } parts.push_back(c); } for (auto &c : parts) canon += "/" + c; }
            if (g.arg != "?" && g.arg != canon) { violate("C13.delivery-target", ctx + ": " + w.kind + " delivery went to " + g.arg + ", the instruction names " + canon); return; }
          }
        }
        if (d->dry) {
          std::string want; for (auto &l : R.dry_lines) want += l + "\n";
          if (R.code == 0 && d->out->data.find(want) == std::string::npos) { violate("C13.dry-run-output", ctx + ": -n printed \"" + printable(d->out->data, 150) + "\", expected \"" + printable(want, 150) + "\""); return; }
          if (!d->actions.empty()) { violate("C13.dry-run-acted", ctx + ": -n performed " + d->actions[0].kind); return; }
        }
      } else k->probe("dotqmail_indeterminate");
    }
    if (c12) {
      // maildir: success only with the complete file visible; failure is temporary and leaves new/ alone
      bool wants_maildir = false; for (auto &a : d->actions) if (a.kind == "maildir") wants_maildir = true;
      size_t nmd = 0; for (auto &a : d->actions) if (a.kind == "maildir") nmd++;
      if (wants_maildir && !sig) {
        if (code == 0 && d->new_files.size() < nmd) violate("C12.success-without-file", d->id + " exited 0 but only " + std::to_string(d->new_files.size()) + " of " + std::to_string(nmd) + " maildir deliveries are in new/");
        if (code != 0 && code != 111 && code != 100) violate("C12.exit-code", d->id + " exited " + std::to_string(code));
      }
    }
  }

  void finish() override {
    if (c12 && !mbox_path.empty() && !had_crash) {
      Inode *f = k->lookup(mbox_path);
      bool any_killed = false; for (auto *d : dels) if (!d->exited || (d->status & 0x7f)) any_killed = true;
      if (f && !any_killed) {
        res->nontrivial = true;
        const std::string &data = f->data;
        if (data.compare(0, mbox_initial.size(), mbox_initial) != 0) { violate("C12.mbox-previous-content-damaged", "the first " + std::to_string(mbox_initial.size()) + " bytes changed"); return; }
        std::vector<MboxEntry> ents; std::string why;
        if (!mbox_read(data.substr(mbox_initial.size()), ents, why)) { violate("C12.mbox-unreadable", "appended part of " + mbox_path + " (" + std::to_string(data.size() - mbox_initial.size()) + " bytes): " + why); return; }
        // expected: one entry per delivery that reported success with an mbox instruction on this file
        std::vector<std::string> want;
        for (auto *d : dels) { int code = (d->status >> 8) & 0xff; size_t n = 0; for (auto &a : d->actions) if (a.kind == "mbox" && a.arg == mbox_path) n++; if (code == 0) for (size_t q = 0; q < n; q++) { std::string m = ref_rpline(d->sender()) + ref_dtline(d->local(), d->host()) + d->msg; if (!d->msg.empty() && d->msg.back() != '\n') m += "\n"; want.push_back(m); }
          else if (n && (code != 111 && code != 100)) violate("C12.exit-code", d->id + " exited " + std::to_string(code)); }
        std::vector<std::string> got; for (auto &e : ents) got.push_back(e.message);
        std::vector<std::string> a = want, b = got; std::sort(a.begin(), a.end()); std::sort(b.begin(), b.end());
        if (a != b) { violate("C12.mbox-entries", mbox_path + " holds " + std::to_string(got.size()) + " readable entries, " + std::to_string(want.size()) + " deliveries reported success; the decoded entries are not exactly the delivered messages" + (got.size() == want.size() ? " (content differs)" : "")); return; }
        for (auto &e : ents) {
          // From_ line: "From " envsender-without-blanks SP 24-char date
          std::string l = e.fromline; bool ok = l.size() >= 5 + 1 + 1 + 24 + 1 && l.back() == '\n';
          std::string rest = l.substr(5, l.size() - 6); size_t sp = rest.find(' ');
          if (!ok || sp == std::string::npos || rest.size() - sp - 1 != 24 || rest.substr(0, sp).find('\t') != std::string::npos) { violate("C12.mbox-from-line", "\"" + printable(l) + "\" is not From envsender date(24)"); return; }
          bool known = false; for (auto *d : dels) { std::string s = d->sender().empty() ? "MAILER-DAEMON" : d->sender(); for (auto &c : s) if (c == ' ' || c == '\t' || c == '\n') c = '-'; if (s == rest.substr(0, sp)) known = true; }
          if (!known) { violate("C12.mbox-from-line", "envelope sender in \"" + printable(l) + "\" belongs to no delivery"); return; }
          // the date is the delivery time the way myctime.c writes it (asctime with a zero-padded day), UTC: some second between the start of the run and now
          { std::string date = rest.substr(sp + 1); bool hit = false; int64_t lo = k->start_clock_, hi = k->clock; if (hi - lo > 4000) lo = hi - 4000;   // (long runs: the last hour is checked exactly, the rest by form)
            static const char *wd[] = {"Sun", "Mon", "Tue", "Wed", "Thu", "Fri", "Sat"}; static const char *mo[] = {"Jan", "Feb", "Mar", "Apr", "May", "Jun", "Jul", "Aug", "Sep", "Oct", "Nov", "Dec"};
            for (int64_t t = k->start_clock_; t <= hi && !hit; t = (t < lo ? lo : t + 1)) { time_t tt = (time_t)t; struct tm tm; gmtime_r(&tt, &tm); char b[64]; snprintf(b, sizeof b, "%s %s %02d %02d:%02d:%02d %d", wd[tm.tm_wday], mo[tm.tm_mon], tm.tm_mday, tm.tm_hour, tm.tm_min, tm.tm_sec, 1900 + tm.tm_year); if (date == b) hit = true; }
            if (!hit) { violate("C12.mbox-from-line", "date \"" + printable(date) + "\" in the From_ line is not the delivery time (run from " + std::to_string(k->start_clock_) + " to " + std::to_string(hi) + ")"); return; } }
        }
      }
    }
    Hash64 h; for (auto *d : dels) { h.u64((uint64_t)d->status); h.u64(d->actions.size()); } res->state_hash = h.get();
  }
};

World *make_world_l() { return new WorldL; }

}  // namespace sim

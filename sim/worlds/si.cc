// si.cc - world SI: real qmail-smtpd (+ real qmail-queue or a stand-in queue program) against a scripted network client.
// One reference model of the SMTP server (qmail-smtpd(8), RFC 5321) predicts replies, transaction state, DATA decoding
// and what must land in the queue; C05, C07 and C08 each judge their own slice of the comparison.
#include "common.h"
#include "../net.h"
#include <errno.h>
#include <fcntl.h>
#include <string.h>
#include <time.h>
#include <signal.h>
#include <algorithm>

namespace sim {

static std::string lower(std::string s) { for (auto &c : s) c = (char)tolower((unsigned char)c); return s; }
static std::string date822s(int64_t t) {
  static const char *mon[12] = {"Jan", "Feb", "Mar", "Apr", "May", "Jun", "Jul", "Aug", "Sep", "Oct", "Nov", "Dec"};
  time_t tt = (time_t)t; struct tm tm; gmtime_r(&tt, &tm); char b[64];
  snprintf(b, sizeof b, "%d %s %d %02d:%02d:%02d -0000\n", tm.tm_mday, mon[tm.tm_mon], tm.tm_year + 1900, tm.tm_hour, tm.tm_min, tm.tm_sec); return b;
}
static std::string safe(const std::string &s) { std::string o; for (unsigned char c : s) { bool ok = isalnum(c) || strchr(".@%+/=:-[]", c); o += ok && c ? (char)c : '?'; } return o; }

struct QMsg { std::string sender; std::vector<std::string> rcpts; std::string body, body_quirk; std::string received; bool via_stub = false; bool orphan = false; /* committed by a queue program that was then killed before it could say so */ };

struct SmtpConf {
  bool have_rcpthosts = false; std::set<std::string> rcpthosts, morercpthosts; bool have_more = false;
  std::set<std::string> badmailfrom; std::string localiphost; bool liphostok = false; std::vector<uint32_t> ifaces;
  bool relayclient = false; std::string relaysuffix; uint64_t databytes = 0; int64_t timeout = 1200; bool limit_on_stored = false;   /* C07: the size limit is judged on the text the daemon stores (its own decoding, known dot-CR quirk included), C05: on the reference decoding */
  std::string remotehost = "unknown", remoteip = "unknown", remoteinfo, local = "unknown"; bool have_info = false;
  int qq_open_fails_at = 0;   // the n-th attempt to start the queue program fails in the daemon itself (fork or pipe): 451 to DATA, nothing read as data
};

struct ModelOut {
  std::vector<int> codes;          // one per reply, in order (greeting first)
  std::vector<char> kind;          // 'g' greeting, 'c' command reply, 'i' 354, 'd' reply after the DATA terminator
  std::vector<QMsg> msgs;          // messages that must be queued (only when the model says 250)
  std::vector<int> data_outcome;   // per DATA phase: 250, 552, 554, 451 (stray LF) ...
  bool ended = false;              // server closed the session (QUIT, stray newline, timeout)
  bool incomplete_data = false;    // input ended inside a DATA phase
  bool ambiguous = false;          // outcome not determined by the documents (e.g. cut exactly at the terminator)
  std::vector<std::string> helo_at_data;
  std::vector<std::string> phase_body, phase_quirk;   // reference decoding of every DATA phase that reached its terminator
  std::vector<size_t> phase_reply;                    // index of the reply that ends that phase
  std::vector<int> phase_code_quirk;                  // the reply if the known dot-CR quirk of the decoder is taken into account (size limit)
};

// address parsing as the documents describe: optional <>, source route stripped, quoted strings and backslash escapes
static bool model_addr(const SmtpConf &cf, const std::string &arg0, std::string &out) {
  std::string arg = arg0; char term = '>';
  size_t lt = arg.find('<');
  if (lt != std::string::npos) arg = arg.substr(lt + 1);
  else { term = ' '; size_t c = arg.find(':'); arg = c == std::string::npos ? std::string() : arg.substr(c + 1); while (!arg.empty() && arg[0] == ' ') arg.erase(0, 1); }
  if (!arg.empty() && arg[0] == '@') { size_t c = arg.find(':'); arg = c == std::string::npos ? std::string() : arg.substr(c + 1); }
  out.clear(); bool esc = false, quoted = false;
  for (char ch : arg) {
    if (esc) { out += ch; esc = false; continue; }
    if (!quoted && ch == term) break;
    if (ch == '\\') esc = true; else if (ch == '"') quoted = !quoted; else out += ch;
  }
  if (cf.liphostok) {
    size_t at = out.rfind('@');
    if (at != std::string::npos && at + 1 < out.size() && out[at + 1] == '[') {
      unsigned a, b, c, d; int n = 0;
      if (sscanf(out.c_str() + at + 1, "[%u.%u.%u.%u]%n", &a, &b, &c, &d, &n) == 4 && n > 0 && (size_t)n == out.size() - at - 1 && a < 256 && b < 256 && c < 256 && d < 256) {
        uint32_t ip = (a << 24) | (b << 16) | (c << 8) | d;
        // reject forms the dotted-decimal scanner would not take (leading +, spaces, etc.)
        std::string canon = "[" + std::to_string(a) + "." + std::to_string(b) + "." + std::to_string(c) + "." + std::to_string(d) + "]";
        bool plainform = true; for (size_t q = at + 2; q + 1 < out.size(); q++) if (!(isdigit((unsigned char)out[q]) || out[q] == '.')) plainform = false;
        (void)canon;
        if (plainform && std::find(cf.ifaces.begin(), cf.ifaces.end(), ip) != cf.ifaces.end()) out = out.substr(0, at + 1) + cf.localiphost;
      }
    }
  }
  return out.size() + 1 <= 900;
}

static bool model_allowed(const SmtpConf &cf, const std::string &addr) {
  if (!cf.have_rcpthosts) return true;
  size_t at = addr.rfind('@'); if (at == std::string::npos) return true;
  std::string h = lower(addr.substr(at + 1));
  for (size_t j = 0; j < h.size(); j++) if (j == 0 || h[j] == '.') { std::string k = h.substr(j); if (cf.rcpthosts.count(k)) return true; }
  if (cf.have_more) for (size_t j = 0; j < h.size(); j++) if (j == 0 || h[j] == '.') { std::string k = h.substr(j); if (cf.morercpthosts.count(k)) return true; }
  return false;
}

static bool ci_prefix(const std::string &line, const char *w) { size_t n = strlen(w); if (line.size() < n) return false; for (size_t i = 0; i < n; i++) if (tolower((unsigned char)line[i]) != w[i]) return false; return true; }

// RFC 5321 4.5.2 receiver with bare CR as data and bare LF refused. Returns: 0 terminator found (consumed set), 1 stray LF, 2 input exhausted
static int model_decode(const std::string &in, size_t start, size_t &consumed, std::string &body, int &hops, bool quirk_dot_cr = false) {
  size_t i = start; body.clear(); hops = 0; bool inheader = true;
  for (;;) {
    // read one line up to CRLF
    size_t j = i; std::string line;
    for (;;) {
      if (j >= in.size()) { consumed = j; return 2; }
      char c = in[j];
      if (c == '\n') { consumed = j + 1; return 1; }
      if (c == '\r') {
        if (j + 1 >= in.size()) { consumed = j; return 2; }
        if (in[j + 1] == '\n') { j += 2; break; }
        line += c; j++; continue;
      }
      line += c; j++;
    }
    if (inheader) { if (line.empty()) inheader = false; else { if (ci_prefix(line, "received")) hops++; if (ci_prefix(line, "delivered")) hops++; } }
    i = j;
    if (line == ".") { consumed = i; return 0; }
    if (!line.empty() && line[0] == '.' && !(quirk_dot_cr && line.size() >= 2 && line[1] == '\r')) line.erase(0, 1);
    body += line; body += '\n';
  }
}

static void model_smtp(const SmtpConf &cf, const std::string &in, const std::vector<std::pair<size_t, int64_t>> &stalls, int qq_code, const std::string &qq_text, ModelOut &M) {
  int opens = 0;
  auto reply = [&](int code, char kind) { M.codes.push_back(code); M.kind.push_back(kind); };
  reply(220, 'g');
  bool seenmail = false, barf = false; std::string sender; std::vector<std::string> rcpts; std::string helo; bool fakehelo = false;
  size_t i = 0;
  auto stalled_before = [&](size_t upto) -> bool { for (auto &s : stalls) if (s.first <= upto && s.first >= i && s.second >= cf.timeout) return true; return false; };
  for (;;) {
    size_t nl = in.find('\n', i);
    // a stall longer than the timeout while the server waits for the rest of this line ends the session with 451
    { size_t end = nl == std::string::npos ? in.size() : nl; bool st = false; for (auto &s : stalls) if (s.first >= i && s.first <= end && s.second >= cf.timeout && !(s.first == i && i == 0 && false)) st = true; if (st) { reply(451, 'c'); M.ended = true; return; } }
    if (nl == std::string::npos) return;   // client went away mid-line (or nothing more): server just exits
    std::string line = in.substr(i, nl - i); i = nl + 1;
    if (!line.empty() && line.back() == '\r') line.pop_back();
    if (line.find('\0') != std::string::npos) line = line.substr(0, line.find('\0'));   // C strings
    size_t sp = line.find(' '); std::string verb = lower(line.substr(0, sp)); std::string arg = sp == std::string::npos ? std::string() : line.substr(sp); while (!arg.empty() && arg[0] == ' ') arg.erase(0, 1);
    if (verb == "helo" || verb == "ehlo") { reply(250, 'c'); seenmail = false; helo = arg; fakehelo = lower(helo) != lower(cf.remotehost); }
    else if (verb == "rset") { reply(250, 'c'); seenmail = false; }
    else if (verb == "noop") reply(250, 'c');
    else if (verb == "vrfy") reply(252, 'c');
    else if (verb == "help") reply(214, 'c');
    else if (verb == "quit") { reply(221, 'c'); M.ended = true; return; }
    else if (verb == "mail") { std::string a; if (!model_addr(cf, arg, a)) { reply(555, 'c'); continue; } sender = a; rcpts.clear(); seenmail = true;
      barf = false; std::string la = lower(a); if (cf.badmailfrom.count(la)) barf = true; size_t at = la.rfind('@'); if (at != std::string::npos && cf.badmailfrom.count(la.substr(at))) barf = true;
      reply(250, 'c'); }
    else if (verb == "rcpt") { if (!seenmail) { reply(503, 'c'); continue; } std::string a; if (!model_addr(cf, arg, a)) { reply(555, 'c'); continue; } if (barf) { reply(553, 'c'); continue; }
      if (cf.relayclient) a += cf.relaysuffix; else if (!model_allowed(cf, a)) { reply(553, 'c'); continue; }
      rcpts.push_back(a); reply(250, 'c'); }
    else if (verb == "data") {
      if (!seenmail) { reply(503, 'c'); continue; }
      if (rcpts.empty()) { reply(503, 'c'); continue; }
      seenmail = false;
      if (cf.qq_open_fails_at && ++opens == cf.qq_open_fails_at) { reply(451, 'c'); continue; }
      reply(354, 'i');
      std::string body; int hops = 0; size_t used = 0; size_t data_start = i;
      // stall inside the data phase
      int r = model_decode(in, i, used, body, hops);
      if (r == 2) used = in.size();
      { bool st = false; for (auto &s : stalls) if (s.first >= i && (r == 2 ? s.first <= used : s.first < used) && s.second >= cf.timeout) st = true; if (st) { reply(451, 'c'); M.ended = true; M.incomplete_data = true; return; } }
      if (r == 2) { M.incomplete_data = true; return; }
      if (r == 1) { reply(451, 'd'); M.data_outcome.push_back(451); M.ended = true; return; }
      i = used;
      int code;
      if (hops >= 100) code = 554;
      else if (cf.databytes && (cf.limit_on_stored ? [&] { std::string qk; size_t u4 = 0; int h4 = 0; model_decode(in, data_start, u4, qk, h4, true); return qk.size(); }() : body.size()) > cf.databytes) code = 552;
      else if (qq_code == 0) code = 250;
      else {
        // qmail-queue(8) exit codes: 11-40 permanent (except documented temporary ones), others temporary; 82 with custom text
        bool perm = (qq_code >= 11 && qq_code <= 40) || qq_code == 115;
        if (qq_code == 82 && qq_text.size() > 2) perm = qq_text[0] == 'D';
        code = perm ? 554 : 451;
      }
      M.phase_reply.push_back(M.codes.size()); M.phase_body.push_back(body); { std::string qk; size_t u3 = 0; int h3 = 0; model_decode(in, data_start, u3, qk, h3, true); M.phase_quirk.push_back(qk);
        M.phase_code_quirk.push_back(hops >= 100 ? 554 : (cf.databytes && qk.size() > cf.databytes) ? 552 : code); }
      reply(code, 'd'); M.data_outcome.push_back(code);
      M.helo_at_data.push_back(fakehelo ? helo : std::string("\x01"));
      if (code == 250) { QMsg m; m.sender = sender; m.rcpts = rcpts; m.body = body; { size_t u2 = 0; int h2 = 0; model_decode(in, data_start, u2, m.body_quirk, h2, true); } M.msgs.push_back(m); }
    }
    else reply(502, 'c');
    (void)stalled_before;
  }
}


// ---------------------------------------------------------------------------------------------- QMTP / QMQP reference
// Written from the protocol descriptions (netstrings; QMTP packages of message, sender, recipient list with one reply per
// recipient; QMQP one package with one reply) and the limits the daemons document (databytes, 1000-byte addresses, NUL).
struct NtOut {
  std::string cls;                 // expected class byte (K/Z/D) of each reply netstring, in order
  std::vector<size_t> pkg_of;      // package index of each reply
  std::vector<QMsg> msgs;          // messages that must be committed, in order
  std::vector<size_t> msg_pkg;     // package index of each message
  enum End { NORMAL, CUT, MALFORMED, ALARM } end = NORMAL;
  size_t packages = 0;
};
static char qq_class(int qq_code, const std::string &qq_text) {
  if (qq_code == 0) return 'K';
  if (qq_code == 82 && qq_text.size() > 2) return qq_text[0];
  return ((qq_code >= 11 && qq_code <= 40) || qq_code == 115) ? 'D' : 'Z';
}
struct NtIn {
  const std::string &in; size_t i = 0, limit; bool alarm; NtOut &M; bool dead = false; bool boundary = false;
  bool use_left = false; unsigned long left = 0;   // QMQP: bytes left in the outer netstring
  NtIn(const std::string &s, size_t lim, bool al, NtOut &m) : in(s), limit(lim), alarm(al), M(m) {}
  bool fail(NtOut::End e) { if (!dead) { dead = true; M.end = e; } return false; }
  bool get(int &c) {
    if (dead) return false;
    if (use_left) { if (!left) return fail(NtOut::MALFORMED); left--; }
    if (i >= limit) return fail(alarm ? NtOut::ALARM : (boundary ? NtOut::NORMAL : NtOut::CUT));
    c = (unsigned char)in[i++]; boundary = false; return true;
  }
  bool getlen(unsigned long &len) { len = 0; int c; for (;;) { if (!get(c)) return false; if (c == ':') return true; if (len > 200000000 || c < '0' || c > '9') return fail(NtOut::MALFORMED); len = 10 * len + (unsigned long)(c - '0'); } }
  bool comma() { int c; if (!get(c)) return false; if (c != ',') return fail(NtOut::MALFORMED); return true; }
  bool bytes(unsigned long n, std::string &out) { out.clear(); int c; for (unsigned long q = 0; q < n; q++) { if (!get(c)) return false; out += (char)c; } return true; }
};

static void model_qmtp(const SmtpConf &cf, const std::string &in, size_t limit, bool alarm, int qq_code, const std::string &qq_text, NtOut &M) {
  NtIn r(in, limit, alarm, M);
  for (;;) {
    unsigned long len; r.boundary = true;
    if (!r.getlen(len)) return;
    r.boundary = false;
    if (len == 0) { r.fail(NtOut::MALFORMED); return; }
    int c; if (!r.get(c)) return; --len;
    bool dos; if (c == 10) dos = false; else if (c == 13) dos = true; else { r.fail(NtOut::MALFORMED); return; }
    std::string raw; if (!r.bytes(len, raw)) return;
    std::string body;
    if (dos) { for (size_t q = 0; q < raw.size(); q++) { if (raw[q] == '\r' && q + 1 < raw.size() && raw[q + 1] == '\n') continue; body += raw[q]; } } else body = raw;
    bool toobig = cf.databytes && body.size() > cf.databytes;
    if (!r.comma()) return;
    unsigned long slen; if (!r.getlen(slen)) return;
    std::string sender; if (!r.bytes(slen, sender)) return;
    bool senderok = slen < 1000 && sender.find('\0') == std::string::npos;
    if (!r.comma()) return;
    unsigned long big; if (!r.getlen(big)) return;
    std::vector<std::string> accepted; std::string bad;   // per recipient: 0 fine, 'D' refused
    while (big > 0) {
      unsigned long l = 0;
      for (;;) { if (!big) { r.fail(NtOut::MALFORMED); return; } if (!r.get(c)) return; --big; if (c == ':') break; if (l > 200000000 || c < '0' || c > '9') { r.fail(NtOut::MALFORMED); return; } l = 10 * l + (unsigned long)(c - '0'); }
      if (l >= big) { r.fail(NtOut::MALFORMED); return; }
      std::string a; if (!r.bytes(l, a)) return;
      char b = 0;
      if (l + (cf.relayclient ? cf.relaysuffix.size() : 0) >= 1000) b = 'D';
      else if (a.find('\0') != std::string::npos) b = 'D';
      else if (!cf.relayclient && !model_allowed(cf, a)) b = 'D';
      bad += b; if (!b) accepted.push_back(a + (cf.relayclient ? cf.relaysuffix : std::string()));
      if (!r.comma()) return;
      big -= l + 1;
    }
    if (!r.comma()) return;
    char pk = !senderok ? 'D' : toobig ? 'D' : qq_class(qq_code, qq_text);
    for (char b : bad) { M.cls += b ? 'D' : pk; M.pkg_of.push_back(M.packages); }
    if (pk == 'K' && !accepted.empty()) { QMsg m; m.sender = sender; m.rcpts = accepted; m.body = body; m.body_quirk = body; M.msgs.push_back(m); M.msg_pkg.push_back(M.packages); }
    M.packages++;
  }
}

static void model_qmqp(const std::string &in, size_t limit, bool alarm, int qq_code, const std::string &qq_text, NtOut &M) {
  NtIn r(in, limit, alarm, M);
  r.use_left = true; r.left = 100;
  unsigned long total; if (!r.getlen(total)) return;
  r.left = total;
  unsigned long len; if (!r.getlen(len)) return;
  std::string body; if (!r.bytes(len, body)) return;
  if (!r.comma()) return;
  bool ok = true;
  auto getbuf = [&](std::string &out, bool &good) -> bool { unsigned long l; if (!r.getlen(l)) return false; if (!r.bytes(l, out)) return false; if (!r.comma()) return false; good = l < 1000 && out.find('\0') == std::string::npos; return true; };
  std::string sender; bool good; if (!getbuf(sender, good)) return; if (!good) ok = false;
  std::vector<std::string> rc;
  while (r.left) { std::string a; if (!getbuf(a, good)) return; if (!good) ok = false; else rc.push_back(a); }
  r.left = 1; if (!r.comma()) return;
  char pk = !ok ? 'D' : qq_class(qq_code, qq_text);
  M.cls += pk; M.pkg_of.push_back(0);
  if (pk == 'K') { QMsg m; m.sender = sender; m.rcpts = rc; m.body = body; m.body_quirk = body; M.msgs.push_back(m); M.msg_pkg.push_back(0); }
  M.packages = 1;
  // anything after the outer netstring is never read
}

struct WorldSI : World, Net {
  QmailTree t; SmtpConf cf;
  std::string daemon = "smtpd";
  Pipe *c2s = nullptr, *s2c = nullptr;
  std::string tx, rx; std::vector<std::pair<size_t, int64_t>> stalls; bool client_closed = false;
  std::vector<QMsg> queued; std::vector<std::pair<std::string, std::string>> stub_streams;
  bool use_stub = false; int qq_code = 0; std::string qq_text; bool qq_read_all = true;
  int daemon_pid = 0; int daemon_status = -1; bool daemon_done = false;
  int64_t t_start = 0; bool c05 = true, c07 = true, c08 = true; bool daemon_fault = false;
  Sink *errs = nullptr;

  ConnectResult on_connect(OFile *, uint32_t, uint16_t) override { return ConnectResult(); }
  int on_query(const std::string &, int, std::string &, int &herr) override { herr = 1; return -1; }

  void setup() override {
    t.build(k, conf);
    if (plan->knobs.has("oracles")) { c05 = c07 = c08 = false; for (auto &o : plan->knobs["oracles"].a) { if (o.str() == "c05") c05 = true; if (o.str() == "c07") c07 = true; if (o.str() == "c08") c08 = true; } }
    daemon = plan->knobs.gets("daemon", "smtpd");
    errs = k->new_sink("stderr");
    k->put_exec(t.home + "/bin/qmail-smtpd", "qmail-smtpd", 0755);
    k->put_exec(t.home + "/bin/qmail-qmtpd", "qmail-qmtpd", 0755);
    k->put_exec(t.home + "/bin/qmail-qmqpd", "qmail-qmqpd", 0755);
    k->put_exec(t.home + "/bin/qmail-queue", "qmail-queue", 04711, t.uids["qmailq"], t.gid_qmail);
    k->put_exec(t.home + "/bin/qmail-newmrh", "qmail-newmrh", 0700);
    k->put_exec(t.home + "/bin/qq-stub", "stub:qq", 0755);
    k->natives["qq"] = [this](int, char **) { return qq_main(); };
    const Json &c = plan->knobs["control"];
    auto lines = [](const Json &a) { std::string s; for (auto &x : a.a) s += x.str() + "\n"; return s; };
    if (c.has("rcpthosts")) { k->put_file(t.home + "/control/rcpthosts", lines(c["rcpthosts"])); cf.have_rcpthosts = true; for (auto &x : c["rcpthosts"].a) cf.rcpthosts.insert(lower(x.str())); }
    if (c.has("morercpthosts")) { k->put_file(t.home + "/control/morercpthosts", lines(c["morercpthosts"])); for (auto &x : c["morercpthosts"].a) cf.morercpthosts.insert(lower(x.str())); cf.have_more = true; }
    if (c.has("badmailfrom")) { k->put_file(t.home + "/control/badmailfrom", lines(c["badmailfrom"])); for (auto &x : c["badmailfrom"].a) cf.badmailfrom.insert(lower(x.str())); }
    cf.localiphost = "sim.example"; cf.liphostok = true;
    if (c.has("localiphost")) { k->put_file(t.home + "/control/localiphost", c.gets("localiphost") + "\n"); cf.localiphost = c.gets("localiphost"); }
    if (c.has("databytes")) { k->put_file(t.home + "/control/databytes", std::to_string(c.geti("databytes")) + "\n"); cf.databytes = (uint64_t)c.geti("databytes"); }
    if (c.has("timeoutsmtpd")) { k->put_file(t.home + "/control/timeoutsmtpd", std::to_string(c.geti("timeoutsmtpd")) + "\n"); cf.timeout = c.geti("timeoutsmtpd"); if (cf.timeout <= 0) cf.timeout = 1; }
    t.restyle_all_controls(k, (int)plan->knobs.geti("ctl_style", 0));
    interfaces.clear(); interfaces.push_back(0x7f000001); for (auto &x : plan->knobs["interfaces"].a) interfaces.push_back((uint32_t)x.i());
    cf.ifaces = interfaces; cf.ifaces.push_back(0);   // ipme.c: 0.0.0.0 always counts as this host
    g_net = this;
    const Json &e = plan->knobs["env"];
    if (e.has("TCPREMOTEHOST")) cf.remotehost = e.gets("TCPREMOTEHOST"); if (e.has("TCPREMOTEIP")) cf.remoteip = e.gets("TCPREMOTEIP");
    if (e.has("TCPREMOTEINFO")) { cf.remoteinfo = e.gets("TCPREMOTEINFO"); cf.have_info = true; }
    if (e.has("TCPLOCALHOST")) cf.local = e.gets("TCPLOCALHOST"); else if (e.has("TCPLOCALIP")) cf.local = e.gets("TCPLOCALIP");
    if (e.has("RELAYCLIENT")) { cf.relayclient = true; cf.relaysuffix = e.gets("RELAYCLIENT"); }
    if (e.has("DATABYTES")) cf.databytes = strtoull(e.gets("DATABYTES").c_str(), 0, 10);
    cf.limit_on_stored = c07 && !c05;
    if (plan->knobs.has("qq")) { use_stub = true; const Json &q = plan->knobs["qq"]; qq_code = (int)q.geti("code", 0); qq_text = q.gets("text"); qq_read_all = q.getb("read_all", true); }
    for (auto &f : plan->faults) if (f.actor.compare(0, 11, "qmail-smtpd") == 0 || f.actor.compare(0, 10, "qmail-qmtp") == 0 || f.actor.compare(0, 10, "qmail-qmqp") == 0) { if (plan->knobs.has("qq_open_fails_at") && (f.call == C_FORK || f.call == C_PIPE)) continue; if (f.kind == "short") continue;   /* a transfer that takes fewer bytes than offered is legal behaviour of the kernel, not a failure: everything is judged as usual */ daemon_fault = true; }
    cf.qq_open_fails_at = (int)plan->knobs.geti("qq_open_fails_at", 0);
  }

  int qq_main() {
    std::string m, e; char b[1024];
    size_t lim = qq_read_all ? (size_t)-1 : 10;
    for (;;) { ssize_t n = k->sys_read(0, b, sizeof b); if (n <= 0) break; m.append(b, (size_t)n); if (m.size() > lim) break; }
    if (qq_read_all || m.size() <= lim) for (;;) { ssize_t n = k->sys_read(1, b, sizeof b); if (n <= 0) break; e.append(b, (size_t)n); }
    stub_streams.push_back({m, e});
    if (!qq_text.empty()) k->sys_write(6, qq_text.data(), qq_text.size());
    return qq_code;
  }

  int client_main() {
    // the network peer: sends, waits, stalls, disconnects as scripted; always drains the server's output
    k->cp()->sig[SIGPIPE].handler = SIG_IGN;
    auto drain = [&](bool until_eof, size_t want_replies) {
      int64_t t0 = k->clock; struct Note { WorldSI *w; int64_t t0; bool eof; ~Note() { if (!eof && w->k->clock > t0) w->stalls.push_back({w->tx.size(), w->k->clock - t0}); } } note{this, t0, until_eof};
      for (;;) {
        if (!until_eof && count_replies(rx) >= want_replies) return;
        fd_set rf; FD_ZERO(&rf); FD_SET(0, &rf); struct timeval tv; tv.tv_sec = until_eof ? 5000 : 3000; tv.tv_usec = 0;
        int r = k->sys_select(1, &rf, nullptr, nullptr, &tv); if (r <= 0) return;
        char b[2048]; ssize_t n = k->sys_read(0, b, sizeof b); if (n <= 0) return; rx.append(b, (size_t)n);
      }
    };
    for (auto &op : plan->ops.a) {
      std::string o = op.gets("op");
      if (o == "send") { const std::string &b = op["bytes"].s; size_t chunk = (size_t)op.geti("chunk", 0); size_t off = 0; bool dead = false;
        // full duplex like a TCP peer: keep draining the server's output while sending, or a pipelined session deadlocks
        k->sys_fcntl(1, F_SETFL, O_NONBLOCK);
        while (off < b.size() && !dead) {
          size_t n = chunk ? std::min(chunk, b.size() - off) : b.size() - off;
          ssize_t w = k->sys_write(1, b.data() + off, n);
          if (w > 0) { tx.append(b.data() + off, (size_t)w); off += (size_t)w; continue; }
          if (w < 0 && errno != EAGAIN) { dead = true; break; }
          fd_set rf, wf; FD_ZERO(&rf); FD_ZERO(&wf); FD_SET(0, &rf); FD_SET(1, &wf); struct timeval tv; tv.tv_sec = 5000; tv.tv_usec = 0;
          int r = k->sys_select(2, &rf, &wf, nullptr, &tv); if (r <= 0) { dead = true; break; }
          if (FD_ISSET(0, &rf)) { char rb[2048]; ssize_t rn = k->sys_read(0, rb, sizeof rb); if (rn > 0) rx.append(rb, (size_t)rn); else if (rn == 0) { dead = true; } }
        }
      }
      else if (o == "wait") drain(false, (size_t)op.geti("replies", 1));
      else if (o == "sleep") { stalls.push_back({tx.size(), op.geti("s", 1)}); k->block([] { return false; }, k->clock + op.geti("s", 1), false); }
      else if (o == "close") { k->sys_close(1); client_closed = true; break; }
    }
    if (!client_closed) { k->sys_close(1); client_closed = true; }
    drain(true, 0);
    return 0;
  }
  static size_t count_replies(const std::string &rx) { size_t n = 0, i = 0; while (i < rx.size()) { size_t e = rx.find("\r\n", i); if (e == std::string::npos) break; if (e - i >= 4 && rx[i + 3] == ' ') n++; else if (e - i == 3) n++; i = e + 2; } return n; }

  void driver() override {
    t_start = k->clock;
    // morercpthosts.cdb is built by the real qmail-newmrh
    if (cf.have_more) { int np = k->spawn(k->cp(), t.home + "/bin/qmail-newmrh", {"qmail-newmrh"}, {}, {{0, k->of_null()}, {1, k->of_sink(errs)}, {2, k->of_sink(errs)}}, 0, 0, "/");
      k->block([this, np] { Proc *p = k->find_proc(np); return !p || p->st != Proc::LIVE; }, k->clock + 1000, false); }
    c2s = k->new_pipe("client->server"); s2c = k->new_pipe("server->client");
    c2s->cap = s2c->cap = 262144;   // a TCP connection buffers far more than a small pipe; the pipe_cap knob is for the pipes inside the host
    std::vector<std::string> env = {"PATH=" + t.home + "/bin"};
    for (auto &p : plan->knobs["env"].o) env.push_back(p.first + "=" + p.second.str());
    if (use_stub) env.push_back("QMAILQUEUE=" + t.home + "/bin/qq-stub");
    std::string dbin = daemon == "smtpd" ? "qmail-smtpd" : "qmail-" + daemon;
    daemon_pid = k->spawn(k->cp(), t.home + "/bin/" + dbin, {dbin}, env, {{0, k->of_pipe_r(c2s)}, {1, k->of_pipe_w(s2c)}, {2, k->of_sink(errs)}}, t.uids["qmaild"], t.gid_nofiles, "/");
    int cp = k->spawn_native(k->cp(), "client", [this](int, char **) { return client_main(); }, {{0, k->of_pipe_r(s2c)}, {1, k->of_pipe_w(c2s)}}, 1, 1, "/");
    k->block([this, cp] { Proc *a = k->find_proc(daemon_pid), *b = k->find_proc(cp); return (!a || a->st != Proc::LIVE) && (!b || b->st != Proc::LIVE); }, k->clock + 400000, false, true);
    // let a queue child that outlived the daemon finish
    k->block([this] { for (auto &pp : k->procs) if (pp.second->st == Proc::LIVE && !pp.second->immortal) return false; return true; }, k->clock + 200000, false, true);
    k->stop = true;
  }

  void on_event(const Event &e) override {
    Proc *p = e.proc; if (!p) return;
    if (e.pid == daemon_pid && e.call == C_EXIT) { daemon_done = true; daemon_status = (int)e.a; }
    if (e.pid == daemon_pid && e.call == C_WRITE && e.fd == 1 && e.ret > 0 && e.data) daemon_said.append(e.data, (size_t)e.ret);
    if (e.pid == daemon_pid && e.call == C_READ && e.fd == 0 && e.ret > 0) daemon_read_bytes += (size_t)e.ret;
    if (e.pid == daemon_pid && e.injected && e.err != 0 && e.path.find("/control/") != std::string::npos && ctl_fault_at < 0) { ctl_fault_at = (int64_t)(queued.size() + stub_streams.size()); ctl_fault_said = daemon_said.size(); ctl_fault_read = daemon_read_bytes; }
    if (p->role == "qmail-queue" && e.call == C_LINK && e.ret == 0 && e.path2.find("/queue/todo/") != std::string::npos && e.ino) {
      QMsg m; const std::string &env = e.ino->data; size_t i = 0;
      while (i < env.size()) { size_t z = env.find('\0', i); if (z == std::string::npos) break; std::string r = env.substr(i, z - i); if (!r.empty() && r[0] == 'F') m.sender = r.substr(1); else if (!r.empty() && r[0] == 'T') m.rcpts.push_back(r.substr(1)); i = z + 1; }
      uint64_t n = strtoull(e.path2.substr(e.path2.rfind('/') + 1).c_str(), 0, 10); Inode *mi = k->lookup(t.qp("mess", n, true));
      if (mi) { std::string d = mi->data; size_t nl = d.find('\n'); d = nl == std::string::npos ? "" : d.substr(nl + 1);   // qmail-queue's own Received line
        size_t by = d.find("\n  by "); size_t end = by == std::string::npos ? std::string::npos : d.find('\n', by + 1);
        if (d.compare(0, 15, "Received: from ") == 0 && end != std::string::npos) { m.received = d.substr(0, end + 1); m.body = d.substr(end + 1); } else m.body = d; }
      qq_commit[e.pid] = queued.size(); queued.push_back(m);
    }
    // a queue program killed after its commit point cannot report the commit: the daemon answers "temporary failure" for a
    // message that is in the queue (the sender will retry; duplicates are the price of at-least-once). Not a positive
    // acknowledgement without a message, which is what the property forbids; such messages are set aside.
    if (p->role == "qmail-queue" && e.call == C_EXIT && (e.a & 0x7f) != 0 && qq_commit.count(e.pid)) { queued[qq_commit[e.pid]].orphan = true; k->probe("queue_program_killed_after_commit"); }
  }
  size_t daemon_read_bytes = 0, ctl_fault_read = 0;
  std::string daemon_said; size_t ctl_fault_said = 0;   // what the daemon has written to its client; how much of it before a control file turned out unreadable
  std::map<int, size_t> qq_commit; int64_t ctl_fault_at = -1;   // messages handed over before a control file turned out unreadable

  static std::vector<int> parse_codes(const std::string &rx, bool &garbled) {
    std::vector<int> v; size_t i = 0; garbled = false;
    while (i < rx.size()) { size_t e = rx.find("\r\n", i); if (e == std::string::npos) { garbled = true; break; } std::string l = rx.substr(i, e - i); i = e + 2;
      if (l.size() < 3 || !isdigit((unsigned char)l[0]) || !isdigit((unsigned char)l[1]) || !isdigit((unsigned char)l[2])) { garbled = true; break; }
      if (l.size() == 3 || l[3] == ' ') v.push_back(atoi(l.substr(0, 3).c_str())); else if (l[3] != '-') { garbled = true; break; } }
    return v;
  }


  // QMTP / QMQP: replies are netstrings starting with K, Z or D
  void finish_nt() {
    size_t limit = tx.size(); bool alarm = false;
    for (auto &st : stalls) if (st.second >= 3600 && st.first <= limit) { limit = st.first; alarm = true; }
    NtOut M; if (daemon == "qmtpd") model_qmtp(cf, tx, limit, alarm, use_stub ? qq_code : 0, qq_text, M); else model_qmqp(tx, limit, alarm, use_stub ? qq_code : 0, qq_text, M);
    res->nontrivial = !tx.empty(); k->probe("nt_packages", M.packages); k->probe(std::string("nt_end_") + (M.end == NtOut::NORMAL ? "normal" : M.end == NtOut::CUT ? "cut" : M.end == NtOut::MALFORMED ? "malformed" : "alarm"));
    std::string tr = "client sent \"" + printable(tx, 300) + "\"; server said \"" + printable(rx, 300) + "\"";
    if (!daemon_done) { violate("C07.server-hung", "qmail-" + daemon + " still running after the client closed the connection; " + tr); return; }
    // --- replies
    std::vector<std::string> got; { size_t i = 0; while (i < rx.size()) { size_t c = rx.find(':', i); unsigned long l = 0; bool okn = c != std::string::npos && c > i && c - i < 10; if (okn) for (size_t q = i; q < c; q++) { if (!isdigit((unsigned char)rx[q])) okn = false; else l = l * 10 + (unsigned long)(rx[q] - '0'); }
        if (!okn || c + 1 + l >= rx.size() || rx[c + 1 + l] != ',') { violate("C07.nt-reply-format", "the server's output is not a sequence of netstrings at offset " + std::to_string(i) + "; " + tr); return; }
        got.push_back(rx.substr(c + 1, l)); i = c + 2 + l; } }
    for (auto &g : got) if (g.empty() || !strchr("KZD", g[0])) { violate("C07.nt-reply-format", "reply \"" + printable(g, 60) + "\" does not start with K, Z or D; " + tr); return; }
    // a fault inside the real qmail-queue may turn an acceptance into a temporary failure: then nothing may be queued for that package
    if (plan->knobs.getb("real_qq_fault", false)) for (size_t j = 0; j < got.size() && j < M.cls.size(); j++) if (M.cls[j] == 'K' && got[j][0] == 'Z') {
      size_t pk = M.pkg_of[j]; for (size_t q = 0; q < M.cls.size(); q++) if (M.pkg_of[q] == pk && M.cls[q] == 'K') M.cls[q] = 'Z';
      for (size_t q = 0; q < M.msgs.size(); q++) if (M.msg_pkg[q] == pk) { M.msgs.erase(M.msgs.begin() + (long)q); M.msg_pkg.erase(M.msg_pkg.begin() + (long)q); break; }
    }
    size_t n = std::min(got.size(), M.cls.size());
    for (size_t j = 0; j < n; j++) if (got[j][0] != M.cls[j]) { violate("C07.nt-reply", "reply " + std::to_string(j + 1) + " (package " + std::to_string(M.pkg_of[j] + 1) + ") is \"" + printable(got[j], 80) + "\", the reference answers class " + std::string(1, M.cls[j]) + "; " + tr); return; }
    if (got.size() > M.cls.size()) { violate("C07.nt-reply", std::to_string(got.size()) + " replies, the reference gives " + std::to_string(M.cls.size()) + "; " + tr); return; }
    // after a framing error the daemon may leave at once, and replies still buffered are lost with it; in every other ending all replies arrive
    if (got.size() < M.cls.size() && M.end != NtOut::MALFORMED) { violate("C07.nt-reply", "only " + std::to_string(got.size()) + " of " + std::to_string(M.cls.size()) + " replies arrived; " + tr); return; }
    // --- exit status
    { int code = (daemon_status >> 8) & 0xff, sig = daemon_status & 0x7f; // (after bad framing the daemons may also misread the rest and simply run into the end of input: the property asks for no acknowledgement and nothing queued, not for a status)
      bool okx = sig == 0 && (M.end == NtOut::MALFORMED ? (code == 100 || code == 111 || code == 0) : M.end == NtOut::ALARM ? code == 111 : code == 0);
      if (!okx) { violate("C07.nt-exit", "qmail-" + daemon + " ended with status " + std::to_string(code) + (sig ? " signal " + std::to_string(sig) : "") + ", the reference ends " + (M.end == NtOut::MALFORMED ? "100/111 (bad framing)" : M.end == NtOut::ALARM ? "111 (alarm)" : "0") + "; " + tr); return; } }
    // --- what reached the queue
    std::vector<QMsg> q; for (auto &m0 : queued) if (!m0.orphan) q.push_back(m0);
    if (use_stub) { q.clear(); if (qq_code == 0) for (auto &st : stub_streams) { QMsg m; const std::string &ev = st.second; bool complete = ev.size() >= 3 && ev[0] == 'F' && ev[ev.size() - 1] == 0 && ev[ev.size() - 2] == 0; if (!complete) continue;
        size_t i = 0; while (i < ev.size()) { size_t z = ev.find('\0', i); if (z == std::string::npos) break; std::string r = ev.substr(i, z - i); if (!r.empty() && r[0] == 'F') m.sender = r.substr(1); else if (!r.empty() && r[0] == 'T') m.rcpts.push_back(r.substr(1)); i = z + 1; }
        std::string d = st.first; size_t by = d.find("\n  by "); size_t end = by == std::string::npos ? std::string::npos : d.find('\n', by + 1); if (d.compare(0, 15, "Received: from ") == 0 && end != std::string::npos) { m.received = d.substr(0, end + 1); m.body = d.substr(end + 1); } else m.body = d; m.via_stub = true; q.push_back(m); } }
    // a queue fault whose Z reply was lost with the daemon's early exit cannot be attributed through the replies: such packages are optional
    if (plan->knobs.getb("real_qq_fault", false) && got.size() < M.cls.size()) {
      size_t first_lost = M.pkg_of[got.size()]; std::vector<QMsg> keep; std::vector<size_t> keep_pkg; size_t qi = 0;
      for (size_t j = 0; j < M.msgs.size(); j++) {
        bool same = qi < q.size() && q[qi].sender == M.msgs[j].sender && q[qi].rcpts == M.msgs[j].rcpts && q[qi].body == M.msgs[j].body;
        if (same || M.msg_pkg[j] < first_lost) { keep.push_back(M.msgs[j]); keep_pkg.push_back(M.msg_pkg[j]); qi++; }
      }
      M.msgs = keep; M.msg_pkg = keep_pkg;
    }
    if (q.size() > M.msgs.size()) { violate("C07.queued-without-ack", std::to_string(q.size()) + " messages committed, the reference acknowledges " + std::to_string(M.msgs.size()) + " packages; " + tr); return; }
    if (q.size() < M.msgs.size()) { violate("C07.ack-without-queue", std::to_string(M.msgs.size()) + " packages are acknowledged, " + std::to_string(q.size()) + " messages were committed; " + tr); return; }
    std::string proto = daemon == "qmtpd" ? "QMTP" : "QMQP";
    for (size_t i = 0; i < q.size(); i++) {
      const QMsg &g = q[i], &w = M.msgs[i];
      if (g.sender != w.sender || g.rcpts != w.rcpts) { std::string a, b; for (auto &x : g.rcpts) a += "[" + printable(x, 50) + "]"; for (auto &x : w.rcpts) b += "[" + printable(x, 50) + "]";
        violate("C07.envelope", "committed envelope F\"" + printable(g.sender, 60) + "\" " + a + " differs from the acknowledged one F\"" + printable(w.sender, 60) + "\" " + b + "; " + tr); return; }
      if (g.body != w.body) { violate("C07.body", "committed body (" + std::to_string(g.body.size()) + " bytes) differs from the decoded acknowledged message (" + std::to_string(w.body.size()) + " bytes); " + tr); return; }
      std::string pre = "Received: from " + safe(cf.remotehost) + " (" + (cf.have_info ? safe(cf.remoteinfo) + "@" : "") + safe(cf.remoteip) + ")\n  by " + safe(cf.local) + " with " + proto + "; ";
      bool ok = g.received.compare(0, pre.size(), pre) == 0;
      if (ok) { std::string date = g.received.substr(pre.size()); bool dm = false; int64_t t1 = k->clock; if (t1 - t_start > 5000) dm = date.size() > 20; else for (int64_t tt = t_start; tt <= t1 && !dm; tt++) if (date822s(tt) == date) dm = true; ok = dm; }
      if (!ok) { violate("C07.received-field", "Received field \"" + printable(g.received, 200) + "\" is not \"" + printable(pre, 200) + "<date>\""); return; }
      for (unsigned char c : g.received.substr(15)) if (!(isalnum(c) || strchr(".@%+/=:-[]? ()\n;", c))) { violate("C07.received-field", "unsafe byte in Received field: \"" + printable(g.received, 200) + "\""); return; }
    }
    k->probe("nt_checked"); k->probe("nt_replies", got.size()); k->probe("nt_committed", q.size());
    Hash64 h; h.str(rx); res->state_hash = h.get();
  }

  void finish() override {
    if (c07 && daemon != "smtpd") { if (!daemon_fault) finish_nt(); return; }
    if (!c05 && !c07 && !c08) { res->nontrivial = !rx.empty() || !tx.empty(); if (!daemon_done) violate("C20.server-hung", daemon + " still running after the client went away"); Hash64 h9; h9.str(rx); res->state_hash = h9.get(); return; }
    // the daemon could not read its configuration (injected error on a control file): it must not serve a session on guesses -
    // nothing may be accepted into the queue
    if (ctl_fault_at >= 0 && daemon == "smtpd") {
      // ... and nothing more may be answered positively either: a policy file that cannot be read is not an absent one (an absent rcpthosts
      // means "relay for everybody"). Replies are buffered, so what is written after the failure may still answer commands handled before
      // it - at most as many as the daemon had read and not yet answered, less the one it was working on.
      auto finals = [](const std::string &t2, bool positive_only) { size_t n = 0, i = 0; while (i < t2.size()) { size_t e2 = t2.find('\n', i); if (e2 == std::string::npos) break; if (e2 - i >= 4 && t2[i + 3] == ' ' && (!positive_only || t2[i] == '2' || t2[i] == '3')) n++; i = e2 + 1; } return n; };
      size_t cut = std::min(ctl_fault_said, daemon_said.size()); while (cut > 0 && daemon_said[cut - 1] != '\n') cut--;   // (a reply line cut in two by the write belongs to "after")
      size_t answered_before = finals(daemon_said.substr(0, cut), false); size_t commands_read = 0; { std::string seen = tx.substr(0, std::min(ctl_fault_read, tx.size())); for (char c : seen) if (c == '\n') commands_read++; }
      size_t owed = commands_read + 1 /* the greeting */ > answered_before + 1 /* the command being worked on */ ? commands_read + 1 - answered_before - 1 : 0;
      size_t positive_after = finals(daemon_said.substr(cut), true);
      if (positive_after > owed) { violate(c08 ? "C08.accepted-without-configuration" : "C07.accepted-without-configuration", "a control file could not be read when qmail-smtpd had read " + std::to_string(commands_read) + " command lines and answered " + std::to_string(answered_before) + " times; afterwards it still gave " + std::to_string(positive_after) + " positive replies: \"" + printable(daemon_said.substr(cut), 120) + "\""); return; } }
    if (ctl_fault_at >= 0) { res->nontrivial = true; k->probe("smtpd_control_read_error"); if ((int64_t)(queued.size() + stub_streams.size()) > ctl_fault_at) violate(c08 ? "C08.accepted-without-configuration" : "C07.accepted-without-configuration", "a control file could not be read but qmail-smtpd afterwards handed a message to the queue; server said \"" + printable(rx, 200) + "\""); return; }
    if (daemon_fault) return;   // faults inside the daemon: only memory safety and "no partial message" (below) are judged elsewhere
    ModelOut M; model_smtp(cf, tx, stalls, use_stub ? qq_code : 0, qq_text, M);
    bool garbled = false; std::vector<int> got = parse_codes(rx, garbled);
    res->nontrivial = M.codes.size() > 1; k->probe("smtp_replies", got.size()); k->probe("data_phases", M.data_outcome.size());
    if (!daemon_done) { violate(c08 ? "C08.server-hung" : c05 ? "C05.server-hung" : "C07.server-hung", "qmail-smtpd still running after the client closed the connection"); return; }
    std::string tr = "client sent \"" + printable(tx, 300) + "\"; server said \"" + printable(rx, 300) + "\"";
    // a fault injected into the real qmail-queue may turn an acceptance into a temporary failure: then nothing may be queued for it
    if (plan->knobs.getb("real_qq_fault", false)) { size_t mi = 0; for (size_t i = 0; i < M.codes.size() && i < got.size(); i++) if (M.kind[i] == 'd' && M.codes[i] == 250) { if (got[i] == 451) { M.codes[i] = 451; if (mi < M.msgs.size()) M.msgs.erase(M.msgs.begin() + (long)mi); if (mi < M.helo_at_data.size()) M.helo_at_data.erase(M.helo_at_data.begin() + (long)mi); k->probe("queue_fault_became_451"); } else mi++; } else if (M.kind[i] == 'd' && false) mi++; }
    // --- replies
    size_t n = std::min(got.size(), M.codes.size());
    for (size_t i = 0; i < n; i++) if (got[i] != M.codes[i]) {
      char kd = M.kind[i];
      // the known dot-CR quirk makes the stored body one byte longer than the reference decoding: with a size limit in force that
      // byte can decide between 250 and 552. Same finding, seen through the limit.
      if (c05 && kd == 'd') { bool quirk = false; for (size_t j = 0; j < M.phase_reply.size(); j++) if (M.phase_reply[j] == i && j < M.phase_code_quirk.size() && M.phase_code_quirk[j] == got[i] && M.phase_quirk[j] != M.phase_body[j]) quirk = true; if (quirk) { known("C05.smtpd-dot-cr-keeps-dot"); return; } }
      const char *cls = kd == 'd' ? (M.codes[i] == 451 || got[i] == 451 ? (c05 ? "C05.data-reply" : nullptr) : (c07 ? "C07.data-reply" : nullptr)) : (c08 ? "C08.reply" : nullptr);
      // a divergence after a DATA phase usually means the two sides disagree on where the data ended
      bool after_data = false; for (size_t q = 0; q < i; q++) if (M.kind[q] == 'i') after_data = true;
      if (!cls && after_data && c05) cls = "C05.resync-after-data";
      if (cls) { violate(cls, "reply " + std::to_string(i + 1) + " is " + std::to_string(got[i]) + ", the reference server answers " + std::to_string(M.codes[i]) + "; " + tr); return; }
      break;
    }
    if (got.size() != M.codes.size() && !garbled) {
      bool after_data = std::find(M.kind.begin(), M.kind.end(), 'i') != M.kind.end();
      const char *cls = (after_data && c05) ? "C05.resync-after-data" : (c08 ? "C08.reply-count" : (c07 && after_data ? "C07.reply-count" : nullptr));
      if (cls && !(got.size() < M.codes.size() && got.size() + 0 == n && false)) { violate(cls, std::to_string(got.size()) + " replies, the reference server gives " + std::to_string(M.codes.size()) + "; " + tr); return; }
    }
    // --- what reached the queue
    std::vector<QMsg> q; for (auto &m0 : queued) if (!m0.orphan) q.push_back(m0);
    if (use_stub) { q.clear(); if (qq_code == 0) for (auto &s : stub_streams) { QMsg m;
        { const std::string &ev = s.second; bool complete = ev.size() >= 3 && ev[0] == 'F' && ev[ev.size() - 1] == 0 && ev[ev.size() - 2] == 0; if (!complete) continue; }  /* a queue program accepts only a terminated envelope (qmail-queue(8)) */
        const std::string &env = s.second; size_t i = 0; while (i < env.size()) { size_t z = env.find('\0', i); if (z == std::string::npos) break; std::string r = env.substr(i, z - i); if (!r.empty() && r[0] == 'F') m.sender = r.substr(1); else if (!r.empty() && r[0] == 'T') m.rcpts.push_back(r.substr(1)); i = z + 1; }
        std::string d = s.first; size_t by = d.find("\n  by "); size_t end = by == std::string::npos ? std::string::npos : d.find('\n', by + 1); if (d.compare(0, 15, "Received: from ") == 0 && end != std::string::npos) { m.received = d.substr(0, end + 1); m.body = d.substr(end + 1); } else m.body = d; m.via_stub = true; q.push_back(m); } }
    if (use_stub && !qq_read_all) { Hash64 h0; h0.str(rx); res->state_hash = h0.get(); return; }   // a queue program that stops reading early is judged by the reply class only
    // acknowledged count from the actual replies
    size_t acked = 0; { size_t di = 0; for (size_t i = 0; i < got.size() && i < M.kind.size(); i++) if (M.kind[i] == 'd') { if (got[i] == 250) acked++; di++; } }
    if (c07) {
      if (!use_stub || qq_code == 0) {
        if (q.size() > acked + (M.incomplete_data || client_cut_after_terminator() ? 1 : 0)) { violate("C07.queued-without-ack", std::to_string(q.size()) + " messages queued, " + std::to_string(acked) + " acknowledged; " + tr); return; }
        if (q.size() < acked) { violate("C07.ack-without-queue", std::to_string(acked) + " acknowledgements, " + std::to_string(q.size()) + " messages in the queue; " + tr); return; }
      }
    }
    // C05, independent of whether the reference would have accepted the message: whatever the server acknowledges with 250
    // must be stored as exactly the decoding of the lines that were transmitted (never a prefix of it)
    if (c05 && (!use_stub || qq_code == 0) && !plan->knobs.getb("real_qq_fault", false)) {
      size_t k2 = 0;
      for (size_t j = 0; j < M.phase_reply.size(); j++) { size_t ri = M.phase_reply[j]; if (ri >= got.size() || got[ri] != 250) continue;
        if (k2 >= q.size()) break; const QMsg &g = q[k2++];
        if (g.body != M.phase_body[j] && g.body != M.phase_quirk[j]) { size_t d = 0; while (d < g.body.size() && d < M.phase_body[j].size() && g.body[d] == M.phase_body[j][d]) d++;
          violate("C05.acknowledged-body", "the server answered 250 but stored " + std::to_string(g.body.size()) + " bytes where the transmitted lines decode to " + std::to_string(M.phase_body[j].size()) + " bytes (first difference at offset " + std::to_string(d) + "); " + tr); return; } }
    }
    size_t nm = std::min(q.size(), M.msgs.size());
    for (size_t i = 0; i < nm; i++) {
      const QMsg &g = q[i], &w = M.msgs[i];
      if (c08 && (g.sender != w.sender || g.rcpts != w.rcpts)) { std::string a, b; for (auto &x : g.rcpts) a += "[" + printable(x, 50) + "]"; for (auto &x : w.rcpts) b += "[" + printable(x, 50) + "]";
        violate("C08.envelope", "message " + std::to_string(i + 1) + " queued from \"" + printable(g.sender, 60) + "\" to " + a + ", the transaction was from \"" + printable(w.sender, 60) + "\" to " + b + "; " + tr); return; }
      if (c07 && (g.sender != w.sender || g.rcpts != w.rcpts)) { std::string a, b; for (auto &x : g.rcpts) a += "[" + printable(x, 50) + "]"; for (auto &x : w.rcpts) b += "[" + printable(x, 50) + "]";
        violate("C07.envelope", "queued envelope F\"" + printable(g.sender) + "\" " + a + " differs from the acknowledged one F\"" + printable(w.sender) + "\" " + b + "; " + tr); return; }
      if (c05 && g.body != w.body && g.body == w.body_quirk) { known("C05.smtpd-dot-cr-keeps-dot"); continue; }
      if (c05 && g.body != w.body) { size_t d = 0; while (d < g.body.size() && d < w.body.size() && g.body[d] == w.body[d]) d++;
        violate("C05.decoded-body", "stored body (" + std::to_string(g.body.size()) + " bytes) differs from the reference decoding (" + std::to_string(w.body.size()) + " bytes) at offset " + std::to_string(d) + ": stored \"" + printable(g.body.substr(d > 8 ? d - 8 : 0, 40)) + "\" expected \"" + printable(w.body.substr(d > 8 ? d - 8 : 0, 40)) + "\"; wire \"" + printable(tx, 200) + "\""); return; }
      if (c07 && g.body != w.body && g.body != w.body_quirk) { violate("C07.body", "queued body differs from the decoded acknowledged message; " + tr); return; }
      if (c07) {
        // Received: from <safe remotehost> [(HELO <safe helo>)] ([<safe info>@]<safe ip>)\n  by <safe local> with SMTP; <date>\n
        std::string hel = i < M.helo_at_data.size() ? M.helo_at_data[i] : "\x01";
        std::string pre = "Received: from " + safe(cf.remotehost) + (hel != "\x01" ? " (HELO " + safe(hel) + ")" : "") + " (" + (cf.have_info ? safe(cf.remoteinfo) + "@" : "") + safe(cf.remoteip) + ")\n  by " + safe(cf.local) + " with SMTP; ";
        bool ok = g.received.compare(0, pre.size(), pre) == 0;
        if (ok) { std::string date = g.received.substr(pre.size()); bool dm = false; int64_t t1 = k->clock; if (t1 - t_start > 5000) dm = date.size() > 20; else for (int64_t tt = t_start; tt <= t1 && !dm; tt++) if (date822s(tt) == date) dm = true; ok = dm; }
        if (!ok) { violate("C07.received-field", "Received field \"" + printable(g.received, 200) + "\" is not \"" + printable(pre, 200) + "<date>\""); return; }
        for (unsigned char c : g.received.substr(15)) if (!(isalnum(c) || strchr(".@%+/=:-[]? ()\n;", c))) { violate("C07.received-field", "unsafe byte in Received field: \"" + printable(g.received, 200) + "\""); return; }
      }
    }
    if (c07 && M.msgs.size() != q.size() && !(M.incomplete_data || client_cut_after_terminator())) { if (!use_stub || qq_code == 0) { violate(q.size() > M.msgs.size() ? "C07.queued-without-ack" : "C07.ack-without-queue", std::to_string(q.size()) + " messages queued, the reference expects " + std::to_string(M.msgs.size()) + "; " + tr); return; } }
    Hash64 h; h.str(rx); res->state_hash = h.get();
  }
  bool client_cut_after_terminator() { return false; }
};

World *make_world_si() { return new WorldSI; }

}  // namespace sim

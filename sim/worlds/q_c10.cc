// q_c10.cc - reference model of recipient routing/rewriting (qmail-send(8), addresses(5)) and of the configuration in force
#include <signal.h>
#include "q.h"
#include <algorithm>

namespace sim {

static std::string lower(std::string s) { for (auto &c : s) c = (char)tolower((unsigned char)c); return s; }

void RouteConf::set_lines(std::set<std::string> &dst, const std::string &data) {
  dst.clear(); size_t i = 0;
  while (i < data.size()) { size_t e = data.find('\n', i); if (e == std::string::npos) e = data.size(); std::string l = data.substr(i, e - i); i = e + 1;
    while (!l.empty() && (l.back() == ' ' || l.back() == '\t')) l.pop_back();
    if (l.empty() || l[0] == '#') continue; dst.insert(lower(l)); }
}
void RouteConf::set_vdoms(const std::string &data) {
  vdoms.clear(); size_t i = 0;
  while (i < data.size()) { size_t e = data.find('\n', i); if (e == std::string::npos) e = data.size(); std::string l = data.substr(i, e - i); i = e + 1;
    while (!l.empty() && (l.back() == ' ' || l.back() == '\t')) l.pop_back();
    if (l.empty() || l[0] == '#') continue; size_t c = l.find(':'); if (c == std::string::npos) continue; vdoms[lower(l.substr(0, c))] = l.substr(c + 1); }
}

// returns channel (0 local, 1 remote) and the rewritten address
int RouteConf::route(const std::string &recip, std::string &out) const {
  std::string a = recip;
  if (a.rfind('@') == std::string::npos) a += "@" + envnoathost;
  // percent hack, repeatedly: "user%fqdn@domain is rewritten as user@fqdn" - the domain of the rewritten address is fqdn
  for (size_t at = a.rfind('@');;) {
    if (!percenthack.count(lower(a.substr(at + 1)))) break;
    size_t pc = a.substr(0, at).rfind('%'); if (pc == std::string::npos) break;
    a = a.substr(0, at); a[pc] = '@'; at = pc;
  }
  size_t at = a.rfind('@'); std::string dom = lower(a.substr(at + 1));
  if (locals.count(dom)) { out = a; return 0; }
  std::vector<std::string> keys; keys.push_back(lower(a)); keys.push_back(dom);
  for (size_t i = 0; i < dom.size(); i++) if (dom[i] == '.') keys.push_back(dom.substr(i));
  keys.push_back("");
  for (auto &kx : keys) { auto it = vdoms.find(kx); if (it == vdoms.end()) continue; if (it->second.empty()) break; out = it->second + "-" + a; return 0; }
  out = a; return 1;
}

// envelopes(5): per-recipient VERP: owner-@host-@[] -> owner-recipbox=reciphost@host
std::string verp_sender(const std::string &sender, const std::string &recip) {
  if (sender.size() >= 4 && sender.compare(sender.size() - 4, 4, "-@[]") == 0) {
    std::string base = sender.substr(0, sender.size() - 4); size_t j = base.rfind('@'); size_t k = recip.rfind('@');
    if (j != std::string::npos && k != std::string::npos) return base.substr(0, j) + recip.substr(0, k) + "=" + recip.substr(k + 1) + "@" + base.substr(j + 1);
  }
  return sender;
}

void WorldQ::c10_on_send_event(const Event &e) {
  // which configuration did the daemon actually read last?
  std::string ctl = home + "/control/";
  // qmail-send(8): "If qmail-send receives a HUP signal, it will reread locals and virtualdomains." A HUP whose handler has run
  // obliges this process to begin a reread (the chdir to the home directory) - not before its next return from select, because the
  // handler may have run after the main loop looked at its flag (same shape as the recorded ALRM finding), but before the one after.
  if (e.pid != rc_hup_pid) { rc_hup_pid = e.pid; rc_hup_owed = false; rc_hup_selects = 0; }
  if (e.call == C_SIGNAL && e.a == SIGHUP && e.b == 0) { rc_hup_owed = true; rc_hup_selects = 0; k->probe(rc_reading ? "hup_during_reread" : "hup_handled"); return; }
  if (e.call == C_CHDIR && e.path == home) { rc_hup_owed = false; }
  if (e.call == C_SELECT && rc_hup_owed && enabled("c10")) { if (++rc_hup_selects >= 2) { rc_hup_owed = false; violate("C10.hup-ignored", "qmail-send handled a HUP and has come back from select twice since without starting to reread its control files"); return; } }
  if (e.call == C_CHDIR && e.ret == 0) {
    if (e.path == home) { rc_reading = true; rc_failed = false; rc_cand = rc_force; rc_seen_locals = rc_seen_vdoms = false; }
    else if (e.path == home + "/queue" && rc_reading) {
      rc_reading = false;
      if (!rc_failed && rc_seen_locals && rc_seen_vdoms) { rc_force = rc_cand; rc_valid = true; k->probe("routing_conf_committed"); }
      else k->probe("routing_conf_reread_failed");
    }
    return;
  }
  if (!rc_reading) return;
  if (e.call == C_OPEN && e.path.compare(0, ctl.size(), ctl) == 0) {
    std::string f = e.path.substr(ctl.size());
    bool missing = e.ret < 0 && e.err == 2; if (e.ret < 0 && !missing) { if (f == "locals" || f == "virtualdomains" || !rc_valid) rc_failed = true; return; }
    std::string data = missing ? "" : (e.ino ? e.ino->data : "");
    if (f == "me") { rc_me = data; rc_me = rc_me.substr(0, rc_me.find('\n')); while (!rc_me.empty() && (rc_me.back() == ' ' || rc_me.back() == '\t')) rc_me.pop_back(); }
    else if (f == "locals") { rc_seen_locals = true; RouteConf::set_lines(rc_cand.locals, missing ? rc_me + "\n" : data); }
    else if (f == "virtualdomains") { rc_seen_vdoms = true; rc_cand.set_vdoms(data); }
    else if (f == "percenthack" && !rc_valid) RouteConf::set_lines(rc_cand.percenthack, data);
    else if (f == "envnoathost" && !rc_valid) { std::string v = missing ? rc_me : data.substr(0, data.find('\n')); while (!v.empty() && (v.back() == ' ' || v.back() == '\t')) v.pop_back();   /* qmail-control(5): trailing spaces and tabs are ignored */ rc_cand.envnoathost = v; }
  }
  if (e.call == C_READ && e.ret < 0 && e.path.compare(0, ctl.size(), ctl) == 0) rc_failed = true;
}

void WorldQ::c10_check_preprocessed(GMsg *m) {
  if (!enabled("c10") || !m->tagged || !rc_valid) return;
  if (expected_exit(m->env_raw) != 0) return;
  std::vector<std::pair<int, std::string>> want;
  for (auto &r : m->rcpts) { std::string out; int ch = rc_force.route(r, out); want.push_back({ch, out}); }
  res->nontrivial = true; k->probe("routing_checked", want.size());
  for (int c = 0; c < 2; c++) {
    std::vector<std::string> w, g;
    for (auto &x : want) if (x.first == c) w.push_back(x.second);
    for (auto &r : m->rc) if (r.chan == c) g.push_back(r.addr);
    if (w != g) {
      std::string ws, gs; for (auto &x : w) ws += "[" + printable(x, 60) + "]"; for (auto &x : g) gs += "[" + printable(x, 60) + "]";
      std::string in; for (auto &x : m->rcpts) in += "[" + printable(x, 60) + "]";
      violate("C10.routing", m->id + ": " + (c == 0 ? "local" : "remote") + " channel file holds " + gs + ", the documented rules give " + ws + " for envelope " + in);
      return;
    }
  }
}

void WorldQ::c10_check_command(const SpawnCmd &c, GMsg *m) {
  if (!enabled("c10") || !m->tagged) return;
  std::string want = verp_sender(m->info_sender, c.recip);
  if (c.sender != want) violate("C10.verp-sender", m->id + ": delivery command for " + printable(c.recip) + " carries sender \"" + printable(c.sender) + "\", expected \"" + printable(want) + "\" (envelope sender \"" + printable(m->info_sender) + "\")");
}

}  // namespace sim

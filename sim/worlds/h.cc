// h.cc - world H: one trusted helper (qmail-clean, qmail-lspawn, qmail-rspawn) under a hostile peer on its pipes (C18 a/b)
#include "common.h"
#include <errno.h>
#include <fcntl.h>
#include <string.h>
#include <sys/wait.h>
#include <algorithm>

namespace sim {

struct WorldH : World {
  QmailTree t;
  std::string mode;               // clean | lspawn | rspawn
  std::string stream;             // bytes fed to the helper's fd 0
  Sink *out = nullptr, *errs = nullptr;
  int helper_pid = 0; bool helper_done = false; int helper_status = -1;
  std::string newu_old, newu_new, newu_after; bool newu_new_ok = false, newu_crashed = false;
  // clean
  std::vector<std::string> unlinks;   // canonical paths qmail-clean tried to unlink under queue/ (pid/ sweeps recorded separately)
  std::vector<std::string> pid_unlinks; std::vector<int> unlink_err;   // errno of each unlink attempt outside pid/ (0 = removed)
  // spawners
  struct Agent { std::string role; std::vector<std::string> argv; uint32_t uid, euid, gid; std::vector<uint32_t> groups; bool fd0_regular = false; uint32_t fd0_owner = 0; std::string fd0_path; std::string idseq; int pid = 0; bool used = false;  std::vector<int> extra_fds;};
  std::vector<Agent> agents;
  std::vector<std::string> spawner_opens;
  Json agent_script;              // list of {out, code, crash}
  size_t agent_no = 0;
  std::map<int, std::string> idseq;   // per child pid: order of setgroups/setgid/setuid calls before exec
  bool c11 = false, c09r = false; int newu_status = -1; std::string assign_src; bool cdb_damaged = false; bool lookup_fault = false;

  void setup() override {
    t.build(k, conf);
    mode = plan->knobs.gets("mode", "clean");
    for (auto &op : plan->ops.a) if (op.gets("op") == "stream") stream += op.gets("bytes");
    agent_script = plan->knobs["agents"];
    out = k->new_sink("helper-out"); errs = k->new_sink("helper-err");
    uint32_t uq = t.uids["qmailq"];
    k->put_exec(t.home + "/bin/qmail-clean", "qmail-clean", 0711);
    k->put_exec(t.home + "/bin/qmail-lspawn", "qmail-lspawn", 0700);
    k->put_exec(t.home + "/bin/qmail-rspawn", "qmail-rspawn", 0711);
    k->put_exec(t.home + "/bin/qmail-getpw", "qmail-getpw", 0711);
    k->put_exec(t.home + "/bin/qmail-local", "stub:agent", 0711);
    k->put_exec(t.home + "/bin/qmail-remote", "stub:agent", 0711);
    k->natives["agent"] = [this](int argc, char **argv) { return agent_main(argc, argv); };
    for (auto &o : plan->knobs["oracles"].a) { if (o.str() == "c11") c11 = true; if (o.str() == "c09") c09r = true; }
    if (plan->knobs.has("passwd")) {
      for (auto &u : plan->knobs["passwd"].a) {
        k->passwd.push_back(PwEnt{u.gets("name"), (uint32_t)u.geti("uid"), (uint32_t)u.geti("gid"), u.gets("home"), "/bin/sh"});
        if (u.getb("home_exists", true)) k->mkdir_p(u.gets("home"), 0755, (uint32_t)u.geti("home_uid", u.geti("uid")), (uint32_t)u.geti("gid"));
      }
    } else { k->passwd.push_back(PwEnt{"user1", 1001, 1001, "/home/user1", "/bin/sh"}); k->mkdir_p("/home/user1", 0755, 1001, 1001); }
    k->mkdir_p(t.home + "/alias", 02755, t.uids["alias"], t.gid_qmail)->uid = t.uids["alias"];
    k->put_exec(t.home + "/bin/qmail-newu", "qmail-newu", 0700);
    if (mode == "pw2u") {
      k->put_exec(t.home + "/bin/qmail-pw2u", "qmail-pw2u", 0711);
      const Json &pj = plan->knobs["pw2u"];
      for (const char *fn : {"include", "exclude", "mailnames", "subusers", "append"}) if (pj.has(fn)) k->put_file(t.home + "/users/" + fn, pj.gets(fn), 0644);
    }
    if (plan->knobs.has("assign") && mode != "newu") { assign_src = plan->knobs.gets("assign"); k->put_file(t.home + "/users/assign", assign_src, 0644); }
    if (plan->knobs.has("getpw_stub")) { k->put_exec(t.home + "/bin/qmail-getpw", "stub:getpw", 0711); k->natives["getpw"] = [this](int, char **) { const Json &g = plan->knobs["getpw_stub"]; std::string o = g.gets("out"); if (!o.empty()) k->sys_write(1, o.data(), o.size()); if (g.getb("crash", false)) k->kill_proc(k->cp(), 11); return (int)g.geti("code", 0); }; }
    for (auto &f : plan->faults) if (f.kind == "error" || f.kind == "kill" || f.kind == "null") lookup_fault = true;
    // decoys: every file a wrongly parsed request or message id could hit
    for (uint64_t n : {1ULL, 2ULL, 12ULL, 34ULL, 77ULL, 123ULL, 1234ULL}) {
      k->put_file(t.qp("mess", n, true), "decoy message " + std::to_string(n) + "\n", 0644, uq, t.gid_qmail);
      // the spawners take the message path verbatim from the daemon; generated commands name n%23/n whatever conf-split the build has
      if (t.split != 23 && mode != "clean") { std::string dd = t.home + "/queue/mess/" + std::to_string(n % 23); k->mkdir_p(dd, 0700, uq, t.gid_qmail); k->put_file(dd + "/" + std::to_string(n), "decoy message " + std::to_string(n) + "\n", 0644, uq, t.gid_qmail); }
      k->put_file(t.qp("intd", n, false), "decoy", 0644, uq, t.gid_qmail);
      k->put_file(t.qp("todo", n, false), "decoy", 0644, uq, t.gid_qmail);
      k->put_file(t.qp("info", n, true), "Fdecoy", 0600, t.uids["qmails"], t.gid_qmail);
    }
    // numerically named things that must not be handed to an agent
    k->mkdir_p(t.home + "/queue/mess/5/99", 0700, uq, t.gid_qmail);                        // a directory
    { Inode *f = k->put_fifo(t.home + "/queue/mess/7/7", 0622, uq, t.gid_qmail); (void)f; }   // a FIFO
    k->put_file(t.home + "/queue/mess/8/8", "foreign\n", 0644, 1001, 1001);                   // wrong owner
    k->put_file(t.home + "/queue/mess/9", "not split\n", 0644, uq, t.gid_qmail);             // numeric, regular, right owner, odd place
    k->put_file("/etc/passwd", "root:x:0:0::/:/bin/sh\n", 0644, 0, 0);
    k->put_file(t.home + "/queue/lock/x", "x", 0644, uq, t.gid_qmail);
    // stale pid files (older than 36 h) may be swept by qmail-clean; fresh ones may not
    { Inode *f = k->put_file(t.home + "/queue/pid/old.1.1", "", 0644, uq, t.gid_qmail); f->atime = f->mtime = k->clock - 200000; }
    k->put_file(t.home + "/queue/pid/fresh.1.1", "", 0644, uq, t.gid_qmail);
  }

  int agent_main(int argc, char **argv) {
    // stand-in for qmail-local / qmail-remote: record identity and argv, answer as scripted
    Proc *p = k->cp();
    Agent a; a.role = p->role; for (int i = 0; i < argc; i++) a.argv.push_back(argv[i]); a.uid = p->uid; a.euid = p->euid; a.gid = p->gid; a.groups = p->groups;
    if (p->fds.size() > 0 && p->fds[0].of) { OFile *of = p->fds[0].of; a.fd0_regular = of->kind == O_FILE && of->ino && of->ino->type == T_REG; a.fd0_owner = of->ino ? of->ino->uid : 0; a.fd0_path = of->path; }
    a.pid = p->pid; a.idseq = idseq[p->pid];
    for (size_t fd = 3; fd < p->fds.size(); fd++) if (p->fds[fd].of) a.extra_fds.push_back((int)fd);   // a delivery agent gets the message, its own report pipe, and nothing else
    agents.push_back(a);
    // which script? in C09 mode the recipient "u<k>@..." names it, otherwise in order of running
    size_t pick = agent_no++; if (c09r && a.argv.size() >= 4 && a.argv[3].size() > 1 && a.argv[3][0] == 'u') pick = (size_t)atoi(a.argv[3].c_str() + 1);
    Json sc = agent_script.a.empty() ? Json::obj() : agent_script.a[pick % agent_script.a.size()];
    std::string o = sc.gets("out", "K ok\n");
    int64_t lat = sc.geti("lat", 0);
    if (lat) k->block([] { return false; }, k->clock + lat, false);
    size_t off = 0; while (off < o.size()) { ssize_t w = k->sys_write(1, o.data() + off, std::min<size_t>(o.size() - off, 700)); if (w <= 0) break; off += (size_t)w; }
    // an agent may close its output and only then, some time later, exit or crash: end of file on the pipe and the wait status
    // are separate pieces of news, and the verdict needs both
    if (sc.geti("linger", 0) > 0) { k->sys_close(1); k->sys_close(2); k->block([] { return false; }, k->clock + sc.geti("linger", 0), false); }
    if (sc.getb("crash", false)) k->kill_proc(p, 11);
    return (int)sc.geti("code", 0);
  }

  void driver() override {
    if (!assign_src.empty()) {
      int np = k->spawn(k->cp(), t.home + "/bin/qmail-newu", {"qmail-newu"}, {}, {{0, k->of_null()}, {1, k->of_sink(errs)}, {2, k->of_sink(errs)}}, 0, 0, "/");
      k->block([this, np] { Proc *p = k->find_proc(np); return !p || p->st != Proc::LIVE; }, k->clock + 1000, false);
      Proc *p = k->find_proc(np); newu_status = p ? p->status : -1;
      int64_t tr = plan->knobs.geti("cdb_truncate", -1);
      Inode *cdb = k->lookup(t.home + "/users/cdb");
      if (cdb) for (auto &fl : plan->knobs["cdb_flip"].a) { size_t off = (size_t)fl.i() % (cdb->data.size() ? cdb->data.size() : 1); if (!cdb->data.empty()) { cdb->data[off] = (char)(cdb->data[off] ^ (1 << (fl.i() % 8))); cdb->synced = cdb->data; cdb_damaged = true; k->note_fault("cdb_corrupt"); } }
      if (cdb && tr >= 0 && (size_t)tr < cdb->data.size()) { cdb->data.resize((size_t)tr); cdb->synced = cdb->data; cdb_damaged = true; k->note_fault("cdb_corrupt"); }
    }
    if (mode == "newu") {
      // the table is rebuilt while mail is being delivered: users/cdb must at every instant be a complete table - the old one or the
      // new one - whatever stops qmail-newu (an I/O error, a signal, the machine)
      auto run_newu = [&]() { int np = k->spawn(k->cp(), t.home + "/bin/qmail-newu", {"qmail-newu"}, {}, {{0, k->of_null()}, {1, k->of_sink(errs)}, {2, k->of_sink(errs)}}, 0, 0, "/"); helper_pid = np;
        k->block([this, np] { Proc *p = k->find_proc(np); return !p || p->st != Proc::LIVE; }, k->clock + 1000, false); Proc *p = k->find_proc(np); return p ? p->status : -1; };
      auto cdb_now = [&]() -> std::string { Inode *c = k->lookup(t.home + "/users/cdb"); return c ? "present:" + c->data : std::string("absent"); };
      k->put_file(t.home + "/users/assign", plan->knobs.gets("assign_old"), 0644); run_newu(); newu_old = cdb_now();
      k->put_file(t.home + "/users/assign", plan->knobs.gets("assign"), 0644); int st2 = run_newu(); newu_new = st2 == 0 ? cdb_now() : newu_old; newu_new_ok = st2 == 0;
      // back to the old table, then the run that is disturbed (the third qmail-newu of this plan)
      { Inode *ud = k->lookup(t.home + "/users"); if (ud) { ud->ents.erase("cdb"); ud->ents.erase("cdb.tmp"); } if (newu_old != "absent") k->put_file(t.home + "/users/cdb", newu_old.substr(8), 0644); }
      k->crashed_flag = false; int st3 = run_newu(); newu_crashed = k->crashed_flag; k->crashed_flag = false; newu_status = st3; newu_after = cdb_now();
      helper_done = true; k->stop = true; return;
    }
    if (mode == "pw2u") {
      std::vector<std::string> av = {"qmail-pw2u"}; for (auto &a : plan->knobs["pw2u"]["args"].a) av.push_back(a.str());
      helper_pid = k->spawn(k->cp(), t.home + "/bin/qmail-pw2u", av, {}, {{0, k->of_preloaded(plan->knobs["pw2u"].gets("passwd_text"), "passwd")}, {1, k->of_sink(out)}, {2, k->of_sink(errs)}}, 0, 0, "/");
      int pid2 = helper_pid; k->block([this, pid2] { Proc *p = k->find_proc(pid2); return !p || p->st != Proc::LIVE; }, k->clock + 100000, false);
      k->stop = true; return;
    }
    std::string bin = mode == "clean" ? "qmail-clean" : mode == "lspawn" ? "qmail-lspawn" : "qmail-rspawn";
    std::vector<std::string> argv = {bin}; if (mode == "lspawn") argv.push_back("./Mailbox");
    uint32_t uid = mode == "clean" ? t.uids["qmailq"] : mode == "lspawn" ? 0 : t.uids["qmailr"];
    std::vector<Kernel::FdSpec> fds = {{0, k->of_preloaded(stream, "hostile-peer")}, {1, k->of_sink(out)}, {2, k->of_sink(errs)}};
    helper_pid = k->spawn(k->cp(), t.home + "/bin/" + bin, argv, {"PATH=" + t.home + "/bin"}, fds, uid, t.gid_qmail, "/");
    int pid = helper_pid;
    k->block([this, pid] { Proc *p = k->find_proc(pid); return !p || p->st != Proc::LIVE; }, k->clock + 100000, false);
    k->stop = true;
  }

  void on_event(const Event &e) override {
    Proc *p = e.proc; if (!p) return;
    if (e.pid == helper_pid && e.call == C_EXIT) { helper_done = true; helper_status = (int)e.a; }
    if (mode == "clean" && p->role == "qmail-clean") {
      if (e.call == C_UNLINK) { if (e.path.find("/queue/pid/") != std::string::npos) { if (e.ret == 0) pid_unlinks.push_back(e.path); } else { unlinks.push_back(e.path); unlink_err.push_back(e.ret == 0 ? 0 : (int)e.err); } }
      bool mut = (e.call == C_RENAME || e.call == C_LINK || e.call == C_FTRUNCATE || e.call == C_MKDIR || (e.call == C_WRITE && e.ino) || (e.call == C_OPEN && (e.a & (O_WRONLY | O_RDWR | O_CREAT | O_TRUNC)))) && e.ret >= 0;
      if (mut) violate("C18.clean-modifies-files", std::string(call_name(e.call)) + " " + e.path);
    }
    if (p->role == "qmail-lspawn/child" && e.ret == 0) {
      if (e.call == C_SETGROUPS) idseq[e.pid] += "G(" + std::to_string(e.a) + ":" + std::to_string(e.b) + ")";
      if (e.call == C_SETGID) idseq[e.pid] += "g(" + std::to_string(e.a) + ")";
      if (e.call == C_SETUID) idseq[e.pid] += "u(" + std::to_string(e.a) + ")";
    }
    if ((mode == "lspawn" && p->role == "qmail-lspawn") || (mode == "rspawn" && p->role == "qmail-rspawn")) {
      if (e.call == C_OPEN) spawner_opens.push_back(e.path);
      if ((e.call == C_UNLINK || e.call == C_RENAME || e.call == C_LINK) && e.ret >= 0) violate("C18.spawner-modifies-files", std::string(call_name(e.call)) + " " + e.path);
    }
  }

  // ---------------------------------------------------------------- reference for qmail-clean requests
  static bool all_digits(const std::string &s) { if (s.empty()) return false; for (char c : s) if (c < '0' || c > '9') return false; return true; }
  static std::string dec_mod(const std::string &digits, unsigned m) { unsigned r = 0; for (char c : digits) r = (r * 10 + (unsigned)(c - '0')) % m; return std::to_string(r); }
  static std::string strip_zeros(const std::string &d) { size_t i = 0; while (i + 1 < d.size() && d[i] == '0') i++; return d.substr(i); }

  void finish_clean() {
    std::vector<std::string> reqs; size_t i = 0;
    while (i < stream.size()) { size_t z = stream.find('\0', i); if (z == std::string::npos) break; reqs.push_back(stream.substr(i, z - i)); i = z + 1; }
    std::string want_resp; std::vector<std::string> want_unlinks;
    std::string q = t.home + "/queue/";
    size_t ridx = 0;
    for (auto &r : reqs) {
      bool ok = r.size() + 1 >= 7 && r.size() + 1 <= 100 && (r.compare(0, 5, "foop/") == 0 || r.compare(0, 5, "todo/") == 0) && all_digits(r.substr(5));
      char actual = ridx < out->data.size() ? out->data[ridx] : 0; ridx++;
      if (!ok) { want_resp += 'x'; continue; }
      std::string num = strip_zeros(r.substr(5));   // the decimal message number named in the request
      // a number that no inode can have (>= 2^64) may be refused; if it is accepted, only the exactly named files may go
      bool huge = num.size() > 20 || (num.size() == 20 && num > "18446744073709551615");
      if (huge && actual == 'x') { want_resp += 'x'; continue; }
      // qmail-clean(8): remove intd/N, then mess/N or todo/N; a removal that fails for another reason than "not there" ends the
      // request with '!' and the second file is left alone
      want_unlinks.push_back(q + "intd/" + num);
      { size_t ui = want_unlinks.size() - 1; int e1 = ui < unlink_err.size() && ui < unlinks.size() && unlinks[ui] == want_unlinks[ui] ? unlink_err[ui] : 0; if (e1 != 0 && e1 != ENOENT) { want_resp += '!'; k->probe("clean_unlink_failed"); continue; } }
      if (r[0] == 'f') want_unlinks.push_back(q + "mess/" + dec_mod(num, (unsigned)t.split) + "/" + num); else want_unlinks.push_back(q + "todo/" + num);
      { size_t ui = want_unlinks.size() - 1; int e2 = ui < unlink_err.size() && ui < unlinks.size() && unlinks[ui] == want_unlinks[ui] ? unlink_err[ui] : 0; if (e2 != 0 && e2 != ENOENT) { want_resp += '!'; k->probe("clean_unlink_failed"); continue; } }
      want_resp += '+';
    }
    res->nontrivial = !reqs.empty();
    k->probe("clean_requests", reqs.size());
    if (!helper_done) { violate("C18.clean-did-not-finish", "qmail-clean still running after the request stream ended"); return; }
    // a request that the reference rejects must not be followed by any file removal; compare the whole history
    if (unlinks != want_unlinks) {
      std::string a, b; for (auto &x : unlinks) a += x.substr(q.size()) + " "; for (auto &x : want_unlinks) b += x.substr(q.size()) + " ";
      std::string rq; for (auto &x : reqs) rq += "[" + printable(x, 40) + "] ";
      violate("C18.clean-unlinks", "requests " + rq + ": qmail-clean unlinked { " + a + "}, validated requests name { " + b + "}"); return;
    }
    if (out->data != want_resp) {
      std::string rq; for (auto &x : reqs) rq += "[" + printable(x, 40) + "] ";
      violate("C18.clean-responses", "requests " + rq + ": qmail-clean answered \"" + printable(out->data, 80) + "\", one status byte per request would be \"" + want_resp + "\""); return;
    }
    for (auto &x : pid_unlinks) if (x.find("fresh") != std::string::npos) violate("C18.clean-unlinks", "fresh pid file removed: " + x);
  }

  // ---------------------------------------------------------------- spawners
  void finish_spawner() {
    // commands fed
    struct Cmd { int delnum; std::string messid, sender, recip; };
    std::vector<Cmd> cmds; size_t i = 0;
    while (i < stream.size()) {
      size_t a = stream.find('\0', i + 1); if (a == std::string::npos) break;
      size_t b = stream.find('\0', a + 1); if (b == std::string::npos) break;
      size_t c = stream.find('\0', b + 1); if (c == std::string::npos) break;
      cmds.push_back(Cmd{(unsigned char)stream[i], stream.substr(i + 1, a - i - 1), stream.substr(a + 1, b - a - 1), stream.substr(b + 1, c - b - 1)}); i = c + 1;
    }
    res->nontrivial = !cmds.empty(); k->probe("spawner_commands", cmds.size()); k->probe("agents_started", agents.size());
    if (!helper_done) { violate("C18.spawner-did-not-finish", mode + " still running after its input ended and every agent exited"); return; }
    // reports: first byte announces the limit; then delnum text NUL
    const std::string &o = out->data;
    if (o.empty()) { violate("C18.spawner-no-greeting", mode + " wrote nothing"); return; }
    std::map<int, int> want, got;
    for (auto &c : cmds) want[c.delnum]++;
    size_t p = 1; int nrep = 0;
    while (p < o.size()) { size_t z = o.find('\0', p + 1); if (z == std::string::npos) { violate("C18.spawner-report-format", "unterminated report at offset " + std::to_string(p)); return; }
      int dn = (unsigned char)o[p]; std::string text = o.substr(p + 1, z - p - 1); got[dn]++; nrep++;
      if (text.empty() || (text[0] != 'K' && text[0] != 'Z' && text[0] != 'D')) { violate("C18.spawner-report-format", "report for delivery " + std::to_string(dn) + " starts with \"" + printable(text.substr(0, 10)) + "\""); return; }
      p = z + 1; }
    if (want != got) {
      std::string a, b; for (auto &x : want) a += std::to_string(x.first) + "x" + std::to_string(x.second) + " "; for (auto &x : got) b += std::to_string(x.first) + "x" + std::to_string(x.second) + " ";
      violate("C18.spawner-report-count", mode + ": commands per delivery number { " + a + "} but reports { " + b + "}"); return;
    }
    // opens: fixed configuration paths or numerically named files under queue/mess
    std::string mess = t.home + "/queue/mess/";
    for (auto &pth : spawner_opens) {
      if (pth == t.home + "/queue/lock/tcpto") continue;
      bool ok = pth.compare(0, mess.size(), mess) == 0; std::string rest = ok ? pth.substr(mess.size()) : "";
      if (ok) for (char c : rest) if (!((c >= '0' && c <= '9') || c == '/')) ok = false;
      if (ok && (rest.empty() || rest[0] == '/')) ok = false;
      if (!ok) { violate("C18.spawner-opens-foreign-path", mode + " opened " + pth); return; }
    }
    uint32_t uq = t.uids["qmailq"];
    for (auto &a : agents) {
      if (!a.fd0_regular || a.fd0_owner != uq) { violate("C18.agent-on-unvalidated-file", a.role + " was started with descriptor 0 on " + a.fd0_path + (a.fd0_regular ? " (owner " + std::to_string(a.fd0_owner) + ")" : " (not a regular file)")); return; }
      if (a.role == "qmail-local" && a.uid == 0) { violate("C18.agent-as-root", "qmail-local started as root"); return; }
      if (!a.extra_fds.empty()) { std::string l; for (int fd : a.extra_fds) l += std::to_string(fd) + " "; violate("C18.agent-inherits-descriptors", a.role + " (pid " + std::to_string(a.pid) + ") was started with descriptors { " + l + "} open besides 0, 1 and 2: the report pipes of other deliveries must not leak into an agent"); return; }
    }
  }

  // ---------------------------------------------------------------- C11: who runs the delivery?
  struct Ident { bool found = false; std::string user, uid, gid, home, dash, ext; };
  static std::string lowers(std::string x) { for (auto &c : x) c = (char)tolower((unsigned char)c); return x; }
  // qmail-users(5) over the SOURCE table: simple assignment first (first duplicate wins), then the longest wildcard prefix; case-insensitive
  bool ref_assign(const std::string &local, Ident &id, bool &table_ok) {
    table_ok = true;
    struct Ent { bool wild; std::string loc; std::vector<std::string> f; };
    std::vector<Ent> ents; size_t i = 0; bool ended = false;
    while (i < assign_src.size()) {
      size_t e = assign_src.find('\n', i); if (e == std::string::npos) { std::string last = assign_src.substr(i); if (!last.empty() && last[0] == '.') ended = true; else table_ok = false; break; }
      std::string l = assign_src.substr(i, e - i); i = e + 1;
      if (!l.empty() && l[0] == '.') { ended = true; break; }
      size_t c = l.find(':'); if (c == std::string::npos || c == 0 || l.find('\0') != std::string::npos) { table_ok = false; break; }
      Ent en; en.wild = l[0] == '+'; en.loc = lowers(l.substr(1, c - 1));
      std::string rest = l.substr(c + 1); size_t q = 0; while (en.f.size() < 6) { size_t cc = rest.find(':', q); if (cc == std::string::npos) break; en.f.push_back(rest.substr(q, cc - q)); q = cc + 1; }
      if (en.f.size() < 6) { table_ok = false; break; }
      ents.push_back(en);
    }
    if (!ended) table_ok = false;
    if (!table_ok) return false;
    std::string key = lowers(local);
    for (auto &en : ents) if (!en.wild && en.loc == key) { id.found = true; id.user = en.f[0]; id.uid = en.f[1]; id.gid = en.f[2]; id.home = en.f[3]; id.dash = en.f[4]; id.ext = en.f[5]; return true; }
    for (size_t len = key.size() + 1; len-- > 0;) for (auto &en : ents) if (en.wild && en.loc == key.substr(0, len)) { id.found = true; id.user = en.f[0]; id.uid = en.f[1]; id.gid = en.f[2]; id.home = en.f[3]; id.dash = en.f[4]; id.ext = en.f[5] + local.substr(len); return true; }
    return false;
  }
  // qmail-getpw(8) over the passwd table
  bool ref_getpw(const std::string &local, Ident &id) {
    char brk = conf.gets("break", "-")[0];
    for (size_t kx = local.size() + 1; kx-- > 0;) {
      if (kx >= 32) continue;
      if (!(kx == local.size() || local[kx] == brk)) continue;
      std::string name = lowers(local.substr(0, kx));
      for (auto &pe : k->passwd) if (pe.name == name) {   // first entry with that name is what getpwnam returns
        if (pe.uid == 0) break;
        Inode *h = k->lookup(pe.dir); if (!h || h->uid != pe.uid) break;
        id.found = true; id.user = pe.name; id.uid = std::to_string(pe.uid); id.gid = std::to_string(pe.gid); id.home = pe.dir;
        if (kx < local.size()) { id.dash = "-"; id.ext = local.substr(kx + 1); } else { id.dash = ""; id.ext = ""; }
        return true;
      }
    }
    std::string alias = conf["users"].a.size() ? conf["users"].a[0].str() : "alias";
    for (auto &pe : k->passwd) if (pe.name == alias) { id.found = true; id.user = pe.name; id.uid = std::to_string(pe.uid); id.gid = std::to_string(pe.gid); id.home = pe.dir; id.dash = "-"; id.ext = local; return true; }
    return false;
  }

  void finish_c11() {
    struct Cmd { int delnum; std::string messid, sender, recip; };
    std::vector<Cmd> cmds; size_t i = 0;
    while (i < stream.size()) { size_t a = stream.find('\0', i + 1); if (a == std::string::npos) break; size_t b = stream.find('\0', a + 1); if (b == std::string::npos) break; size_t c = stream.find('\0', b + 1); if (c == std::string::npos) break;
      cmds.push_back(Cmd{(unsigned char)stream[i], stream.substr(i + 1, a - i - 1), stream.substr(a + 1, b - a - 1), stream.substr(b + 1, c - b - 1)}); i = c + 1; }
    if (!helper_done) { violate("C11.lspawn-did-not-finish", "qmail-lspawn still running"); return; }
    std::map<int, std::string> reports; { const std::string &o = out->data; size_t p = 1; while (p < o.size()) { size_t z = o.find('\0', p + 1); if (z == std::string::npos) break; reports[(unsigned char)o[p]] = o.substr(p + 1, z - p - 1); p = z + 1; } }
    bool have_cdb = k->lookup(t.home + "/users/cdb") != nullptr;
    for (auto &c : cmds) {
      size_t at = c.recip.rfind('@'); if (at == std::string::npos) continue;
      std::string local = c.recip.substr(0, at), domain = c.recip.substr(at + 1);
      if (local.empty()) continue;   // <>: nothing to run
      Ident want; bool table_ok = true; bool from_table = false;
      if (have_cdb) { from_table = ref_assign(local, want, table_ok); }
      if (!want.found) ref_getpw(local, want);
      std::string rep = reports.count(c.delnum) ? reports[c.delnum] : "";
      std::string ctx = "address " + printable(local) + "@" + domain + " (delivery " + std::to_string(c.delnum) + ")";
      res->nontrivial = true; k->probe("c11_lookups");
      // a delivery number at or above the compiled-in conf-spawn is refused by spawn.c before any lookup
      if (c.delnum >= (int)conf.geti("spawn", 120)) { if (rep.empty() || rep[0] != 'Z') { violate("C11.over-limit-not-deferred", ctx + ": report \"" + printable(rep, 60) + "\" for a delivery number beyond conf-spawn"); return; } k->probe("delnum_beyond_conf_spawn"); continue; }
      bool uncertain = cdb_damaged || lookup_fault || plan->knobs.has("getpw_stub");
      Agent *got = nullptr;   // agents are recorded when they run, which need not be the order of the commands
      for (auto &ag : agents) if (!ag.used && ag.argv.size() >= 5 && ag.argv[4] == local) { got = &ag; ag.used = true; break; }
      if (uncertain) {
        // a damaged database or a failing lookup may defer; it must never bounce, run as somebody else, or run as root
        if (got) { if (!want.found || got->argv[2] != want.user || std::to_string(got->uid) != want.uid) { violate("C11.misdirected-under-fault", ctx + ": delivered as " + got->argv[2] + " uid " + std::to_string(got->uid) + " under a lookup fault, the table says " + (want.found ? want.user + " uid " + want.uid : std::string("nobody"))); return; }
          // whatever failed on the way, an agent that does start has switched groups, gid and uid completely and in that order
          unsigned long fuid = strtoul(want.uid.c_str(), 0, 10), fgid = strtoul(want.gid.c_str(), 0, 10);
          if (got->uid == 0 || got->euid == 0) { violate("C11.delivery-as-root", ctx + ": qmail-local runs with uid " + std::to_string(got->uid) + "/" + std::to_string(got->euid) + " under a lookup fault"); return; }
          if (got->uid != fuid || got->euid != fuid || got->gid != fgid) { violate("C11.identity", ctx + ": running as uid " + std::to_string(got->uid) + "/" + std::to_string(got->euid) + " gid " + std::to_string(got->gid) + " under a fault, expected " + want.uid + "/" + want.gid); return; }
          if (got->groups.size() != 1 || got->groups[0] != fgid) { violate("C11.supplementary-groups", ctx + ": group list not reduced to {" + want.gid + "} (a failing identity switch must defer, not start the agent)"); return; }
          std::string fseq = "G(1:" + std::to_string(fgid) + ")g(" + std::to_string(fgid) + ")u(" + std::to_string(fuid) + ")";
          if (got->idseq != fseq) { violate("C11.id-switch-order", ctx + ": id switches " + got->idseq + ", expected " + fseq + " (groups, gid, then uid)"); return; } }
        else if (rep.empty() || rep[0] != 'Z') { violate("C11.lookup-fault-not-deferred", ctx + ": report \"" + printable(rep, 60) + "\" after a lookup fault, expected a temporary failure"); return; }
        continue;
      }
      if (!want.found) { if (got) { violate("C11.identity", ctx + ": delivered although neither table nor passwd rules assign it"); return; } if (rep.empty() || rep[0] != 'Z') { violate("C11.no-user-not-deferred", ctx + ": report \"" + printable(rep, 60) + "\""); return; } continue; }
      unsigned long wuid = strtoul(want.uid.c_str(), 0, 10), wgid = strtoul(want.gid.c_str(), 0, 10);
      if (got && (got->uid == 0 || got->euid == 0)) { violate("C11.delivery-as-root", ctx + ": qmail-local runs with uid " + std::to_string(got->uid) + "/" + std::to_string(got->euid) + " for the assignment uid " + want.uid); return; }
      if ((uint32_t)wuid == 0) { k->probe("c11_zero_uid_assignment"); if (got) { violate("C11.delivery-as-root", ctx + ": qmail-local started for a uid-0 assignment"); return; } if (rep.empty() || rep[0] != 'Z') { violate("C11.root-not-deferred", ctx + ": report \"" + printable(rep, 60) + "\""); return; } continue; }
      if (!got) { violate("C11.not-delivered", ctx + ": no qmail-local was started (report \"" + printable(rep, 80) + "\"), expected user " + want.user + (from_table ? " from users/assign" : " from the passwd rules")); return; }
      std::vector<std::string> wargv = {"bin/qmail-local", "--", want.user, want.home, local, want.dash, want.ext, domain, c.sender, "./Mailbox"};
      if (got->argv != wargv) { std::string a, b; for (auto &x : got->argv) a += "[" + printable(x, 30) + "]"; for (auto &x : wargv) b += "[" + printable(x, 30) + "]"; violate("C11.identity", ctx + ": qmail-local started with " + a + ", expected " + b); return; }
      if (got->uid != wuid || got->euid != wuid || got->gid != wgid) { violate("C11.identity", ctx + ": running as uid " + std::to_string(got->uid) + "/" + std::to_string(got->euid) + " gid " + std::to_string(got->gid) + ", expected " + want.uid + "/" + want.gid); return; }
      if (got->groups.size() != 1 || got->groups[0] != wgid) { violate("C11.supplementary-groups", ctx + ": group list not reduced to {" + want.gid + "}"); return; }
      std::string wseq = "G(1:" + std::to_string(wgid) + ")g(" + std::to_string(wgid) + ")u(" + std::to_string(wuid) + ")";
      if (got->idseq != wseq) { violate("C11.id-switch-order", ctx + ": id switches " + got->idseq + ", expected " + wseq + " (groups, gid, then uid)"); return; }
    }
    for (auto &ag : agents) if (!ag.used) { violate("C11.identity", "qmail-local was started for \"" + printable(ag.argv.size() >= 5 ? ag.argv[4] : std::string("?")) + "\" which no command asked for"); break; }
  }

  void finish_newu() {
    res->nontrivial = true; k->probe("newu_replacements");
    bool fired = false; for (auto &f : k->faults) if (f.fired) fired = true;
    bool ok3 = !newu_crashed && newu_status == 0;
    auto show = [&](const std::string &x) { return x == "absent" ? std::string("absent") : x == newu_old ? std::string("the old table") : x == newu_new ? std::string("the new table") : "neither table (" + std::to_string(x.size() - 8) + " bytes)"; };
    if (newu_after != newu_old && newu_after != newu_new) { violate("C11.cdb-replaced-incompletely", std::string("after qmail-newu ") + (newu_crashed ? "was stopped by a machine crash" : "exited " + std::to_string((newu_status >> 8) & 0xff)) + " users/cdb is " + show(newu_after)); return; }
    if (ok3 && newu_new_ok && newu_after != newu_new) { violate("C11.cdb-not-replaced", "qmail-newu exited 0 but users/cdb is " + show(newu_after)); return; }
    if (!ok3 && !newu_crashed && newu_after != newu_old && fired) { /* it failed after the rename? the rename is its last step: a failure report with the new table in place is still a complete table */ k->probe("newu_failed_after_rename"); }
    if (fired) k->probe(newu_after == newu_new ? "newu_disturbed_new_table_in_place" : "newu_disturbed_old_table_kept");
  }

  // C11, passwd leg: qmail-pw2u(8) turns a passwd file into the assignment table "by the same rules as qmail-getpw": an account gets
  // addresses only if its uid is not zero, its home exists and is owned by it, its name has no upper-case letter (as modified by the
  // options and by users/include, exclude, mailnames, subusers, append). Reference written from the manual page; the output is
  // compared line by line, and a line that hands addresses to an account the rules exclude is reported as such.
  void finish_pw2u() {
    const Json &pj = plan->knobs["pw2u"]; res->nontrivial = true; k->probe("pw2u_runs");
    if (!helper_done) { violate("C11.pw2u-did-not-finish", "qmail-pw2u still running"); return; }
    bool io_fault = false; for (auto &f : k->faults) if (f.fired) io_fault = true;
    std::string dashcolon = "-:", brk = conf.gets("break", "-").substr(0, 1); int homestrategy = 2; bool noupper = true;
    for (auto &a : pj["args"].a) { std::string o = a.str(); if (o == "-/") dashcolon = "-/:"; else if (o == "-o") homestrategy = 2; else if (o == "-h") homestrategy = 1; else if (o == "-H") homestrategy = 0; else if (o == "-u") noupper = false; else if (o == "-U") noupper = true; else if (o == "-C") brk = ""; else if (o.compare(0, 2, "-c") == 0 && o.size() == 3) brk = o.substr(2); }
    auto lines_of = [](const std::string &t2) { std::vector<std::string> v; size_t i = 0; while (i < t2.size()) { size_t e = t2.find('\n', i); if (e == std::string::npos) { v.push_back(t2.substr(i)); break; } v.push_back(t2.substr(i, e - i)); i = e + 1; } return v; };
    auto listed = [&](const char *fn, const std::string &u, bool &present) { present = pj.has(fn); if (!present) return false; for (auto &l : lines_of(pj.gets(fn))) if (lowers(l) == lowers(u)) return true; return false; };
    std::string alias = conf["users"].a.size() ? conf["users"].a[0].str() : "alias";
    struct Acc { std::string user, uugh; }; std::vector<Acc> ok; std::set<std::string> ineligible_uugh; std::string want; bool have_alias = false; int want_code = 0;
    for (auto &l : lines_of(pj.gets("passwd_text"))) {
      if (l.find('\0') != std::string::npos) continue;
      std::vector<std::string> f; { size_t i = 0; for (;;) { size_t e = l.find(':', i); if (e == std::string::npos) { f.push_back(l.substr(i)); break; } f.push_back(l.substr(i, e - i)); i = e + 1; } }
      if (f.size() < 7) continue;
      std::string uugh = ":" + f[0] + ":" + f[2] + ":" + f[3] + ":" + f[5] + ":";
      unsigned long uid = 0; for (char c : f[2]) { if (c < '0' || c > '9') break; uid = uid * 10 + (unsigned long)(c - '0'); }
      bool el = uid != 0; bool up = false; for (char c : f[0]) if (c >= 'A' && c <= 'Z') up = true; if (noupper && up) el = false;
      bool pres; if (el) { bool in = listed("include", f[0], pres); if (pres && !in) el = false; } if (el) { bool ex = listed("exclude", f[0], pres); if (pres && ex) el = false; }
      if (el && homestrategy) { Inode *h = k->lookup(f[5]); if (!h) { if (homestrategy == 1) { want_code = 111; break; } el = false; } else if (h->uid != (uint32_t)uid || uid > 0xffffffffUL) el = false; }
      if (!el) { ineligible_uugh.insert(uugh); continue; }
      ineligible_uugh.erase(uugh);
      ok.push_back(Acc{f[0], uugh});
      if (f[0] == alias) { want += "+" + uugh + dashcolon + ":\n"; have_alias = true; }
      std::vector<std::string> names; bool mn = false;
      if (pj.has("mailnames")) for (auto &ml : lines_of(pj.gets("mailnames"))) { size_t c = ml.find(':'); if (c != std::string::npos && lowers(ml.substr(0, c)) == lowers(f[0])) { mn = true; names.clear(); std::string rest = ml.substr(c + 1); size_t i = 0; while (i <= rest.size()) { size_t e = rest.find(':', i); if (e == std::string::npos) e = rest.size(); if (e > i) names.push_back(rest.substr(i, e - i)); i = e + 1; } } }
      if (!mn) names.push_back(f[0]);
      for (auto &nm : names) { want += "=" + nm + uugh + "::\n"; if (!brk.empty()) want += "+" + nm + brk + uugh + dashcolon + ":\n"; }
    }
    if (want_code == 0 && !have_alias) want_code = 111;
    if (want_code == 0 && pj.has("subusers")) for (auto &sl : lines_of(pj.gets("subusers"))) {
      std::vector<std::string> f; { size_t i = 0; for (;;) { size_t e = sl.find(':', i); if (e == std::string::npos) { f.push_back(sl.substr(i)); break; } f.push_back(sl.substr(i, e - i)); i = e + 1; } }
      if (f.size() < 4) continue;
      const Acc *u = nullptr; for (auto &a : ok) if (lowers(a.user) == lowers(f[1])) u = &a;   // (generated tables have no two eligible accounts of one name)
      if (!u) { want_code = 111; break; }
      want += "=" + f[0] + u->uugh + dashcolon + f[2] + ":\n"; if (!brk.empty()) want += "+" + f[0] + brk + u->uugh + dashcolon + f[2] + "-:\n";
    }
    if (want_code == 0) { if (pj.has("append")) want += pj.gets("append"); want += ".\n"; }
    int code = (helper_status >> 8) & 0xff; bool sig = helper_status & 0x7f;
    // whatever else happens, no line may hand addresses to an account the rules exclude (the table is obeyed by a root process)
    if (!sig && code == 0) for (auto &ol : lines_of(out->data)) { if (ol.empty() || (ol[0] != '=' && ol[0] != '+')) continue; bool from_append = pj.has("append") && pj.gets("append").find(ol + "\n") != std::string::npos; if (from_append) continue;
      for (auto &bad : ineligible_uugh) if (ol.find(bad) != std::string::npos) { violate("C11.pw2u-ineligible-account", "qmail-pw2u printed \"" + printable(ol, 100) + "\" for an account that its rules exclude (uid 0, home missing or not owned, upper case, not included, excluded)"); return; } }
    if (io_fault) { if (!sig && code == 0 && out->data != want) violate("C11.pw2u-output", "under an injected fault qmail-pw2u exits 0 with a table that differs from the reference"); return; }
    if (sig) { violate("C11.pw2u-crash", "qmail-pw2u killed by signal " + std::to_string(helper_status & 0x7f)); return; }
    if (code != want_code) { violate("C11.pw2u-exit-code", "qmail-pw2u exits " + std::to_string(code) + ", expected " + std::to_string(want_code) + " (" + printable(errs->data, 100) + ")"); return; }
    if (code == 0 && out->data != want) { std::vector<std::string> a = lines_of(out->data), b = lines_of(want); size_t d = 0; while (d < a.size() && d < b.size() && a[d] == b[d]) d++;
      violate("C11.pw2u-output", "line " + std::to_string(d + 1) + " of the table is \"" + printable(d < a.size() ? a[d] : std::string("<end>"), 100) + "\", the rules of qmail-pw2u(8) give \"" + printable(d < b.size() ? b[d] : std::string("<end>"), 100) + "\""); return; }
  }

  // C09 (spawner leg): the verdict forwarded to the queue manager never upgrades a refusal, a crash or an unparseable result
  void finish_c09r() {
    int spawner_fault_budget = 0; for (auto &f : k->faults) if (f.fired && f.actor.compare(0, 12, "qmail-rspawn") == 0 && (f.call == C_FSTAT || f.call == C_PIPE || f.call == C_FORK)) spawner_fault_budget++;
    struct Cmd { int delnum; std::string recip; };
    std::vector<Cmd> cmds; size_t i = 0;
    while (i < stream.size()) { size_t a = stream.find('\0', i + 1); if (a == std::string::npos) break; size_t b = stream.find('\0', a + 1); if (b == std::string::npos) break; size_t c = stream.find('\0', b + 1); if (c == std::string::npos) break; cmds.push_back(Cmd{(unsigned char)stream[i], stream.substr(b + 1, c - b - 1)}); i = c + 1; }
    if (!helper_done) { violate("C09.rspawn-did-not-finish", "qmail-rspawn still running"); return; }
    std::map<int, std::string> reports; { const std::string &o = out->data; size_t p = 1; while (p < o.size()) { size_t z = o.find('\0', p + 1); if (z == std::string::npos) break; reports[(unsigned char)o[p]] = o.substr(p + 1, z - p - 1); p = z + 1; } }
    for (auto &c : cmds) {
      if (c.recip.size() < 2 || c.recip[0] != 'u') continue;
      size_t idx = (size_t)atoi(c.recip.c_str() + 1); if (agent_script.a.empty()) continue;
      const Json &sc = agent_script.a[idx % agent_script.a.size()];
      std::string o = sc.gets("out"); int code = (int)sc.geti("code", 0); bool crash = sc.getb("crash", false);
      std::string rep = reports.count(c.delnum) ? reports[c.delnum] : "";
      res->nontrivial = true; k->probe("c09_spawner_verdicts");
      if (rep.empty()) { violate("C09.rspawn-no-report", "no report for delivery " + std::to_string(c.delnum)); return; }
      char got = rep[0];
      if (c.delnum >= (int)conf.geti("spawn", 120)) { if (got != 'Z') { violate("C09.rspawn-over-limit-not-deferred", "report \"" + printable(rep, 60) + "\" for a delivery number beyond conf-spawn"); return; } k->probe("delnum_beyond_conf_spawn"); continue; }
      // an injected failure in the spawner itself (fstat, pipe, fork): that one delivery never got an agent; the spawner says so with a temporary failure of its own
      if (spawner_fault_budget > 0 && rep.compare(0, 22, "Zqmail-spawn unable to") == 0) { spawner_fault_budget--; k->probe("spawner_own_temporary_failure"); continue; }
      // is success justified by qmail-remote(8)'s output grammar?
      bool k_ok = !crash && code == 0 && !o.empty() && o[0] != 's' && o[0] != 'h';
      if (k_ok) { char first = 0; size_t j = 0; for (size_t q = 0; q < o.size(); q++) if (!o[q]) { char s0 = o[j]; if (s0 == 'K' || s0 == 'Z' || s0 == 'D') { first = s0; break; } j = q + 1; } k_ok = first == 'K'; }
      std::string ctx = "qmail-remote " + std::string(crash ? "crashed" : "exited " + std::to_string(code)) + " printing \"" + printable(o, 80) + "\"; qmail-rspawn forwarded \"" + printable(rep, 80) + "\"";
      if (got == 'K' && !k_ok) { violate("C09.rspawn-upgrades-to-success", ctx); return; }
      if (crash && got != 'Z') { violate("C09.rspawn-crash-not-temporary", ctx); return; }
      if (!crash && code == 111 && got != 'Z') { violate("C09.rspawn-111-not-temporary", ctx); return; }
      if (!crash && code == 0 && k_ok && got != 'K') { violate("C09.rspawn-loses-success", ctx); return; }
      if (got != 'K' && got != 'Z' && got != 'D') { violate("C09.rspawn-report-format", ctx); return; }
    }
  }

  void finish() override {
    if (plan->knobs.getb("nojudge", false)) { res->nontrivial = true; if (!helper_done) violate("C20.helper-hung", mode + " still running"); Hash64 h9; h9.str(out->data); res->state_hash = h9.get(); return; }
    if (c09r) { finish_c09r(); Hash64 h0; h0.str(out->data); res->state_hash = h0.get(); return; }
    if (mode == "newu") finish_newu(); else if (mode == "pw2u") finish_pw2u(); else if (c11) finish_c11(); else if (mode == "clean") finish_clean(); else finish_spawner();
    Hash64 h; h.str(out->data); res->state_hash = h.get();
  }
};

World *make_world_h() { return new WorldH; }

}  // namespace sim

// q_ghost.cc - the queue ghost (DESIGN Appendix B) and the oracles of C01-C04 (+ hooks for C14-C16)
#include "q.h"
#include "q_time.h"
#include <errno.h>
#include <fcntl.h>
#include <string.h>
#include <time.h>
#include <signal.h>
#include <algorithm>

namespace sim {

static const int64_t OSSIFIED = 129600;

bool WorldQ::parse_qpath(const std::string &canon, std::string &dir, uint64_t &n) const {
  std::string pre = home + "/queue/";
  if (canon.compare(0, pre.size(), pre) != 0) return false;
  std::string rest = canon.substr(pre.size());
  size_t s1 = rest.find('/'); if (s1 == std::string::npos) return false;
  dir = rest.substr(0, s1);
  std::string tail = rest.substr(s1 + 1);
  bool sp = dir == "mess" || dir == "info" || dir == "local" || dir == "remote";
  if (!sp && dir != "intd" && dir != "todo" && dir != "bounce") return false;
  if (sp) { size_t s2 = tail.find('/'); if (s2 == std::string::npos) return false; tail = tail.substr(s2 + 1); }
  if (tail.empty() || tail.size() > 19) return false;
  n = 0; for (char c : tail) { if (c < '0' || c > '9') return false; n = n * 10 + (uint64_t)(c - '0'); }
  return true;
}

static uint8_t bit_of(const std::string &dir) {
  if (dir == "mess") return QB_M; if (dir == "intd") return QB_I; if (dir == "todo") return QB_T; if (dir == "info") return QB_F;
  if (dir == "local") return QB_L; if (dir == "remote") return QB_R; if (dir == "bounce") return QB_B; return 0;
}

uint8_t WorldQ::scan_pattern(uint64_t n) {
  uint8_t b = 0;
  if (k->lookup(qp("mess", n, true))) b |= QB_M; if (k->lookup(qp("intd", n, false))) b |= QB_I; if (k->lookup(qp("todo", n, false))) b |= QB_T;
  if (k->lookup(qp("info", n, true))) b |= QB_F; if (k->lookup(qp("local", n, true))) b |= QB_L; if (k->lookup(qp("remote", n, true))) b |= QB_R;
  if (k->lookup(qp("bounce", n, false))) b |= QB_B;
  return b;
}

static std::string pat_str(uint8_t b) {
  std::string s; const char *nm[7] = {"mess", "intd", "todo", "info", "local", "remote", "bounce"};
  for (int i = 0; i < 7; i++) { s += (b & (1 << i)) ? "+" : "-"; s += nm[i]; s += " "; }
  return s;
}

static bool documented(uint8_t b) {
  if (b == 0) return true;                                   // S1
  if (b == QB_M) return true;                                // S2
  if (b == (QB_M | QB_I)) return true;                       // S3
  if ((b & QB_M) && (b & QB_T) && !(b & QB_B)) return true;  // S4
  if ((b & QB_M) && (b & QB_F) && !(b & QB_I) && !(b & QB_T)) return true;  // S5
  return false;
}

void WorldQ::check_pattern(uint64_t n, const char *when) {
  if (!enabled("c02")) return;
  uint8_t b = pattern.count(n) ? pattern[n] : 0;
  if (!documented(b)) violate("C02.undocumented-state", "message " + std::to_string(n) + " is " + pat_str(b) + "(" + when + ")");
}

void WorldQ::full_scan_check(const char *when) {
  // rebuild the pattern map from the file system; compare with the incrementally tracked one (guards the tracker itself)
  std::map<uint64_t, uint8_t> fresh;
  std::string q = home + "/queue/";
  for (const char *d : {"intd", "todo", "bounce"}) for (auto &nm : k->listdir(q + d)) { uint64_t n = strtoull(nm.c_str(), 0, 10); fresh[n] |= bit_of(d); }
  for (const char *d : {"mess", "info", "local", "remote"}) for (int i = 0; i < split; i++) for (auto &nm : k->listdir(q + d + "/" + std::to_string(i))) {
    uint64_t n = strtoull(nm.c_str(), 0, 10); fresh[n] |= bit_of(d);
    if ((int)(n % (uint64_t)split) != i && enabled("c02")) violate("C02.wrong-split-dir", std::string(d) + "/" + std::to_string(i) + "/" + nm);
  }
  for (auto &pr : pattern) if (pr.second && fresh[pr.first] != pr.second) { res->note = "tracker mismatch at " + std::to_string(pr.first) + " " + when; k->abort_reason = "infra: queue tracker diverged (" + std::string(when) + ")"; k->stop = true; }
  for (auto &pr : fresh) if (pr.second && (!pattern.count(pr.first) || pattern[pr.first] != pr.second)) { k->abort_reason = "infra: queue tracker diverged (" + std::string(when) + ")"; k->stop = true; }
  pattern.swap(fresh);
  for (auto &pr : pattern) if (pr.second) check_pattern(pr.first, when);
  // inode guarantee
  if (enabled("c02")) for (auto &pr : pattern) if (pr.second & QB_M) { Inode *i = k->lookup(qp("mess", pr.first, true)); if (i && i->ino != pr.first) violate("C02.name-not-inode", "mess/" + std::to_string(pr.first) + " has inode " + std::to_string(i->ino)); }
}

// ---------------------------------------------------------------- reference: qmail-queue envelope acceptance
int WorldQ::expected_exit(const std::string &e, size_t *consumed) const {
  size_t i0 = 0; size_t &i = consumed ? *consumed : i0; i = 0; const size_t ADDR = 1003;
  if (i >= e.size()) return 54;
  if (e[i] != 'F') return 91;
  i++;
  size_t len;
  for (len = 0; len < ADDR; ++len) { if (i >= e.size()) return 54; char c = e[i++]; if (!c) break; }
  if (len >= ADDR) return 11;
  for (;;) {
    if (i >= e.size()) return 54;
    char c = e[i++];
    if (!c) return 0;
    if (c != 'T') return 91;
    for (len = 0; len < ADDR; ++len) { if (i >= e.size()) return 54; char d = e[i++]; if (!d) break; }
    if (len >= ADDR) return 11;
  }
}

static std::string date822(int64_t t) {
  static const char *mon[12] = {"Jan", "Feb", "Mar", "Apr", "May", "Jun", "Jul", "Aug", "Sep", "Oct", "Nov", "Dec"};
  time_t tt = (time_t)t; struct tm tm; gmtime_r(&tt, &tm);
  char b[64]; snprintf(b, sizeof b, "%d %s %d %02d:%02d:%02d -0000\n", tm.tm_mday, mon[tm.tm_mon], tm.tm_year + 1900, tm.tm_hour, tm.tm_min, tm.tm_sec);
  return b;
}

void WorldQ::check_publication(GMsg *m, const Event &e) {
  (void)e;
  if (!enabled("c01") || !m->tagged) return;
  // expected bytes, in the WORST crash image (nothing unsynced may be needed)
  int64_t start = 0; { size_t a = m->pidfn.rfind('/'); std::string f = m->pidfn.substr(a + 1); size_t d1 = f.find('.'); size_t d2 = f.find('.', d1 + 1); if (d1 != std::string::npos && d2 != std::string::npos) start = strtoll(f.substr(d1 + 1, d2 - d1 - 1).c_str(), 0, 10); }
  std::string who;
  if (m->uid == uids["alias"]) who = "by alias"; else if (m->uid == uids["qmaild"]) who = "from network"; else if (m->uid == uids["qmails"]) who = "for bounce"; else who = "by uid " + std::to_string(m->uid);
  std::string expect_mess = "Received: (qmail " + std::to_string(m->inj_pid) + " invoked " + who + "); " + date822(start) + m->body;
  std::string env = m->env_raw;
  { size_t used = 0; if (expected_exit(env, &used) == 0) env.resize(used); }   // bytes after the terminator are not read
  std::string expect_todo = "u" + std::to_string(m->uid) + std::string(1, '\0') + "p" + std::to_string(m->inj_pid) + std::string(1, '\0') + env.substr(0, env.size() ? env.size() - 1 : 0);
  if (expected_exit(env) != 0) { violate("C01.malformed-envelope-published", "envelope " + printable(env, 80) + " must be refused with " + std::to_string(expected_exit(env))); return; }
  Inode *mi = k->lookup(qp("mess", m->num, true)); Inode *ti = k->lookup(qp("todo", m->num, false));
  if (!mi || !ti) { violate("C01.published-without-files", "todo/" + std::to_string(m->num)); return; }
  for (int img = 0; img < 2; img++) {
    const std::string &mb = img ? mi->data : mi->synced; const std::string &tb = img ? ti->data : ti->synced;
    const char *nm = img ? "current" : "worst-crash";
    if (mb != expect_mess) {
      size_t d = 0; while (d < mb.size() && d < expect_mess.size() && mb[d] == expect_mess[d]) d++;
      violate("C01.published-message-incomplete", std::string(nm) + " image of mess/" + std::to_string(m->num) + " has " + std::to_string(mb.size()) + " bytes, expected " + std::to_string(expect_mess.size()) + ", first difference at " + std::to_string(d));
      return;
    }
    if (tb != expect_todo) {
      violate("C01.published-envelope-incomplete", std::string(nm) + " image of todo/" + std::to_string(m->num) + " is \"" + printable(tb, 120) + "\", expected \"" + printable(expect_todo, 120) + "\"");
      return;
    }
  }
}

GMsg *WorldQ::new_auto_msg(uint64_t n, int pid) {
  GMsg *m = new GMsg; m->id = "auto" + std::to_string(msgs.size()); m->num = n; m->inj_pid = pid; m->tagged = false;
  msgs.push_back(m); byid[m->id] = m; return m;
}

// ---------------------------------------------------------------- event dispatch
void WorldQ::on_event(const Event &e) {
  Proc *p = e.proc;
  if (e.call == C_CRASH) { if (e.path != "best") had_lossy_crash = true; after_crash(); if (tg) tg->on_crash(); return; }
  if (!p) return;
  // --- track which files of the queue exist
  bool qmut = false; std::string dir; uint64_t n = 0;
  if (e.ret >= 0 && (e.call == C_LINK || e.call == C_UNLINK || e.call == C_RENAME || (e.call == C_OPEN && (e.b & (1 << 20))))) {
    if (e.call == C_LINK) { if (parse_qpath(e.path2, dir, n)) { pattern[n] |= bit_of(dir); qmut = true; } }
    else if (e.call == C_RENAME) { std::string d2; uint64_t n2; if (parse_qpath(e.path, dir, n)) { pattern[n] &= (uint8_t)~bit_of(dir); check_pattern(n, "rename"); } if (parse_qpath(e.path2, d2, n2)) { pattern[n2] |= bit_of(d2); dir = d2; n = n2; qmut = true; } }
    else if (parse_qpath(e.path, dir, n)) { if (e.call == C_UNLINK) pattern[n] &= (uint8_t)~bit_of(dir); else pattern[n] |= bit_of(dir); qmut = true; }
  }
  // --- per-role handling (before the generic pattern check so that specific classes are reported first)
  if (p->role == "qmail-queue" || p->role == "qmail-queue/child") on_queue_event(e);
  else if (p->role == "qmail-send") on_send_event(e);
  else if (p->role == "qmail-clean") on_clean_event(e);
  if (tg) tg->on_event(e);
  if (qmut) {
    check_pattern(n, call_name(e.call));
    // a published or preprocessed message must not lose its body
    if (e.call == C_UNLINK && dir == "mess") { auto it = bynum.find(n); if (it != bynum.end()) { GMsg *m = it->second; m->mess_gone = true; if (enabled("c03") && m->accepted && m->phase != GMsg::FINISHED) violate("C03.message-removed-unfinished", "mess/" + std::to_string(n) + " of " + m->id + " unlinked by " + p->actor()); bynum.erase(it); } }
  }
  // published files are immutable
  if ((e.call == C_WRITE || e.call == C_FTRUNCATE) && e.ret >= 0 && e.ino && enabled("c01")) {
    std::string d; uint64_t nn;
    if (parse_qpath(e.path, d, nn) && (d == "mess" || d == "intd" || d == "todo")) {
      auto it = bynum.find(nn);
      if (it != bynum.end() && it->second->published && !it->second->mess_gone && (e.call == C_FTRUNCATE || e.ret > 0))
        violate("C01.published-file-modified", e.path + " modified by " + p->actor() + " after publication");
    }
  }
  if (++events_since_scan >= 2000) { events_since_scan = 0; full_scan_check("periodic"); }
  // second daemon must not touch anything
  if (second_pid && e.pid == second_pid) {
    if (e.call == C_FLOCK && e.ret == 0) second_got_lock = true;
    if (e.call == C_EXIT) second_status = (int)e.a;
    bool mut = (e.call == C_UNLINK || e.call == C_LINK || e.call == C_RENAME || e.call == C_UTIMES || e.call == C_FTRUNCATE || (e.call == C_OPEN && (e.b & (1 << 20))) ||
                (e.call == C_WRITE && e.ino && e.ino->type == T_REG)) && e.ret >= 0;
    if (mut && !second_got_lock && enabled("c02")) violate("C02.second-daemon-mutates", p->actor() + " " + call_name(e.call) + " " + e.path);
  }
}

// ---------------------------------------------------------------- qmail-queue
void WorldQ::on_queue_event(const Event &e) {
  Proc *p = e.proc;
  GMsg *m = nullptr;
  { auto it = bypid.find(e.pid); if (it != bypid.end()) m = it->second; }
  if (e.injected && m) m->fault_hit = true;
  std::string dir; uint64_t n;
  switch (e.call) {
    case C_OPEN:
      if (e.ret >= 0 && (e.b & (1 << 20)) && e.path.find("/queue/pid/") != std::string::npos) {
        if (!m) { m = new_auto_msg(0, e.pid); bypid[e.pid] = m; m->uid = p->uid; Proc *par = k->find_proc(p->ppid); if (par && par->role == "qmail-send") { m->bounce_of = std::to_string(bounce_open_n); } }
        m->pidfn = e.path;
      }
      break;
    case C_LINK:
      if (e.ret != 0 || !m) break;
      if (parse_qpath(e.path2, dir, n) && dir == "mess") {
        if (enabled("c02")) {
          if (e.ino && e.ino->ino != n) violate("C02.name-not-inode", e.path2 + " has inode " + std::to_string(e.ino->ino));
          if ((int)(n % (uint64_t)split) != atoi(e.path2.substr((home + "/queue/mess/").size()).c_str())) violate("C02.wrong-split-dir", e.path2);
          if (bynum.count(n) && !bynum[n]->mess_gone) violate("C02.number-shared", "message number " + std::to_string(n) + " given to " + m->id + " while " + bynum[n]->id + " still owns it");
        }
        m->num = n; bynum[n] = m;
      } else if (parse_qpath(e.path2, dir, n) && dir == "todo") {
        m->published = true; m->accepted = true; m->phase = GMsg::QUEUED; m->t_published = k->clock;
        check_publication(m, e);
        if (!m->bounce_of.empty()) check_bounce(m);
        if (tg) tg->on_published(m);
      }
      break;
    case C_EXIT: {
      if (!m) break;
      m->exited = true; m->status = (int)e.a;
      int code = (m->status >> 8) & 0xff; bool signaled = (m->status & 0x7f) != 0;
      if (m->published) m->accepted = true;   // queued, whatever the exit path (killed after link: documented "fully queued")
      if (!enabled("c01") || !m->tagged) break;
      if (!signaled && code == 0 && !m->published) violate("C01.success-without-publication", m->id + " exited 0 but todo/" + std::to_string(m->num) + " was never linked");
      bool faulty = m->fault_hit;
      for (auto &f : k->faults) if (f.fired && (f.kind == "signal" || f.kind == "signal_after" || f.kind == "null" || f.kind == "kill" || f.kind == "stall")) { if (f.actor.empty() || p->actor().compare(0, f.actor.size(), f.actor) == 0 || f.actor.compare(0, 11, "qmail-queue") == 0) faulty = true; }
      if (k->fault_counts.count("alloc_fail")) faulty = true;
      int want = expected_exit(m->env_raw);
      if (!signaled && !faulty) {
        if (code != want) violate("C01.exit-code", m->id + " exited " + std::to_string(code) + ", reference says " + std::to_string(want) + " for envelope \"" + printable(m->env_raw, 60) + "\"");
      } else if (!signaled) {
        static const int ok[] = {0, 11, 51, 52, 53, 54, 61, 62, 63, 64, 65, 66, 81, 91, 111};
        bool found = false; for (int c : ok) if (c == code) found = true;
        if (!found) violate("C01.exit-code", m->id + " exited " + std::to_string(code) + " under an injected fault; not a documented code");
        if (code == 0 && want != 0) violate("C01.exit-code", m->id + " exited 0 for an envelope the reference refuses with " + std::to_string(want));
      }
      if (!m->published) m->phase = GMsg::ABORTED;
      break;
    }
    case C_ALARM:
      if (m && m->tagged && enabled("c01")) { /* alarm must precede the first open: checked via flag */ p->user = (void *)1; }
      break;
    default: break;
  }
  if (e.call == C_OPEN && m && m->tagged && enabled("c01") && e.path.find("/queue/") != std::string::npos && !p->user)
    violate("C01.no-alarm-before-files", p->actor() + " opened " + e.path + " before alarm()");
}

// ---------------------------------------------------------------- qmail-clean
void WorldQ::on_clean_event(const Event &e) {
  if (e.call == C_EXEC || e.call == C_SPAWN) return;
  if (e.call == C_UNLINK && e.ret == 0) {
    std::string dir; uint64_t n;
    if (parse_qpath(e.path, dir, n) && dir == "todo") { auto it = bynum.find(n); if (it != bynum.end()) preprocess_done(it->second); }
  }
  if (e.call == C_UNLINK && e.ret == 0 && enabled("c02")) {
    std::string dir; uint64_t n;
    if (parse_qpath(e.path, dir, n) && dir == "mess") {
      // pattern already updated: must now be S1 and must have been S2 -> tracked pattern shows 0
      uint8_t b = pattern.count(n) ? pattern[n] : 0;
      if (b != 0) violate("C02.body-removed-out-of-order", "mess/" + std::to_string(n) + " unlinked while entry is " + pat_str(b));
      GMsg *m = bynum.count(n) ? bynum[n] : nullptr;
      bool eliminating = m && m->info_unlinked_by_send && m->eliminated_in == send_incarnation;
      int64_t at = e.ino ? e.ino->atime : 0;
      if (!eliminating && !(k->clock > at + OSSIFIED)) violate("C02.premature-collection", "mess/" + std::to_string(n) + " (atime " + std::to_string(at) + ") collected at " + std::to_string(k->clock) + " although it is neither being eliminated nor older than 36 h");
      for (auto &pp : k->procs) { Proc *q = pp.second; if (q->st == Proc::LIVE && q->role == "qmail-queue" && bypid.count(q->pid) && bypid[q->pid]->num == n && !eliminating && bypid[q->pid] == m && k->clock <= at + 86400) violate("C02.collected-under-live-injector", "mess/" + std::to_string(n)); }
    }
  }
}

// ---------------------------------------------------------------- spawner side
void WorldQ::on_command(const SpawnCmd &c0) {
  SpawnCmd c = c0;
  // messid is "split/n"
  size_t sl = c.messid.find('/');
  c.num = strtoull(c.messid.c_str() + (sl == std::string::npos ? 0 : sl + 1), 0, 10);
  res->nontrivial = true;
  int ch = c.chan;
  int bound = std::min(conc[ch], spawn_limit[ch]);
  if (enabled("c04")) {
    if (c.delnum >= bound) violate("C04.delnum-out-of-bound", "channel " + std::to_string(ch) + " delnum " + std::to_string(c.delnum) + " >= min(concurrency " + std::to_string(conc[ch]) + ", spawner limit " + std::to_string(spawn_limit[ch]) + ")");
    if (delnum_used[ch].count(c.delnum)) violate("C04.delnum-reused-in-flight", "channel " + std::to_string(ch) + " delnum " + std::to_string(c.delnum));
  }
  delnum_used[ch].insert(c.delnum); outstanding_count[ch] = (int)delnum_used[ch].size();
  if (enabled("c04") && outstanding_count[ch] > bound) violate("C04.concurrency-exceeded", "channel " + std::to_string(ch) + ": " + std::to_string(outstanding_count[ch]) + " outstanding > " + std::to_string(bound));
  // (a command may legitimately follow the TERM handler: the handler can run between the daemon's test of its exit flag and the next call)
  if (tg) tg->on_command(c);
  auto it = bynum.find(c.num);
  if (it == bynum.end()) { if (enabled("c04")) violate("C04.command-for-unknown-message", c.messid); return; }
  GMsg *m = it->second;
  if (m->phase != GMsg::PREPROCESSED) { if (enabled("c04")) violate("C04.command-for-unpreprocessed-message", m->id); return; }
  GRcpt *r = nullptr;
  for (auto &x : m->rc) if (x.chan == ch && x.addr == c.recip) { if (!r || (r->marked && !x.marked)) r = &x; }
  if (!r) { if (enabled("c04")) violate("C04.command-for-unknown-recipient", m->id + " " + printable(c.recip)); return; }
  for (auto &pr : bynum) for (auto &x : pr.second->rc) if (&x != r && x.chan == ch && x.outstanding == c.delnum) x.outstanding = -1;   // number handed out again: the earlier holder was released
  r->maybe_verdict = 0;
  { auto fl = floating[ch].find(c.delnum); if (fl != floating[ch].end()) { r->maybe_verdict = fl->second.empty() ? '?' : fl->second[0]; floating[ch].erase(fl); k->probe("ambiguous_report_window"); } }
  if (enabled("c04")) {
    if (r->outstanding >= 0) violate("C04.two-attempts-in-flight", m->id + " " + r->addr);
    bool judge = !io_faults_in_daemon;
    if (r->k_reports > 0 && judge && !had_crash && !had_proc_crash) violate("C04.delivered-twice", m->id + " recipient " + r->addr + " already reported delivered (K) is attempted again although nothing crashed");
    if (r->marked && judge) violate("C04.finished-recipient-retried", m->id + " recipient " + r->addr + " was attempted again after its completion mark was written");
  }
  c10_check_command(c, m);
  r->outstanding = c.delnum; r->cmds++; r->cmds_since_boot++; r->last_verdict = 0; r->last_cmd_t = k->clock;
  // expected sender on the wire (VERP expansion is C10's business; here only the plain case is compared)
  k->probe("delivery_command");
}

void WorldQ::on_report(int chan, int delnum, const std::string &text, bool wellformed) {
  if (!wellformed) { k->probe("malformed_report"); return; }
  delnum_used[chan].erase(delnum); outstanding_count[chan] = (int)delnum_used[chan].size();
  for (auto &pr : bynum) for (auto &r : pr.second->rc) if (r.chan == chan && r.outstanding == delnum) {
    r.outstanding = -1; r.last_verdict = text.empty() ? 0 : text[0]; r.fail_text = text.size() > 1 ? text.substr(1) : "";
    if (r.last_verdict == 'K') r.k_reports++; else if (r.last_verdict == 'D') r.d_reports++;
    if (tg) tg->on_report(pr.second, r);
    return;
  }
}

// ---------------------------------------------------------------- qmail-send
static void parse_chan_file(const std::string &data, int chan, std::vector<GRcpt> &out) {
  size_t i = 0;
  while (i < data.size()) {
    size_t z = data.find('\0', i); if (z == std::string::npos) break;
    GRcpt r; r.chan = chan; r.off = i; r.marked = data[i] == 'D'; r.addr = data.substr(i + 1, z - i - 1);
    out.push_back(r); i = z + 1;
  }
}

void WorldQ::preprocess_done(GMsg *m) {
  m->phase = GMsg::PREPROCESSED; m->rc.clear(); m->send_incarnation = send_incarnation;
  Inode *l = k->lookup(qp("local", m->num, true)), *r = k->lookup(qp("remote", m->num, true)), *f = k->lookup(qp("info", m->num, true));
  if (l) parse_chan_file(l->data, 0, m->rc);
  if (r) parse_chan_file(r->data, 1, m->rc);
  if (f) { m->birth = f->mtime; m->info_sender = f->data.size() > 1 ? std::string(f->data.c_str() + 1) : ""; }
  m->t_noticed = k->clock;
  if (enabled("c03") && m->accepted) {
    // every envelope recipient must appear exactly once (the rewriting itself is C10's oracle)
    size_t want = 0; Inode *t = nullptr; (void)t;
    if (m->tagged && expected_exit(m->env_raw) == 0) want = m->rcpts.size();
    else want = m->rc.size();
    if (m->rc.size() != want) violate("C03.recipient-lost-in-preprocessing", m->id + ": envelope has " + std::to_string(want) + " recipients, channel files have " + std::to_string(m->rc.size()));
    // and the channel files must be durable
    for (Inode *x : {l, r, f}) if (x && x->synced != x->data) violate("C03.preprocessed-files-not-synced", m->id + ": info/local/remote not fsynced when todo/" + std::to_string(m->num) + " is removed");
  }
  c10_check_preprocessed(m);
  if (tg) tg->on_preprocessed(m);
}

void WorldQ::on_send_event(const Event &e) {
  Proc *p = e.proc;
  if (e.call == C_EXEC || e.call == C_SPAWN) {
    if (p->tag == "second") return;
    send_pid = e.pid; send_incarnation++; send_exiting = false; send_term_seen = false; rc_valid = false; rc_reading = false;
    for (int c = 0; c < 2; c++) { delnum_used[c].clear(); outstanding_count[c] = 0; cmdbuf[c].clear(); repbuf[c].clear(); greeted[c] = false; floating[c].clear(); }
    for (auto &pr : bynum) for (auto &r : pr.second->rc) { r.outstanding = -1; r.cmds_since_boot = 0; }
    return;
  }
  if (p->tag == "second") return;
  c10_on_send_event(e);
  std::string dir; uint64_t n;
  switch (e.call) {
    case C_SIGNAL:
      if (e.a == SIGTERM) { if (!send_term_seen) term_t = k->clock; send_term_seen = true; }
      break;
    case C_EXIT: {
      if (e.pid != send_pid) break;
      int code = ((int)e.a >> 8) & 0xff; bool sig = ((int)e.a & 0x7f) != 0;
      if (sig) had_proc_crash = true;
      if (!sig && code == 0 && send_term_seen && enabled("c04")) {
        for (int c = 0; c < 2; c++) if (!delnum_used[c].empty()) {
          bool alive = k->find_role(c == 0 ? "qmail-lspawn" : "qmail-rspawn") != nullptr;
          if (alive) violate("C04.exit-with-deliveries-outstanding", "qmail-send exited with " + std::to_string(delnum_used[c].size()) + " unreported deliveries on channel " + std::to_string(c));
        }
      }
      send_pid = 0;
      break;
    }
    case C_WRITE: {
      if (e.ret > 0 && !e.ino && e.pipe && (e.fd == 1 || e.fd == 3)) {
        // delivery commands leave the daemon here: delnum, messid\0 sender\0 recip\0
        int ch = e.fd == 1 ? 0 : 1; std::string &b = cmdbuf[ch]; b.append(e.data, (size_t)e.ret);
        for (;;) {
          if (b.size() < 1) break;
          size_t a1 = b.find('\0', 1); if (a1 == std::string::npos) break;
          size_t a2 = b.find('\0', a1 + 1); if (a2 == std::string::npos) break;
          size_t a3 = b.find('\0', a2 + 1); if (a3 == std::string::npos) break;
          SpawnCmd c; c.chan = ch; c.delnum = (unsigned char)b[0]; c.messid = b.substr(1, a1 - 1); c.sender = b.substr(a1 + 1, a2 - a1 - 1); c.recip = b.substr(a2 + 1, a3 - a2 - 1); c.t = k->clock; c.num = 0;
          b.erase(0, a3 + 1);
          on_command(c);
        }
        break;
      }
      if (e.ret <= 0 || !e.ino) break;
      if (!parse_qpath(e.path, dir, n)) break;
      auto it = bynum.find(n); GMsg *m = it == bynum.end() ? nullptr : it->second;
      if ((dir == "local" || dir == "remote") && m && m->phase == GMsg::PREPROCESSED) {
        int ch = dir == "local" ? 0 : 1;
        if (e.ret == 1 && e.data[0] == 'D') {
          GRcpt *r = nullptr; for (auto &x : m->rc) if (x.chan == ch && x.off == (uint64_t)e.off) r = &x;
          if (!r) { if (enabled("c03")) violate("C03.mark-at-wrong-offset", m->id + " " + e.path + " offset " + std::to_string(e.off)); break; }
          bool dying = m->birth + lifetime < r->last_cmd_t + 1 || m->birth + lifetime < k->clock;
          if (r->last_verdict != 'K' && r->last_verdict != 'D' && (r->maybe_verdict == 'K' || r->maybe_verdict == 'D' || (r->maybe_verdict == 'Z' && dying))) { r->last_verdict = r->maybe_verdict; if (r->maybe_verdict == 'K') r->k_reports++; }
          // The daemon may already have allocated a delivery number to this recipient (command buffered, not yet written) when a
          // hostile peer's record with that number arrived: from the daemon's side that IS this recipient's report. The ghost has
          // not seen the command leave, so it cannot know the number; any unmatched record on this channel with a final verdict may be it.
          if (r->last_verdict != 'K' && r->last_verdict != 'D' && r->outstanding < 0 && !(r->last_verdict == 'Z' && dying)) {
            for (auto fl = floating[ch].begin(); fl != floating[ch].end(); ++fl) { char v = fl->second.empty() ? '?' : fl->second[0];
              if (v == 'K' || v == 'D' || (v == 'Z' && dying)) { r->last_verdict = v; r->fail_text = fl->second.size() > 1 ? fl->second.substr(1) : ""; if (v == 'K') r->k_reports++; floating[ch].erase(fl); k->probe("report_matched_to_buffered_command");
                if (v != 'K') { Inode *bf = k->lookup(qp("bounce", n, false)); std::string a = strip_prepend(r->addr); for (auto &c : a) if (c == '\n') c = '_'; if (bf && bf->data.find("<" + a + ">:\n") != std::string::npos) { r->noted = true; r->note_seq = ++note_counter; } }
                break; } }
          }
          if (enabled("c03")) {
            if (r->last_verdict == 'K' || r->last_verdict == 'D') {}
            else if (r->last_verdict == 'Z' && dying) {}
            else violate("C03.finished-without-final-report", m->id + " recipient " + r->addr + " marked done after " + (r->last_verdict ? std::string("report '") + r->last_verdict + "'" : std::string("no report")));
            if ((r->last_verdict == 'D' || r->last_verdict == 'Z') && !r->noted && !r->bounced) violate("C03.mark-before-bounce-note", m->id + " recipient " + r->addr + " marked done before its failure was recorded in bounce/" + std::to_string(n));
          }
          r->marked = true; if (r->last_verdict == 'K') r->k_done = true;
          k->probe("d_mark_written");
        } else if (enabled("c03")) violate("C03.channel-file-modified", e.path + " written with " + printable(std::string(e.data, (size_t)e.ret), 20));
      } else if (dir == "bounce" && m) {
        // note appended: "<addr>:\n text \n". The write may come in pieces (a short write, a failure, a retry): what counts is what the
        // record holds afterwards - a paragraph head at the start of a line for each failed recipient, as often as there are such recipients
        Inode *bi = e.ino ? e.ino : k->lookup(e.path); std::string bd = bi ? bi->data : std::string();
        if (e.off >= 0 && e.data && e.ret > 0) { size_t o = (size_t)e.off, n2 = (size_t)e.ret; if (bd.size() < o + n2) bd.resize(o + n2, '\0'); bd.replace(o, n2, std::string(e.data, n2)); }   // (observers see the event before or after the bytes land: make it after)
        auto head_of = [&](const GRcpt &x) { std::string a = strip_prepend(x.addr); for (auto &c : a) if (c == '\n') c = '_'; return "<" + a + ">:\n"; };
        auto count_heads = [&](const std::string &h) { size_t n = 0; for (size_t pos = bd.find(h); pos != std::string::npos; pos = bd.find(h, pos + 1)) if (pos == 0 || bd[pos - 1] == '\n' || had_lossy_crash) n++; return n; };   // (after a crash that lost unsynced data the record may hold garbage in front of a note: bounce/n is documented as not crash-proof)
        for (auto &x : m->rc) if (!x.marked && !x.noted && (x.last_verdict == 'D' || x.last_verdict == 'Z')) {
          std::string h = head_of(x); size_t have = count_heads(h), already = 0; for (auto &y : m->rc) if (&y != &x && y.noted && head_of(y) == h) already++;
          // (a name written without the virtual-domain prepend stripped is still this recipient's note - a wrong one, which the check of the queued bounce will say)
          if (have <= already) { std::string raw = x.addr; for (auto &c : raw) if (c == '\n') c = '_'; raw = "<" + raw + ">:\n"; if (raw != h) { have = count_heads(raw); already = 0; for (auto &y : m->rc) if (&y != &x && y.noted && y.addr == x.addr) already++; } }
          if (have > already) { x.noted = true; x.note_seq = ++note_counter; k->probe("bounce_note"); }
        }
      }
      break;
    }
    case C_OPEN:
      if (e.ret >= 0 && parse_qpath(e.path, dir, n) && dir == "bounce" && (e.a & O_ACCMODE) == O_RDONLY) { bounce_open_n = n; }
      break;
    case C_READ: {
      // reports reach the daemon here. Wire format: records ended by NUL; first byte delivery number, second the verdict letter.
      if (e.ret <= 0 || e.ino || !e.pipe || (e.fd != 2 && e.fd != 4)) break;
      int ch = e.fd == 2 ? 0 : 1;
      size_t from = 0;
      if (!greeted[ch]) { greeted[ch] = true; from = 1; }   // the spawner's first byte announces its concurrency limit
      for (size_t q = from; q < (size_t)e.ret; q++) {
        char c = e.data[q]; std::string &b = repbuf[ch];
        // (the daemon keeps the first REPORTMAX = 10000 bytes of a record - delivery number, verdict letter, 9998 bytes of text - and drops the rest)
        if (b.size() < 10000) b.push_back(c); else if (!c) b.push_back(c);
        if (!c && b.size() > 1) {
          int dn = (unsigned char)b[0]; std::string text = b.substr(1, b.size() - 2); if (text.find('\0') != std::string::npos) text = text.substr(0, text.find('\0'));
          if (delnum_used[ch].count(dn) && dn < std::min(conc[ch], spawn_limit[ch])) on_report(ch, dn, text, true);
          else {
            // Only a hostile peer reports a delivery number that is not in flight. The daemon considers a number in use from the
            // moment it buffers the command, the ghost from the moment the command bytes leave: a report read in between is
            // ambiguous. Remember it; it may legitimately have been applied to the next command with that number.
            k->probe("report_for_unused_or_out_of_range_delnum");
            if (dn < std::min(conc[ch], spawn_limit[ch])) floating[ch][dn] = text;
          }
          b.clear();
        }
      }
      break;
    }
    case C_STAT:
      if (parse_qpath(e.path, dir, n) && dir == "bounce") { bounce_open_n = n; bounce_child_seen = false; bounce_child_status = -1; }
      break;
    case C_WAITPID:
      if (e.ret > 0) { bounce_child_seen = true; bounce_child_status = (int)e.b; }
      break;
    case C_UNLINK: {
      if (e.ret != 0 || !parse_qpath(e.path, dir, n)) break;
      auto it = bynum.find(n); GMsg *m = it == bynum.end() ? nullptr : it->second;
      bool in_todo = (pattern.count(n) && (pattern[n] & QB_T));
      if (dir == "bounce" && m) {
        bool discard = m->info_sender == "#@[]";
        bool ok = discard || (bounce_child_seen && bounce_child_status == 0);
        if (!ok && enabled("c14")) violate("C14.bounce-record-dropped", "bounce/" + std::to_string(n) + " unlinked although no bounce was successfully queued");
        if (!ok && enabled("c03")) violate("C03.bounce-record-dropped", "bounce/" + std::to_string(n) + " unlinked without a successfully queued bounce (child status " + std::to_string(bounce_child_status) + ")");
        if (ok && !discard && (enabled("c03") || enabled("c14"))) for (auto &r : m->rc) if (r.noted && !r.named) { violate(enabled("c03") ? "C03.bounce-omits-recipient" : "C14.bounce-omits-recipient", "bounce/" + std::to_string(n) + " is removed after a bounce was queued, but that bounce does not name recipient " + printable(r.addr) + " with its failure text \"" + printable(r.fail_text, 80) + "\""); break; }
        for (auto &r : m->rc) if (r.noted) { r.noted = false; r.named = false; r.bounced = true; }
        if (discard) k->probe("triple_bounce_discarded");
      } else if ((dir == "local" || dir == "remote") && m && !in_todo && m->phase == GMsg::PREPROCESSED) {
        int ch = dir == "local" ? 0 : 1;
        if (enabled("c03")) for (auto &r : m->rc) if (r.chan == ch) {
          bool dying = m->birth + lifetime < k->clock;
          bool final_report = r.k_reports > 0 || ((r.last_verdict == 'D' || (r.last_verdict == 'Z' && dying)) && (r.noted || r.bounced));
          if (!r.marked && !final_report) { violate("C03.channel-file-removed-with-pending", e.path + " unlinked while " + r.addr + " is neither marked done nor finally reported"); break; }
        }
      } else if (dir == "info" && m && !in_todo) {
        m->info_unlinked_by_send = true; m->eliminated_in = send_incarnation;
        if (m->phase == GMsg::PREPROCESSED && enabled("c03")) {
          for (auto &r : m->rc) {
            bool fine = r.k_done || r.k_reports > 0 || r.bounced || r.exempt || (r.marked && r.cmds == 0 /* finished before this ghost saw it (planted / pre-crash) */);
            if (!fine) { violate("C03.dropped-recipient", m->id + " (msg " + std::to_string(n) + ") leaves the queue but recipient " + r.addr + " was neither delivered nor bounced" + (r.noted ? " (failure noted, bounce never queued)" : "")); break; }
          }
        }
        m->phase = GMsg::FINISHED;
        if (tg) tg->on_finished(m);
      }
      break;
    }
    default: break;
  }
  // preprocessing finished: cleaner removed todo/n (seen as clean's unlink) is handled in on_event via pattern; detect here on send's read of '+'
}

void WorldQ::after_crash() {
  had_crash = true;
  send_pid = 0; send_term_seen = false;
  for (int c = 0; c < 2; c++) { delnum_used[c].clear(); outstanding_count[c] = 0; }
  bypid.clear();
  full_scan_check("after crash");
  // re-read marks and notes from the surviving image
  for (auto &pr : bynum) {
    GMsg *m = pr.second;
    uint8_t b = pattern.count(m->num) ? pattern[m->num] : 0;
    if (!m->published) { if (b & QB_T) { m->published = true; m->accepted = true; } else { m->phase = GMsg::ABORTED; continue; } }
    if (m->published && !m->accepted) m->accepted = true;   // todo/n survived: the message counts as accepted
    if (m->phase == GMsg::PREPROCESSED) {
      Inode *l = k->lookup(qp("local", m->num, true)), *r = k->lookup(qp("remote", m->num, true)), *bf = k->lookup(qp("bounce", m->num, false));
      for (auto &x : m->rc) {
        x.outstanding = -1;
        Inode *f = x.chan == 0 ? l : r;
        bool was = x.marked;
        if (f && x.off < f->data.size()) x.marked = f->data[x.off] == 'D'; else if (!f) x.marked = true /* file gone: all were done */;
        if (was && !x.marked) { x.k_done = false; k->probe("mark_lost_in_crash"); }
        if (x.noted) {
          // is the note still in bounce/n ?
          bool present = bf && bf->data.find("<" + x.addr + ">:\n") != std::string::npos;
          if (!present && bf) { std::string a = x.addr; size_t d = a.find('-'); while (!present && d != std::string::npos) { present = bf->data.find("<" + a.substr(d + 1) + ">:\n") != std::string::npos; d = a.find('-', d + 1); } }
          if (!present) { x.noted = false; if (x.marked) { if (had_lossy_crash) { x.exempt = true; k->probe("bounce_note_lost_exempt"); } } }
        }
      }
    }
  }
}

void WorldQ::finish() {
  full_scan_check("end of run");
  finish_c01(); finish_c03(); finish_c04(); finish_c14(); finish_c15();
  if (second_pid && enabled("c02") && !second_got_lock) {
    int code = (second_status >> 8) & 0xff;
    if (second_status != -1 && (second_status & 0x7f) == 0 && code != 111) violate("C02.second-daemon-status", "second qmail-send exited " + std::to_string(code) + ", expected 111");
  }
  if (tg) tg->finish();
  // abstract state for coverage: multiset over messages of (phase, #T, #D)
  Hash64 h; for (auto *m : msgs) { h.u64((uint64_t)m->phase); int t = 0, d = 0; for (auto &r : m->rc) (r.marked ? d : t)++; h.u64((uint64_t)t); h.u64((uint64_t)d); h.u64(m->accepted); }
  res->state_hash = h.get();
}

void WorldQ::finish_c01() {
  if (!enabled("c01")) return;
  // leftovers of failed injections must be in S1..S3 (pattern check did that) and, if the plan waited long enough, collected
  if (plan->knobs.getb("expect_gc", false) && k->abort_reason.empty()) {
    for (auto *m : msgs) if (m->tagged && m->phase == GMsg::ABORTED && m->num) {
      uint8_t b = scan_pattern(m->num);
      if (b && !(bynum.count(m->num) && bynum[m->num] != m)) violate("C01.leftover-not-collected", m->id + " (msg " + std::to_string(m->num) + ") left " + pat_str(b) + "after the collection period");
    }
  }
}

void WorldQ::finish_c14() {
  if (!enabled("c14") || !plan->knobs.getb("expect_drain", false) || !k->abort_reason.empty() || !send_pid || term_excuses()) return;
  for (auto *m : msgs) if (m->accepted && m->phase != GMsg::FINISHED) { violate("C14.chain-not-drained", m->id + " (msg " + std::to_string(m->num) + ", sender \"" + printable(m->info_sender) + "\") is still queued: the bounce chain did not end"); break; }
}

// C15, last clause: every message leaves the queue in bounded time. Judged on plans whose scripted outcomes are all final within the
// horizon (the generator says so with expect_drain) and with a daemon running at the end.
void WorldQ::finish_c15() {
  if (!enabled("c15") || !plan->knobs.getb("expect_drain", false) || !k->abort_reason.empty() || !send_pid || term_excuses()) return;
  for (auto *m : msgs) if (m->accepted && m->phase != GMsg::FINISHED) { violate("C15.never-leaves-queue", m->id + " (msg " + std::to_string(m->num) + ") is still in the queue at the end of the run, long after its last scheduled attempt: phase " + std::to_string((int)m->phase) + " pattern " + pat_str(scan_pattern(m->num))); break; }
}

// C04, last clause: without crashes every recipient that succeeds is delivered exactly once - not twice (judged as it happens), and not
// never: judged here, on histories whose scripted outcomes are all final within the horizon, with a daemon running at the end
void WorldQ::finish_c04() {
  if (!enabled("c04") || !plan->knobs.getb("expect_drain", false) || !k->abort_reason.empty() || had_crash || had_proc_crash) return;
  // (injected I/O failures on queue files may legitimately cost the daemon its life or a delivery attempt; a configuration file that cannot be
  // reread costs nothing: the old configuration stays)
  for (auto &f : plan->faults) if ((f.actor.compare(0, 10, "qmail-send") == 0 || f.actor.compare(0, 11, "qmail-clean") == 0) && (f.kind == "error" || f.kind == "short" || f.kind == "eintr" || f.kind == "null" || f.kind == "kill") && f.path.find("/control/") == std::string::npos) return;
  if (!send_pid || term_excuses()) return;
  for (auto *m : msgs) if (m->accepted && m->phase != GMsg::FINISHED) for (auto &r : m->rc) if (!r.k_done && !r.marked) {
    violate("C04.not-delivered-exactly-once", m->id + " (msg " + std::to_string(m->num) + ") recipient " + r.addr + " has not been delivered or failed by the end of a crash-free run although every scripted outcome is final" + (send_term_seen ? " (the daemon got TERM " + std::to_string(k->clock - term_t) + " s ago, has nothing outstanding and is still running)" : "")); return; }
}

void WorldQ::finish_c03() {
  if (!enabled("c03") || !plan->knobs.getb("expect_drain", false) || !k->abort_reason.empty()) return;
  if (!send_pid || term_excuses()) return;   // liveness is a statement about a running daemon
  for (auto *m : msgs) if (m->accepted && m->phase != GMsg::FINISHED) {
    violate("C03.not-drained", m->id + " (msg " + std::to_string(m->num) + ") still in the queue at the end of the run: phase " + std::to_string((int)m->phase) + " pattern " + pat_str(scan_pattern(m->num)));
    break;
  }
}

// leftovers and survivors of an earlier life of the machine, created host-side before boot
void WorldQ::plant(const Json &op) {
  std::string st = op.gets("state", "S2");
  int64_t age = op.geti("age", 0);
  uint32_t uq = uids["qmailq"], us_ = uids["qmails"];
  Inode *mi = k->new_inode(T_REG, 0644, uq, gid_qmail);
  uint64_t n = mi->ino; mi->nlink = 1;
  std::string body = "Received: (qmail 1 invoked by uid 1001); 1 Jan 2001 00:00:00 -0000\nplanted " + std::to_string(n) + "\n";
  mi->data = mi->synced = body; mi->atime = mi->mtime = mi->ctime = k->clock - age;
  Inode *md = k->lookup(home + "/queue/mess/" + std::to_string(n % (uint64_t)split)); md->ents[std::to_string(n)] = n;
  GMsg *m = new GMsg; m->id = op.gets("id", "planted" + std::to_string(n)); m->num = n; m->pre_planted = true; m->sender = op.gets("sender", "ps@x.example");
  for (auto &r : op["rcpts"].a) m->rcpts.push_back(r.str());
  if (m->rcpts.empty()) m->rcpts.push_back("p" + std::to_string(n) + "@l.example");
  msgs.push_back(m); byid[m->id] = m; bynum[n] = m; pattern[n] = QB_M;
  std::string env = "u1001" + std::string(1, '\0') + "p1" + std::string(1, '\0') + "F" + m->sender + std::string(1, '\0');
  for (auto &r : m->rcpts) env += "T" + r + std::string(1, '\0');
  auto mk = [&](const std::string &path, const std::string &data, uint32_t uid) { Inode *f = k->put_file(path, data, 0600, uid, gid_qmail); f->atime = f->mtime = f->ctime = k->clock - age; return f; };
  if (st == "S3") { mk(qp("intd", n, false), env.substr(0, env.size() / 2), uq); pattern[n] |= QB_I; m->phase = GMsg::ABORTED; }
  else if (st == "S2") { m->phase = GMsg::ABORTED; }
  else if (st == "S4") {
    Inode *t = mk(qp("intd", n, false), env, uq); pattern[n] |= QB_I | QB_T;
    Inode *td = k->lookup(home + "/queue/todo"); td->ents[std::to_string(n)] = t->ino; t->nlink++;
    if (op.getb("drop_intd", false)) { k->remove_path(qp("intd", n, false)); pattern[n] &= (uint8_t)~QB_I; }
    if (op.getb("stale_info", false)) { mk(qp("info", n, true), "Fstale" + std::string(1, '\0'), us_); pattern[n] |= QB_F; mk(qp("local", n, true), "Tstale@l.example" + std::string(1, '\0'), us_); pattern[n] |= QB_L; }
    m->published = m->accepted = true; m->phase = GMsg::QUEUED;
  } else if (st == "S5") {
    mk(qp("info", n, true), "F" + m->sender + std::string(1, '\0'), us_); pattern[n] |= QB_F;
    std::string lf, rf; size_t idx = 0; int64_t ndone = op.geti("done", 0);
    for (auto &r : m->rcpts) { bool remote = r.size() > 10 && r.compare(r.size() - 10, 10, "@r.example") == 0; std::string rec = std::string(1, (int64_t)idx < ndone ? 'D' : 'T') + r + std::string(1, '\0'); (remote ? rf : lf) += rec; idx++; }
    if (!lf.empty()) { mk(qp("local", n, true), lf, us_); pattern[n] |= QB_L; }
    if (!rf.empty()) { mk(qp("remote", n, true), rf, us_); pattern[n] |= QB_R; }
    m->published = m->accepted = true; m->phase = GMsg::QUEUED;   // the ghost re-reads the channel files below
    m->phase = GMsg::PREPROCESSED; m->rc.clear();
    Inode *l = k->lookup(qp("local", n, true)), *r = k->lookup(qp("remote", n, true));
    if (l) parse_chan_file(l->data, 0, m->rc);
    if (r) parse_chan_file(r->data, 1, m->rc);
    m->birth = k->clock - age; m->info_sender = m->sender;
    if (tg) tg->on_preprocessed(m);
  }
}


World *make_world_q() { return new WorldQ; }

}  // namespace sim

// q_time.cc - timing ghosts: C15 (retry schedule, expiry, order) and C16 (no lost trigger, no busy loop, no oversleeping)
// Derived from observations only: the daemon's read-only open of local/n|remote/n is a pass start, its close the pass end;
// due times are recomputed with exact integer arithmetic from the documented formula.
#include "q_time.h"
#include <fcntl.h>
#include <signal.h>
#include <algorithm>

namespace sim {

static uint64_t isqrt64(uint64_t x) { uint64_t r = 0, b = 1ULL << 62; while (b > x) b >>= 2; while (b) { if (x >= r + b) { x -= r + b; r = (r >> 1) + b; } else r >>= 1; b >>= 2; } return r; }

struct ChanState {
  bool exists = false;          // channel file exists with pending work (from preprocessing until unlinked)
  int64_t due = 0;              // earliest legal time of the next pass
  bool early_ok = false;        // ALRM or unclean restart intervened: the next pass may be early
  bool in_pass = false; int pass_fd = -1;
  int outstanding = 0;          // commands of this message/channel not yet reported
  int passes = 0; bool dying = false; bool expired_pass_done = false;
  int64_t last_pass_t = -1;
  bool due_known = true;
  bool term_interrupted = false; int64_t lost_due = 0;   // clean TERM arrived while this pass was open: its retry time is not persisted (known finding)
  bool waiting() const { return exists && !in_pass && outstanding == 0; }
};
struct MsgTime { GMsg *m; ChanState c[2]; int64_t completed_at = -1; bool noticed = false; int64_t notice_idle = 0; int64_t idle_at_completion = 0; bool injector_ok = false; };

struct TimeGhostImpl : TimeGhost {
  std::map<uint64_t, MsgTime> mt;            // by message number
  bool c15, c16;
  bool daemon_ready = false; int64_t daemon_since_idle = 0; bool exiting = false; bool clean_exit_pending = false; bool last_exit_clean = false;
  int64_t pause_until = 0; bool progress_since_select = true; int idle_wakeups = 0; int zero_selects = 0; int max_zero_selects = 0; int alrm_countdown = 0;
  bool alrm_obligation = false; int64_t alrm_t = 0; std::set<std::pair<uint64_t, int>> alrm_waiting;
  bool spawner_lost = false;
  int pass_owner_fd[2] = {-1, -1}; uint64_t pass_owner_n[2] = {0, 0};
  int jobs_in_use() { int j = 0; for (auto &p : mt) for (int c = 0; c < 2; c++) if (p.second.c[c].exists && (p.second.c[c].in_pass || p.second.c[c].outstanding > 0)) j++; return j; }
  int numjobs() { return std::min(w->conc[0], w->spawn_limit[0]) + std::min(w->conc[1], w->spawn_limit[1]); }
  bool timing_exact;

  explicit TimeGhostImpl(WorldQ *w_) : TimeGhost(w_) { c15 = w->enabled("c15"); c16 = w->enabled("c16"); timing_exact = w->plan->knobs.getd("tick_p", 0.0) == 0.0; }

  int skip(int c) { return c == 0 ? 10 : 20; }
  int64_t retry_due(int64_t birth, int64_t recent, int c) {
    uint64_t age = recent > birth ? (uint64_t)(recent - birth) : 0;
    int64_t n = (int64_t)isqrt64(age) + skip(c);
    return birth + n * n;
  }

  void on_published(GMsg *m) override { MsgTime x; x.m = m; mt[m->num] = x; }
  void on_preprocessed(GMsg *m) override {
    MsgTime &x = mt[m->num]; if (x.m != m) x = MsgTime(); x.m = m; x.noticed = true;
    for (int c = 0; c < 2; c++) { x.c[c] = ChanState(); bool any = false; for (auto &r : m->rc) if (r.chan == c) any = true; x.c[c].exists = any; x.c[c].due = w->k->clock; }
  }
  void on_command(const SpawnCmd &c) override { auto it = mt.find(c.num); if (it != mt.end()) it->second.c[c.chan].outstanding++; }
  void on_report(GMsg *m, GRcpt &r) override {
    auto it = mt.find(m->num); if (it == mt.end()) return;
    ChanState &cs = it->second.c[r.chan]; if (cs.outstanding > 0) cs.outstanding--;
    if (c15 && r.last_verdict == 'Z') {
      // a temporary failure in a pass that started after birth+lifetime must become permanent; before, it must not
      r.fail_text = r.fail_text;  // (judged when the mark is or is not written; see on_event)
    }
  }
  void on_finished(GMsg *m) override { auto it = mt.find(m->num); if (it != mt.end() && it->second.m == m) mt.erase(it); }
  void on_crash() override {
    daemon_ready = false; exiting = false; last_exit_clean = false;
    for (auto &p : mt) for (int c = 0; c < 2; c++) { ChanState &cs = p.second.c[c]; cs.in_pass = false; cs.outstanding = 0; cs.early_ok = true; cs.exists = w->k->lookup(w->qp(c == 0 ? "local" : "remote", p.first, true)) != nullptr; }
  }

  void on_event(const Event &e) override {
    Proc *p = e.proc; Kernel *k = w->k;
    if (!p) return;
    if (p->role == "qmail-queue" && e.call == C_EXIT) {
      auto it = w->bypid.find(e.pid);
      if (it != w->bypid.end() && it->second->published && e.a == 0) {
        GMsg *m = it->second; auto xi = mt.find(m->num);
        if (xi != mt.end() && xi->second.m == m && !xi->second.noticed && xi->second.completed_at < 0) { MsgTime &x = xi->second; x.completed_at = k->clock; x.idle_at_completion = k->idle_total; x.injector_ok = true; }
      }
      return;
    }
    if (p->role != "qmail-send" || p->tag == "second") return;
    std::string dir; uint64_t n;
    switch (e.call) {
      case C_EXEC: case C_SPAWN:
        daemon_ready = true; exiting = false; daemon_since_idle = k->idle_total; zero_selects = 0;
        for (auto &pr : mt) for (int c = 0; c < 2; c++) { ChanState &cs = pr.second.c[c]; cs.in_pass = false; cs.outstanding = 0; if (!last_exit_clean) cs.early_ok = true; }
        for (auto &pr : mt) if (pr.second.completed_at >= 0 && !pr.second.noticed) pr.second.idle_at_completion = k->idle_total;
        pass_owner_fd[0] = pass_owner_fd[1] = -1;
        break;
      case C_SIGNAL:
        if (e.a == SIGTERM) exiting = true;
        // pqrun() takes effect at the top of the daemon's next loop iteration. The obligation ("everything waiting is due now")
        // starts at the daemon's next return from select(): immediately if the signal interrupted select (EINTR); only when the
        // timeout ends if the handler ran after the loop's flag test but before select() blocked (race in the real code).
        if (e.a == SIGALRM) { alrm_countdown = 2; alrm_obligation = true; alrm_t = k->clock; alrm_waiting.clear();
          for (auto &pr : mt) for (int c = 0; c < 2; c++) { ChanState &cs = pr.second.c[c]; if (cs.waiting()) { cs.early_ok = true; alrm_waiting.insert({pr.first, c}); } } }
        break;
      case C_READ:
        // end of file on a spawner's report pipe: the spawner is gone. The daemon says so, starts nothing new and exits once the other
        // channel has reported; deliveries handed to the lost spawner are never reported, their passes never end, and nothing about
        // them is persisted - after the restart they are simply due as before
        if (e.ret == 0 && e.pipe && (e.fd == 2 || e.fd == 4)) { exiting = true; spawner_lost = true; k->probe("spawner_lost_seen_by_daemon"); }
        break;
      case C_EXIT:
        daemon_ready = false; last_exit_clean = (e.a == 0);
        alrm_obligation = false; alrm_countdown = 0; alrm_waiting.clear();   // an ALRM that reached a daemon on its way out dies with it: "everything is due now" lives in memory only
        for (auto &pr : mt) for (int c = 0; c < 2; c++) { ChanState &cs = pr.second.c[c]; if (cs.outstanding > 0 || (spawner_lost && cs.in_pass)) { cs.early_ok = true; cs.due_known = false; cs.expired_pass_done = false; if (spawner_lost) cs.in_pass = false; } }
        spawner_lost = false;
        if (last_exit_clean) for (auto &pr : mt) for (int c = 0; c < 2; c++) { ChanState &cs = pr.second.c[c]; if (cs.in_pass) { cs.term_interrupted = true; cs.lost_due = cs.due; cs.due_known = false; k->probe("term_during_open_pass"); } }
        break;
      case C_OPEN: {
        if (e.ret < 0 || !w->parse_qpath(e.path, dir, n)) break;
        if (dir == "todo") {
          auto it = mt.find(n);
          if (it != mt.end() && !it->second.noticed) {
            MsgTime &x = it->second; x.noticed = true;
            int64_t lat = k->idle_total - std::max(x.idle_at_completion, daemon_since_idle);
            if (c16 && x.injector_ok && lat > 2) w->violate("C16.lost-wakeup", "todo/" + std::to_string(n) + " was noticed only after the system had been idle for " + std::to_string(lat) + " s following the completed injection of " + x.m->id);
            k->probe("todo_noticed");
          }
          break;
        }
        if ((dir == "local" || dir == "remote") && (e.a & O_ACCMODE) == O_RDONLY && !(e.b & (1 << 20))) {
          int c = dir == "local" ? 0 : 1;
          auto it = mt.find(n); if (it == mt.end()) break;
          MsgTime &x = it->second; ChanState &cs = x.c[c];
          int64_t now = k->clock;
          if (c15 && cs.term_interrupted) { if (now < cs.lost_due) w->known("C15.term-during-pass-loses-schedule"); cs.term_interrupted = false; }
          if (c15) {
            if (!cs.early_ok && cs.due_known && now < cs.due - (timing_exact ? 0 : 2)) w->violate("C15.retried-too-early", x.m->id + " (msg " + std::to_string(n) + ", " + dir + ") pass at " + std::to_string(now) + " but quadratic back-off says not before " + std::to_string(cs.due) + " (birth " + std::to_string(x.m->birth) + ")");
            if (cs.expired_pass_done) w->violate("C15.retry-after-expiry", x.m->id + " (msg " + std::to_string(n) + ") gets another pass after the pass that followed its queue lifetime");
            // earliest-due first among waiting messages of this channel (only with exact timing and no ALRM/restart ambiguity)
            if (timing_exact && !cs.early_ok && cs.due_known) for (auto &o : mt) { if (o.first == n) continue; ChanState &os = o.second.c[c]; if (os.waiting() && !os.early_ok && os.due_known && os.due < cs.due && os.due <= now - 1)
              w->violate("C15.not-earliest-first", "msg " + std::to_string(n) + " (due " + std::to_string(cs.due) + ") is served before msg " + std::to_string(o.first) + " (due " + std::to_string(os.due) + ") on channel " + dir); }
          }
          cs.in_pass = true; cs.pass_fd = e.fd; cs.passes++; cs.last_pass_t = now; cs.early_ok = false;
          pass_owner_fd[c] = e.fd; pass_owner_n[c] = n;
          cs.dying = now > x.m->birth + w->lifetime;
          // the daemon computes the next try from `recent`, which is the clock of this loop iteration
          int64_t d1 = retry_due(x.m->birth, now, c), d0 = retry_due(x.m->birth, now - 1, c);
          cs.due = timing_exact ? d1 : std::min(d0, d1); cs.due_known = true;
          if (c15 && !(cs.due > now)) w->violate("C15.model", "retry time not in the future");
          k->probe("pass_started"); if (cs.dying) k->probe("pass_after_lifetime");
          w->res->nontrivial = true;
        }
        break;
      }
      case C_CLOSE:
        for (int c = 0; c < 2; c++) if (pass_owner_fd[c] == e.fd && e.fd >= 0 && w->parse_qpath(e.path, dir, n) && n == pass_owner_n[c] && dir == (c == 0 ? "local" : "remote")) {
          auto it = mt.find(n); if (it != mt.end()) { it->second.c[c].in_pass = false; if (it->second.c[c].dying) it->second.c[c].expired_pass_done = true; }
          pass_owner_fd[c] = -1;
        }
        break;
      case C_UNLINK:
        if (e.ret == 0 && w->parse_qpath(e.path, dir, n) && (dir == "local" || dir == "remote")) { auto it = mt.find(n); if (it != mt.end()) it->second.c[dir == "local" ? 0 : 1].exists = false; }
        break;
      case C_WRITE:
        // Z in a pass that started within the lifetime must not be turned into a permanent failure
        if (c15 && e.ret == 1 && e.data[0] == 'D' && w->parse_qpath(e.path, dir, n) && (dir == "local" || dir == "remote")) {
          int c = dir == "local" ? 0 : 1; auto it = mt.find(n); if (it == mt.end()) break;
          GMsg *m = it->second.m; for (auto &r : m->rc) if (r.chan == c && r.off == (uint64_t)e.off && r.last_verdict == 'Z' && !it->second.c[c].dying)
            w->violate("C15.expired-early", m->id + " recipient " + r.addr + ": temporary failure made permanent although the pass started at " + std::to_string(it->second.c[c].last_pass_t) + " <= birth+lifetime " + std::to_string(m->birth + w->lifetime));
        }
        break;
      case C_UTIMES:
        if (c15 && e.ret == 0 && w->parse_qpath(e.path, dir, n) && (dir == "local" || dir == "remote")) {
          int c = dir == "local" ? 0 : 1; auto it = mt.find(n);
          if (it != mt.end() && it->second.c[c].due_known && !it->second.c[c].early_ok && timing_exact && e.b < it->second.c[c].due) {
            // persisted schedule earlier than the computed due time would allow an early retry after restart
            if (it->second.c[c].passes > 0) w->violate("C15.persisted-schedule-early", "utimes " + e.path + " records " + std::to_string(e.b) + ", due is " + std::to_string(it->second.c[c].due));
          }
          k->probe("schedule_persisted");
        }
        break;
      case C_SELECT:
        if (alrm_obligation) {
          alrm_obligation = false;
          if (e.err != 4 /*EINTR*/ && k->clock - alrm_t > 2 && !alrm_waiting.empty() && c15) w->known("C15.alrm-before-select-delayed");
          for (auto &key : alrm_waiting) { auto it = mt.find(key.first); if (it != mt.end() && it->second.c[key.second].waiting()) { ChanState &cs = it->second.c[key.second]; cs.due = std::min(cs.due, k->clock); cs.early_ok = true; } }
        }
        // permission only (no obligation): a message that re-entered the queue just before pqrun() ran may be passed early
        if (alrm_countdown > 0) { alrm_countdown--; for (auto &pr : mt) for (int c = 0; c < 2; c++) { ChanState &cs = pr.second.c[c]; if (cs.waiting()) cs.early_ok = true; } }
        if (c16) {
          // spinning of the other kind: select() keeps returning at once and every wake-up finds nothing to do. A process that
          // holds the trigger open for a moment (or is stalled there: capped at 3 s) makes the daemon poll legitimately; that is
          // a few hundred wake-ups at most, so the threshold sits well above it.
          if (!progress_since_select && e.ret >= 0) { if (++idle_wakeups > 2500) w->violate("C16.busy-loop", "qmail-send woke up " + std::to_string(idle_wakeups) + " times in a row with nothing to do (select keeps returning at once; requested timeout " + std::to_string(e.a) + " s)"); }
          else idle_wakeups = 0;
          progress_since_select = false;
          if (e.a == 0 && e.ret == 0) { if (++zero_selects > max_zero_selects) max_zero_selects = zero_selects; if (zero_selects > 400) w->violate("C16.busy-loop", "qmail-send polled select() with a zero timeout " + std::to_string(zero_selects) + " times in a row without doing anything else"); }
          else zero_selects = 0;
        }
        break;
      default: break;
    }
    // "alert: unable to opendir ..., sleeping" (and the other pause-and-retry alerts): the daemon deliberately waits ten seconds
    // before it tries the failing operation again; nothing is due to happen during that pause
    if (e.call == C_WRITE && e.path.compare(0, 5, "sink:") == 0 && e.data && e.len >= 6 && std::string(e.data, e.len).find("sleeping") != std::string::npos) pause_until = w->k->clock + 11;
    // progress = the daemon changed something or talked to somebody (not: closing/reopening the trigger and scanning directories)
    if ((e.call == C_WRITE && e.ret > 0) || (e.call == C_READ && e.ret > 0) || e.call == C_UNLINK || e.call == C_LINK || e.call == C_RENAME || e.call == C_FORK || e.call == C_UTIMES || e.call == C_FSYNC || e.call == C_EXIT || (e.call == C_OPEN && (e.b & (1 << 20)))) progress_since_select = true;
    if (e.call != C_SELECT && e.call != C_WRITE /* log */) zero_selects = 0;
    if (e.call == C_WRITE && e.ino) zero_selects = 0;
  }

  // everything is blocked and the clock is about to jump from `from` to `to`
  void on_idle(int64_t from, int64_t to) {
    if (!daemon_ready || exiting) return;
    Kernel *k = w->k;
    Proc *sp = k->find_proc(w->send_pid); if (!sp || sp->st != Proc::LIVE) return;
    if (k->clock < pause_until) { k->probe("daemon_pausing_after_alert"); return; }
    // C16(1): a completed injection must not be left waiting while the whole system sleeps
    if (c16) for (auto &pr : mt) { MsgTime &x = pr.second; if (x.injector_ok && !x.noticed && (pr.second.m->phase == GMsg::QUEUED)) {
        int64_t idle_so_far = k->idle_total - std::max(x.idle_at_completion, daemon_since_idle);
        if (idle_so_far + (to - from) > 2) { w->violate("C16.lost-wakeup", "todo/" + std::to_string(pr.first) + " (" + x.m->id + ", injection completed at " + std::to_string(x.completed_at) + ") is still unnoticed and the daemon goes to sleep from " + std::to_string(from) + " to " + std::to_string(to)); return; } } }
    // C15(2)/C16(4): never sleep past a due retry when capacity is free
    if ((c15 || c16) && timing_exact) {
      bool jobs_free = jobs_in_use() < numjobs();
      for (auto &pr : mt) for (int c = 0; c < 2; c++) {
        ChanState &cs = pr.second.c[c];
        if (!cs.waiting() || !cs.due_known) continue;
        if (std::min(w->conc[c], w->spawn_limit[c]) <= 0) continue;
        if (!k->find_role(c == 0 ? "qmail-lspawn" : "qmail-rspawn")) continue;
        bool slot_free = pass_owner_fd[c] < 0;
        if (!slot_free || !jobs_free) continue;
        if (to > cs.due + 2) {
          const char *cls = c15 ? "C15.late-retry" : "C16.sleeps-past-due";
          w->violate(cls, "msg " + std::to_string(pr.first) + " is due at " + std::to_string(cs.due) + " on channel " + std::to_string(c) + " with capacity free, but the daemon sleeps from " + std::to_string(from) + " to " + std::to_string(to)); return;
        }
      }
    }
  }
  void finish() override { w->k->probe("max_consecutive_zero_selects", (uint64_t)max_zero_selects); }
};

TimeGhost *make_time_ghost(WorldQ *w) { return new TimeGhostImpl(w); }
void time_ghost_idle(TimeGhost *t, int64_t from, int64_t to) { static_cast<TimeGhostImpl *>(t)->on_idle(from, to); }

}  // namespace sim

#include "util.h"
#include <stdio.h>
#include <string.h>
#include <stdlib.h>
#include <math.h>

namespace sim {

std::string json_escape(const std::string &s) {
  std::string o;
  o.reserve(s.size() + 2);
  for (unsigned char c : s) {
    switch (c) {
      case '"': o += "\\\""; break;
      case '\\': o += "\\\\"; break;
      case '\n': o += "\\n"; break;
      case '\r': o += "\\r"; break;
      case '\t': o += "\\t"; break;
      default:
        if (c < 0x20 || c >= 0x7f) { char b[8]; snprintf(b, sizeof b, "\\u%04x", c); o += b; }
        else o += (char)c;
    }
  }
  return o;
}

static void dump_rec(const Json &j, std::string &o, int indent, int depth) {
  auto nl = [&](int d) { if (indent >= 0) { o += '\n'; o.append((size_t)(indent * d), ' '); } };
  switch (j.t) {
    case Json::NUL: o += "null"; break;
    case Json::BOOL: o += j.b ? "true" : "false"; break;
    case Json::NUM: {
      char b[64];
      if (j.is_int) snprintf(b, sizeof b, "%lld", (long long)j.inum);
      else if (!std::isfinite(j.num)) snprintf(b, sizeof b, "0");
      else snprintf(b, sizeof b, "%.6g", j.num);
      o += b; break;
    }
    case Json::STR: o += '"'; o += json_escape(j.s); o += '"'; break;
    case Json::ARR:
      o += '[';
      for (size_t i = 0; i < j.a.size(); i++) {
        if (i) o += ',';
        bool simple = j.a[i].t != Json::OBJ && j.a[i].t != Json::ARR;
        if (!simple) nl(depth + 1); else if (i && indent >= 0) o += ' ';
        dump_rec(j.a[i], o, indent, depth + 1);
      }
      if (!j.a.empty() && (j.a.back().t == Json::OBJ || j.a.back().t == Json::ARR)) nl(depth);
      o += ']'; break;
    case Json::OBJ:
      o += '{';
      for (size_t i = 0; i < j.o.size(); i++) {
        if (i) o += ',';
        nl(depth + 1);
        o += '"'; o += json_escape(j.o[i].first); o += "\":"; if (indent >= 0) o += ' ';
        dump_rec(j.o[i].second, o, indent, depth + 1);
      }
      if (!j.o.empty()) nl(depth);
      o += '}'; break;
  }
}
std::string Json::dump(int indent) const { std::string o; dump_rec(*this, o, indent, 0); return o; }

namespace {
struct P {
  const std::string &s; size_t i = 0;
  explicit P(const std::string &t) : s(t) {}
  [[noreturn]] void fail(const char *m) { throw std::runtime_error(std::string("json: ") + m + " at " + std::to_string(i)); }
  void ws() { while (i < s.size() && (s[i] == ' ' || s[i] == '\n' || s[i] == '\t' || s[i] == '\r')) i++; }
  Json val() {
    ws(); if (i >= s.size()) fail("eof");
    char c = s[i];
    if (c == '{') { i++; Json j = Json::obj(); ws(); if (s[i] == '}') { i++; return j; }
      for (;;) { ws(); if (s[i] != '"') fail("key"); std::string k = str(); ws(); if (s[i] != ':') fail("colon"); i++;
        Json v = val(); j.o.emplace_back(k, v); ws(); if (s[i] == ',') { i++; continue; } if (s[i] == '}') { i++; return j; } fail("obj"); } }
    if (c == '[') { i++; Json j = Json::arr(); ws(); if (s[i] == ']') { i++; return j; }
      for (;;) { j.a.push_back(val()); ws(); if (s[i] == ',') { i++; continue; } if (s[i] == ']') { i++; return j; } fail("arr"); } }
    if (c == '"') return Json(str());
    if (!s.compare(i, 4, "true")) { i += 4; return Json(true); }
    if (!s.compare(i, 5, "false")) { i += 5; return Json(false); }
    if (!s.compare(i, 4, "null")) { i += 4; return Json(); }
    size_t st = i; bool isint = true;
    if (s[i] == '-') i++;
    while (i < s.size() && (isdigit((unsigned char)s[i]) || s[i] == '.' || s[i] == 'e' || s[i] == 'E' || s[i] == '+' || s[i] == '-')) {
      if (s[i] == '.' || s[i] == 'e' || s[i] == 'E') isint = false; i++; }
    if (st == i) fail("value");
    std::string t = s.substr(st, i - st);
    if (isint) { if (t[0] == '-') return Json((long long)strtoll(t.c_str(), 0, 10)); return Json((unsigned long long)strtoull(t.c_str(), 0, 10)); }
    return Json(strtod(t.c_str(), 0));
  }
  std::string str() {
    std::string o; i++;
    while (i < s.size() && s[i] != '"') {
      if (s[i] == '\\') { i++; char c = s[i++];
        switch (c) { case 'n': o += '\n'; break; case 'r': o += '\r'; break; case 't': o += '\t'; break;
          case 'b': o += '\b'; break; case 'f': o += '\f'; break;
          case 'u': { unsigned v = (unsigned)strtoul(s.substr(i, 4).c_str(), 0, 16); i += 4;
            if (v < 256) o += (char)v; else { /* utf-8 encode */ if (v < 0x800) { o += (char)(0xc0 | (v >> 6)); o += (char)(0x80 | (v & 63)); }
              else { o += (char)(0xe0 | (v >> 12)); o += (char)(0x80 | ((v >> 6) & 63)); o += (char)(0x80 | (v & 63)); } } break; }
          default: o += c; }
      } else o += s[i++];
    }
    if (i >= s.size()) fail("string"); i++;
    return o;
  }
};
}  // namespace
Json Json::parse(const std::string &text) { P p(text); Json j = p.val(); return j; }

std::string read_file_host(const std::string &path) {
  FILE *f = fopen(path.c_str(), "rb");
  if (!f) throw std::runtime_error("cannot read " + path);
  std::string o; char b[65536]; size_t n;
  while ((n = fread(b, 1, sizeof b, f)) > 0) o.append(b, n);
  fclose(f); return o;
}
bool write_file_host(const std::string &path, const std::string &data) {
  std::string tmp = path + ".tmp";
  FILE *f = fopen(tmp.c_str(), "wb"); if (!f) return false;
  bool ok = fwrite(data.data(), 1, data.size(), f) == data.size();
  ok = (fclose(f) == 0) && ok;
  if (ok) ok = rename(tmp.c_str(), path.c_str()) == 0;
  return ok;
}
std::string hex64(uint64_t v) { char b[32]; snprintf(b, sizeof b, "%016llx", (unsigned long long)v); return b; }
std::string printable(const std::string &s, size_t max) {
  std::string o;
  for (unsigned char c : s) {
    if (o.size() >= max) { o += "..."; break; }
    if (c == '\\') o += "\\\\";
    else if (c >= 0x20 && c < 0x7f) o += (char)c;
    else if (c == '\n') o += "\\n";
    else if (c == '\r') o += "\\r";
    else if (c == 0) o += "\\0";
    else { char b[8]; snprintf(b, sizeof b, "\\x%02x", c); o += b; }
  }
  return o;
}

}  // namespace sim

#pragma once
#include "world.h"
namespace sim {
int replay_main(int argc, char **argv);
int check_main(int argc, char **argv);
int determinism_main(int argc, char **argv);
// shrink a failing plan while the same violation class persists; returns the minimised plan (with explicit choices)
Plan shrink_plan(const Plan &p, const std::string &cls, const std::string &images, int max_runs, int *runs_used);
struct TierBudget { uint64_t quick_n, thorough_n; };
TierBudget tier_budget(const std::string &id);
}

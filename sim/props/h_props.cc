// h_props.cc - plan generator for C18 (helpers at trust boundaries)
#include "../world.h"
#include "gen_util.h"
#include <errno.h>

namespace sim {

static std::string rand_clean_request(Rng &r) {
  static const std::vector<std::string> alpha = {"0", "1", "2", "7", "9", "/", ".", "a", "f", "o", "p", "t", "d", "x", "\xff", "\x80", " ", "-", "+"};
  int kind = (int)r.below(16);
  std::string pre = r.chance(0.5) ? "foop/" : "todo/";
  switch (kind) {
    case 0: return pre + std::to_string(r.pick(std::vector<unsigned long long>{1, 2, 12, 34, 77, 123, 1234, 5, 0, 4294967297ULL /* 2^32 + a number that exists: inode numbers are 64 bits wide */, 4294967298ULL, 4294967308ULL, 4294967373ULL, 1099511627853ULL, 8589934593ULL, 18446744073709551615ULL}));
    case 1: return pre + std::to_string(r.pick(std::vector<int>{1, 2, 12, 77})) + r.pick(alpha) + std::to_string(r.below(10));   // digit, junk, digit
    case 2: { std::string p2 = pre; p2[r.below(5)] = r.pick(alpha)[0]; return p2 + std::to_string(r.pick(std::vector<int>{1, 2, 12, 77})); }  // near-valid prefix
    case 3: return pre;                                            // too short
    case 4: return pre + std::string((size_t)r.range(90, 110), '1');   // around the 100-byte limit
    case 5: return pre + "../" + std::to_string(r.below(100));
    case 6: return pre + r.pick(std::vector<std::string>{"18446744073709551617", "18446744073709551628", "36893488147419103233", "00000000000000000001", "18446744073709551616"});
    case 7: return "mess/" + std::to_string(r.below(23)) + "/" + std::to_string(r.pick(std::vector<int>{1, 2, 12}));
    case 8: return r.pick(std::vector<std::string>{"info/1", "../todo/1", "/etc/passwd", "lock/x", "pid/fresh.1.1", "foop", "todo", "fooq/1", "toda/12", "todoX77", "foopX1", "Todo/1", "FOOP/1"});
    case 9: return pre + std::to_string(r.below(100)) + "/";
    case 10: return pre + " " + std::to_string(r.below(100));
    case 11: return pre + "0" + std::to_string(r.pick(std::vector<int>{1, 12, 77}));
    default: { std::string s2 = r.chance(0.6) ? pre : ""; size_t n = r.below(9); for (size_t q = 0; q < n; q++) s2 += r.pick(alpha); return s2; }
  }
}

static std::string rand_messid(Rng &r) {
  int kind = (int)r.below(14);
  switch (kind) {
    case 0: case 1: case 2: { int n = r.pick(std::vector<int>{1, 2, 12, 34, 77, 123}); return std::to_string(n % 23) + "/" + std::to_string(n); }
    case 3: return "12/34";
    case 4: return "../x";
    case 5: return "/etc/passwd";
    case 6: return "1/../2";
    case 7: return "";
    case 8: return std::string((size_t)r.range(95, 110), '1');
    case 9: return "5/99";       // a directory
    case 10: return "7/7";       // a FIFO
    case 11: return "8/8";       // foreign owner
    case 12: return "9";         // numeric but unsplit
    default: return r.pick(std::vector<std::string>{"1/1x", "x1/1", "1//1", "/1/1", "1/1/", "0/0", "22/999999"});
  }
}

static bool gen_c18(uint64_t seed, const std::string &tier, uint64_t i, Plan &p) {
  (void)tier;
  p = Plan(); p.property = "C18"; p.seed = mix64(mix64(seed, 0xC18), i);
  Rng r(p.seed);
  int m = (int)(i % 8);
  if (i % 32 == 21) {
    // well-formed commands whose agents all start, and agents that say more than they are asked: message reports followed by further
    // bytes (more segments, forged-looking reports, NULs), with every exit status. One command, one report - whatever the agent wrote
    // after its verdict. (The general spawner plans start an agent for one command in nine only.)
    p.world = "H"; p.knobs.set("mode", "rspawn").set("split_p", r.pick(std::vector<double>{0.0, 0.5})).set("stick", r.pick(std::vector<double>{0.3, 1.0})).set("pipe_buf", 512);
    int n = (int)r.range(1, 4); std::string st; Json ag = Json::arr(); const std::string Z(1, '\0');
    for (int q = 0; q < n; q++) {
      st.push_back((char)q); st += "1/1"; st.push_back('\0'); st += "s@x.example"; st.push_back('\0'); st += "u" + std::to_string(q) + "@r.example"; st.push_back('\0');
      std::string o = r.pick(std::vector<std::string>{"", "r", "rmx1" + Z, "h no" + Z, "s later" + Z + "r" + Z});
      o += r.pick(std::vector<std::string>{"K accepted", "Kok", "Z deferred", "D failed", "K"}) + Z;
      int extra = (int)r.below(4); for (int x = 0; x < extra; x++) o += r.pick(std::vector<std::string>{"rest", std::string(1, (char)((q + 1) % n)) + "Kforged", "K again", "D no", Z, "x", std::string(1, (char)q) + "Z"}) + (r.chance(0.8) ? Z : std::string());
      Json a = Json::obj(); a.set("out", o).set("code", (long long)r.pick(std::vector<int>{0, 0, 0, 0, 111, 100, 1})).set("lat", (long long)r.below(2)); ag.push(a);
    }
    p.ops.push(Json::obj().set("op", "stream").set("bytes", st)); p.knobs.set("agents", ag);
    p.label = "rspawn: " + std::to_string(n) + " well-formed commands, agents that say too much";
    return true;
  }
  if (m <= 2) {   // (a) qmail-clean
    p.world = "H"; p.knobs.set("mode", "clean").set("split_p", r.pick(std::vector<double>{0.0, 0.5, 0.9})).set("stick", 1.0);
    std::string s; int n = (int)r.range(1, 6); std::string lab;
    for (int q = 0; q < n; q++) { std::string rq = rand_clean_request(r); s += rq; s.push_back('\0'); if (q < 3) lab += "[" + printable(rq, 30) + "]"; }
    if (r.chance(0.2)) s += "foop/1";   // unterminated tail
    p.ops.push(Json::obj().set("op", "stream").set("bytes", s));
    p.label = "clean " + lab;
    if (r.chance(0.25)) { int nf = (int)r.range(1, 2); for (int q = 0; q < nf; q++) { Fault f; f.actor = "qmail-clean"; f.call = C_UNLINK; f.nth = (int)r.range(1, 6); f.kind = "error"; f.err = r.pick(std::vector<int>{EIO, EROFS, EACCES, EBUSY, EISDIR}); p.faults.push_back(f); } }   /* a removal that fails for real: one status byte, and the second file stays */
    return true;
  }
  if (m <= 5) {   // (b) spawners
    bool l = m != 5 && r.chance(0.6);
    p.world = "H"; p.knobs.set("mode", l ? "lspawn" : "rspawn").set("split_p", r.pick(std::vector<double>{0.0, 0.5, 0.9})).set("stick", r.pick(std::vector<double>{0.3, 0.9})).set("pipe_cap", r.pick(std::vector<int>{512, 4096, 65536})).set("pipe_buf", 512);
    std::string s; int n = (int)r.range(1, 5);
    for (int q = 0; q < n; q++) {
      int dn = (int)r.pick(std::vector<int>{0, 1, 2, 3, 0, 1, 119, 120, 121, 200, 255});
      s.push_back((char)dn); s += rand_messid(r); s.push_back('\0');
      s += r.pick(std::vector<std::string>{"s@x.example", "", "#@[]", std::string(300, 's') + "@x"}); s.push_back('\0');
      s += r.pick(std::vector<std::string>{"user1@l.example", "user1-ext@l.example", "nobody@l.example", "noat", "@l.example", "root@l.example", "user1@", std::string(500, 'u') + "@l.example"}); s.push_back('\0');
    }
    if (r.chance(0.2)) { s.push_back((char)1); s += "1/1"; }   // truncated command
    p.ops.push(Json::obj().set("op", "stream").set("bytes", s));
    Json ag = Json::arr(); int na = (int)r.range(1, 4);
    for (int q = 0; q < na; q++) {
      Json a = Json::obj(); int kind = (int)r.below(8);
      std::string o;
      if (kind == 0) o = ""; else if (kind == 1) o = std::string(1, '\0'); else if (kind == 2) o = std::string((size_t)r.range(2000, 100000), 'y'); else if (kind == 3) o = std::string("K ok") + std::string(1, '\0') + "rest" + std::string(1, '\0');
      else if (kind == 4) o = std::string("rmx") + std::string(1, '\0') + "Kaccepted" + std::string(1, '\0'); else if (kind == 5) o = std::string("hfail") + std::string(1, '\0') + "Dno" + std::string(1, '\0'); else o = rand_text(r, 200);
      a.set("out", o).set("code", (long long)r.pick(std::vector<int>{0, 0, 100, 111, 99, 1, 255, 71})).set("lat", (long long)r.below(3));
      if (r.chance(0.1)) a.set("crash", true);
      if (r.chance(0.25)) a.set("linger", (long long)r.range(1, 5));
      ag.push(a);
    }
    p.knobs.set("agents", ag);
    p.label = std::string(l ? "lspawn" : "rspawn") + " commands=" + std::to_string(n);
    // the spawner itself runs out of processes or descriptors, or cannot examine the message file, for one delivery: that delivery is
    // reported as a temporary failure and the others go on (one report per command, whatever happens)
    if (r.chance(0.2)) { Fault f; f.actor = std::string(l ? "qmail-lspawn#" : "qmail-rspawn#"); f.call = r.pick(std::vector<CallId>{C_FSTAT, C_PIPE, C_FORK, C_FORK}); f.nth = (int)r.range(1, 4); f.kind = "error"; f.err = r.pick(std::vector<int>{EAGAIN, ENOMEM, EMFILE, ENFILE, EIO}); p.faults.push_back(f); p.label += " +spawner fault"; }
    return true;
  }
  // (c) qmail-send under hostile report streams (world Q, C03 safety oracle keeps judging)
  p.world = "Q"; base_knobs(r, p, false);
  p.knobs.set("oracles", oracle_list({"c03"}));
  int bound = (int)r.range(14, 20);
  Json conf = Json::obj(); conf.set("queuelifetime", 100000).set("concurrencylocal", bound).set("concurrencyremote", bound); p.knobs.set("conf", conf);
  p.ops.push(Json::obj().set("op", "boot"));
  int nmsg = (int)r.range(1, 3), rid = 0;
  for (int q = 0; q < nmsg; q++) {
    Json inj = Json::obj(); inj.set("op", "inject").set("id", "m" + std::to_string(q + 1)).set("sender", "s@x.example").set("body_len", 30).set("body_seed", q);
    Json rc = Json::arr(); int nr = (int)r.range(1, 4);
    for (int x = 0; x < nr; x++) { std::string a = (r.chance(0.5) ? "l" : "r") + std::to_string(++rid); a += a[0] == 'l' ? "@l.example" : "@r.example"; rc.push(a);
      // answers to real commands: proper, mangled letter, empty, oversized (the delivery number is in use in everybody's view)
      Json sc = Json::obj(); sc.set("op", "script").set("rcpt", a); Json at = Json::arr(); int na = (int)r.range(1, 3);
      for (int y = 0; y < na; y++) { int kind = (int)r.below(8); Json x2 = Json::obj(); x2.set("lat", (long long)r.range(0, 40));
        if (kind == 0) x2.set("v", "X").set("text", " mangled"); else if (kind == 1) x2.set("v", "").set("text", ""); else if (kind == 2) x2.set("v", "Z").set("text", std::string((size_t)r.range(9990, 30000), 'z'));
        else if (kind == 3) x2.set("v", "D").set("text", std::string((size_t)r.range(9990, 20000), 'd')); else if (kind == 4) x2.set("v", "\xff").set("text", "\xfe"); else x2.set("v", r.pick(std::vector<std::string>{"Z", "K", "D"})).set("text", "t");
        at.push(x2); }
      at.push(Json::obj().set("v", "K").set("text", "fin").set("lat", 1)); sc.set("attempts", at); p.ops.push(sc); }
    inj.set("rcpts", rc); p.ops.push(inj);
  }
  // unsolicited records: delivery numbers out of range, or in range but provably never allocated (lowest-free allocation, <= 12 recipients)
  int nj = (int)r.range(1, 6);
  for (int q = 0; q < nj; q++) {
    std::string b; int kind = (int)r.below(6);
    // delivery numbers: out of range; in range but never allocated; or low numbers that are free now and then and in use at other
    // times (the ghost decides at the moment the daemon reads the record whether it names a delivery in flight)
    int dn = r.chance(0.4) ? (int)r.range(bound, 255) : r.chance(0.5) ? (int)r.range(bound - 2, bound - 1) : (int)r.range(0, 3);
    b.push_back((char)dn);
    if (kind == 0) b += "X mangled"; else if (kind == 1) b += std::string("Z") + std::string((size_t)r.range(9990, 30000), 'z'); else if (kind == 2) b += ""; else if (kind == 3) b += std::string("K") + "forged"; else b += r.pick(std::vector<std::string>{"Kok", "Dno", "Zlater", "k", "\xff\xfe"});
    b.push_back('\0');
    p.ops.push(Json::obj().set("op", "junk").set("chan", (int)r.below(2)).set("after", (long long)r.below(4)).set("bytes", b));
  }
  p.ops.push(Json::obj().set("op", "settle").set("max_s", 400000));
  p.knobs.set("max_sim_s", 2000000).set("expect_drain", true);   // junk must not wedge the report channel: every scripted delivery still ends
  p.label = "qmail-send junk reports=" + std::to_string(nj);
  return true;
}

static RegisterProperty reg_c18(PropertyDef{
    "C18", "H", "exploration", "deterministic simulation: each helper runs for real against a hostile scripted peer on its pipes (segmented streams), with decoy files in the simulated queue; reference validators for request, command and report grammars", gen_c18,
    "plan i = f(VERIF_SEED, i): (a) 3/8 qmail-clean: 1-6 requests over {digits,/,.,letters,high bytes}: valid, digit-junk-digit, near-valid prefixes, 90-110 byte numbers, 20+ digit numbers, leading zeros, other queue paths, unterminated tail; (b) 3/8 real qmail-lspawn (with the real qmail-getpw) or qmail-rspawn: 1-5 commands with delivery numbers 0..255 and message ids valid/path-like/empty/oversized/directory/FIFO/foreign-owned, stub agents printing NULs, 100 kB or nothing and exiting with assorted codes or crashing; "
    "(c) 2/8 real qmail-send+qmail-clean with 1-6 record-aligned junk reports (out-of-range, unused, mangled, oversized, forged K) while deliveries are in flight, judged by the C03 per-recipient safety ghost. distinct = distinct (choice stream, trace) hashes of non-trivial runs",
    {"qmail-clean", "qmail-lspawn", "qmail-rspawn", "qmail-getpw", "qmail-send", "qmail-queue"}, {"hostile peer (pre-filled pipe)", "stub qmail-local/qmail-remote agents recording identity, argv and descriptor 0", "junk-emitting spawner stubs for (c)"}, q_assume(), "hash of the helper's complete output", 2400, 80000});

}  // namespace sim

// c11_props.cc - plan generator for C11 (local deliveries run as the right user)
#include "../world.h"
#include "gen_util.h"
#include <errno.h>

namespace sim {

static std::string mixc(Rng &r, std::string s) { for (auto &c : s) if (r.chance(0.25)) c = (char)toupper((unsigned char)c); return s; }

// replacing the table: qmail-newu writes users/cdb.tmp and renames it; whatever stops it, users/cdb stays a complete table
static bool gen_c11_newu(Rng &r, Plan &p) {
  p.knobs.set("mode", "newu").set("oracles", oracle_list({"c11"})).set("split_p", r.pick(std::vector<double>{0.0, 0.5})).set("stick", 1.0);
  auto table = [&](int n) { std::string a; for (int q = 0; q < n; q++) a += (r.chance(0.5) ? "=" : "+") + std::string("u") + std::to_string(r.below(50)) + ":joe:" + std::to_string(500 + r.below(20)) + ":100:/home/joe:" + (r.chance(0.5) ? "-" : "") + ":" + (r.chance(0.5) ? "ext" : "") + ":\n"; if (r.chance(0.3)) a += "+:alias:7790:2108:/var/qmail/alias:-::\n"; a += ".\n"; return a; };
  p.knobs.set("assign_old", r.chance(0.1) ? std::string("=broken\n") : table((int)r.range(0, 6))).set("assign", r.chance(0.05) ? std::string("=a:b\n.\n") : table((int)r.pick(std::vector<int>{0, 1, 3, 10, 200, 2000})));
  Fault f; f.actor = "qmail-newu#3"; int k = (int)r.below(6);
  // (a run over a small table makes about a dozen calls; the exit itself is the last fault site: stopped after the rename, before anybody knows)
  if (k == 0) { f.call = C_ANY; f.nth = (int)r.range(1, 16); f.kind = "kill"; }
  else if (k == 1 || k == 2) { f.call = C_ANY; f.nth = r.chance(0.8) ? (int)r.range(1, 16) : (int)r.range(1, 60); f.kind = "crash"; f.image = k == 1 ? "worst" : "random"; }
  else if (k == 3) { f.call = r.pick(std::vector<CallId>{C_WRITE, C_FSYNC, C_RENAME, C_OPEN, C_READ, C_CLOSE}); f.nth = (int)r.range(1, 4); f.kind = "error"; f.err = r.pick(std::vector<int>{EIO, ENOSPC, EDQUOT}); }
  else if (k == 4) { f.call = C_MALLOC; f.nth = (int)r.range(1, 30); f.kind = "null"; }
  else { f.call = C_WRITE; f.nth = (int)r.range(1, 5); f.kind = "short"; f.arg = (int64_t)r.range(1, 100); }
  p.faults.push_back(f);
  p.label = "qmail-newu replaces the table, disturbed by " + f.kind;
  return true;
}

// the passwd leg: qmail-pw2u builds the assignment table from a passwd file "by the same rules as qmail-getpw"
static bool gen_c11_pw2u(Rng &r, Plan &p) {
  p.knobs.set("mode", "pw2u").set("oracles", oracle_list({"c11"})).set("split_p", r.pick(std::vector<double>{0.0, 0.5})).set("stick", 1.0);
  struct U { const char *n; const char *uid; const char *home; int home_uid; bool exists; };
  static const U us[] = {{"root", "0", "/root", 0, true}, {"joe", "507", "/home/joe", 507, true}, {"bill", "508", "/home/bill", 508, true}, {"ann", "509", "/home/ann", 0, true} /* home owned by root */,
                         {"ghost", "510", "/home/ghost", 510, false} /* no home */, {"toor", "00", "/root2", 0, true}, {"Mixed", "512", "/home/mixed", 512, true}, {"eve", "513", "/home/eve", 513, true},
                         {"carl", "514", "/home/carl", 515, true} /* somebody else's home */, {"big", "4294967296", "/home/big", 0, true} /* zero as a 32-bit uid */, {"dan", "516x", "/home/dan", 516, true}};
  Json pw = Json::arr(); std::string text; std::vector<std::string> present;
  pw.push(Json::obj().set("name", "alias").set("uid", 7790).set("gid", 2108).set("home", "/var/qmail/alias").set("home_uid", 7790).set("home_exists", true));
  bool alias_line = !r.chance(0.05);
  for (auto &u : us) if (r.chance(0.7)) { pw.push(Json::obj().set("name", u.n).set("uid", (long long)strtoul(u.uid, 0, 10)).set("gid", 100).set("home", u.home).set("home_uid", u.home_uid).set("home_exists", u.exists)); text += std::string(u.n) + ":x:" + u.uid + ":100:" + (r.chance(0.5) ? "Some Name" : "") + ":" + u.home + ":/bin/sh\n"; present.push_back(u.n); if (alias_line && r.chance(0.3)) { text += "alias:*:7790:2108::/var/qmail/alias:/bin/true\n"; alias_line = false; } }
  if (alias_line) text += "alias:*:7790:2108::/var/qmail/alias:/bin/true\n";
  if (r.chance(0.2)) text += r.pick(std::vector<std::string>{"short:x:600\n", "\n", "nocolonatall\n", "six:x:601:100::/home/six\n", std::string("nul\0l:x:602:100::/home/joe:/bin/sh\n", 34)});
  if (r.chance(0.15) && !text.empty()) text.pop_back();   // last line without its newline
  p.knobs.set("passwd", pw);
  Json pj = Json::obj(); pj.set("passwd_text", text);
  Json args = Json::arr(); if (r.chance(0.5)) { int na = (int)r.range(1, 2); for (int q = 0; q < na; q++) args.push(r.pick(std::vector<std::string>{"-o", "-h", "-H", "-u", "-U", "-C", "-c+", "-c.", "-/"})); } pj.set("args", args);
  auto some = [&](double pr) { std::string l; for (auto &n : present) if (r.chance(pr)) l += n + "\n"; if (r.chance(0.3)) l += "alias\n"; if (r.chance(0.2)) l += "nobody\n"; return l; };
  if (r.chance(0.25)) pj.set("include", some(0.7) + "alias\n");
  if (r.chance(0.3)) pj.set("exclude", some(0.3));
  if (r.chance(0.3) && !present.empty()) { std::string m; int n = (int)r.range(1, 2); for (int q = 0; q < n; q++) { std::string u = r.pick(present); m += u + ":" + r.pick(std::vector<std::string>{u + ":" + u + ".alt", "first.last", "x::y", ""}) + "\n"; } pj.set("mailnames", m); }
  // subusers may name any account of the file, also those the rules skip: then there is no such user as far as the table goes
  if (r.chance(0.45) && !present.empty()) { std::string su; int n = (int)r.range(1, 3); for (int q = 0; q < n; q++) su += r.pick(std::vector<std::string>{"sub", "list", "adm", "helpdesk"}) + std::to_string(q) + ":" + (r.chance(0.85) ? r.pick(present) : std::string("nosuch")) + ":" + r.pick(std::vector<std::string>{"pre", "", "a-b"}) + ":\n"; if (r.chance(0.1)) su += "malformed:line\n"; pj.set("subusers", su); }
  if (r.chance(0.2)) pj.set("append", "+extra-:joe:507:100:/home/joe:-:x:\n=root:alias:7790:2108:/var/qmail/alias:-:root:\n");
  p.knobs.set("pw2u", pj);
  if (r.chance(0.1)) { Fault f; f.actor = "qmail-pw2u"; f.call = r.pick(std::vector<CallId>{C_STAT, C_READ, C_OPEN, C_MALLOC, C_WRITE}); f.nth = (int)r.range(1, 6); f.kind = f.call == C_MALLOC ? "null" : "error"; f.err = r.pick(std::vector<int>{EIO, ENOMEM, EACCES}); p.faults.push_back(f); }
  p.label = "qmail-pw2u over " + std::to_string(present.size()) + " accounts" + (pj.has("subusers") ? " +subusers" : "") + (pj.has("include") ? " +include" : "") + (pj.has("exclude") ? " +exclude" : "") + (pj.has("mailnames") ? " +mailnames" : "");
  return true;
}

static bool gen_c11(uint64_t seed, const std::string &tier, uint64_t i, Plan &p) {
  (void)tier;
  p = Plan(); p.property = "C11"; p.world = "H"; p.seed = mix64(mix64(seed, 0xC11), i);
  Rng r(p.seed);
  if (i % 8 == 2) return gen_c11_pw2u(r, p);
  if (i % 16 == 3) return gen_c11_newu(r, p);
  p.knobs.set("mode", "lspawn").set("oracles", oracle_list({"c11"})).set("split_p", r.pick(std::vector<double>{0.0, 0.5})).set("stick", r.pick(std::vector<double>{0.5, 1.0})).set("pipe_buf", 512);
  // passwd
  Json pw = Json::arr();
  struct U { const char *n; int uid; const char *home; int home_uid; bool exists; };
  static const U us[] = {{"joe", 507, "/home/joe", 507, true}, {"bill", 508, "/home/bill", 508, true}, {"ann", 509, "/home/ann", 0, true}, {"ghost", 510, "/home/ghost", 510, false}, {"toor", 0, "/root2", 0, true},
                         {"joe-x", 511, "/home/joex", 511, true}, {"Mixed", 512, "/home/mixed", 512, true}, {"averyveryveryveryverylongaccountname", 513, "/home/long", 513, true}, {"a", 514, "/home/a", 514, true}};
  for (auto &u : us) if (r.chance(0.75)) pw.push(Json::obj().set("name", u.n).set("uid", u.uid).set("gid", 100 + u.uid % 7).set("home", u.home).set("home_uid", u.home_uid).set("home_exists", u.exists));
  p.knobs.set("passwd", pw);
  static const std::vector<std::string> locs = {"joe", "joe-", "joe-list", "bill", "sales", "sales.", "x", "a", "", "j", "jo", "ROOT", "postmaster", "joe.shmoe", "Joe-Dev", "zaz-09", "ZAZ-09-ext", "liz", "jos\xc3\xa9", "jos\xc3\xa9-list", "m\xfcller", "\xff", "\x80-x"};   // (bytes >= 0x80: hashing and comparison must treat them as unsigned)
  int tab = (int)r.below(10);
  std::vector<std::string> wild_locs, simple_locs;
  if (tab < 7) {   // users/assign present
    std::string a; int n = (int)r.range(0, 6); std::set<std::string> seen;
    for (int q = 0; q < n; q++) {
      bool wild = r.chance(0.5); std::string loc = r.pick(locs); if (!wild && loc.empty()) loc = "x";
      bool dup = !seen.insert((wild ? "+" : "=") + loc).second; (void)dup;
      std::string uid = r.chance(0.1) ? "0" : r.chance(0.06) ? r.pick(std::vector<std::string>{"4294967296", "8589934592", "12884901888", "00"}) /* zero as a 32-bit uid */ : std::to_string(500 + r.below(20)); std::string user = r.pick(std::vector<std::string>{"joe", "bill", "virt", "alias"});
      a += (wild ? "+" : "=") + mixc(r, loc) + ":" + user + ":" + uid + ":" + std::to_string(100 + r.below(5)) + ":/home/" + user + ":" + (r.chance(0.5) ? "-" : "") + ":" + (wild ? r.pick(std::vector<std::string>{"", "pre-", "x"}) : r.pick(std::vector<std::string>{"", "ext"})) + ":\n";
      (wild ? wild_locs : simple_locs).push_back(loc);
    }
    // two simple entries whose database keys ("!name" + NUL) have the same length and the same 32-bit cdb hash: both must be found
    if (r.chance(0.2)) { static const std::vector<std::pair<std::string, std::string>> coll = {{"inhzhjwy", "bpulfcqf"}, {"atdmnzi", "mmymyam"}, {"ilarhwk", "rvhjbec"}, {"qymymfx", "odfdkdi"}, {"bhaondj", "zpvmbxo"}};
      auto pr = r.pick(coll); int u0 = 520 + (int)r.below(10);
      for (auto *nm : {&pr.first, &pr.second}) if (seen.insert("=" + *nm).second) { a += "=" + *nm + ":" + (nm == &pr.first ? "joe" : "bill") + ":" + std::to_string(u0++) + ":100:/home/" + (nm == &pr.first ? "joe" : "bill") + ":::\n"; simple_locs.push_back(*nm); } }
    // two simple entries in the same hash table of the database, both with their home slot at its end: one is stored wrapped round to slot 0
    if (r.chance(0.2)) { static const std::vector<std::pair<std::string, std::string>> wrap = {{"v131", "v210"}, {"v133", "v212"}, {"v132", "v213"}, {"v135", "v214"}, {"v134", "v215"}, {"v137", "v216"}};
      auto pr = r.pick(wrap); int u0 = 540 + (int)r.below(10);
      for (auto *nm : {&pr.first, &pr.second}) if (seen.insert("=" + *nm).second) { a += "=" + *nm + ":" + (nm == &pr.first ? "joe" : "bill") + ":" + std::to_string(u0++) + ":100:/home/" + (nm == &pr.first ? "joe" : "bill") + ":::\n"; simple_locs.push_back(*nm); simple_locs.push_back(*nm); } }
    if (r.chance(0.3)) a += "+:alias:7790:2108:/var/qmail/alias:-::\n";
    int bad = (int)r.below(14);
    if (bad == 0) a += "=broken\n"; else if (bad == 1) a += "=a:b:c\n"; else if (bad == 2) a += ":x:1:1:/:::\n";
    if (bad != 3) a += ".\n";
    p.knobs.set("assign", a);
  }
  // commands: addresses from the tables plus near-misses
  std::string s; int n = (int)r.range(1, 4); std::string lab; std::set<std::string> used_locals;
  for (int q = 0; q < n; q++) {
    std::string base = r.chance(0.5) ? r.pick(locs) : std::string(us[r.below(9)].n);
    if (!simple_locs.empty() && r.chance(0.4)) base = simple_locs[r.below(simple_locs.size())];   // names the table really has (among them the colliding pairs)
    int nm = (int)r.below(8);
    std::string local = nm == 0 ? base : nm == 1 ? base + "-ext" : nm == 2 ? base + "x" : nm == 3 ? mixc(r, base) + "-Ext-More" : nm == 4 ? base.substr(0, base.size() / 2) : nm == 5 ? base + "-" : nm == 6 ? "-" + base : base;
    if (local.empty()) local = "e";
    if (!used_locals.insert(local).second) continue;   // one command per address: an agent cannot tell which command started it
    s.push_back((char)q); s += r.pick(std::vector<std::string>{"1/1", "2/2", "12/12"}); s.push_back('\0'); s += "s@x.example"; s.push_back('\0'); s += local + "@l.example"; s.push_back('\0');
    if (q < 3) lab += "[" + printable(local, 20) + "]";
  }
  p.ops.push(Json::obj().set("op", "stream").set("bytes", s));
  Json ag = Json::arr(); ag.push(Json::obj().set("out", "ok\n").set("code", 0)); p.knobs.set("agents", ag);
  // lookup faults
  int fk = (int)(i % 8);
  if (fk == 5 && tab < 7) p.knobs.set("cdb_truncate", (long long)(8 * r.below(300)));
  else if (fk == 6) { Fault f; f.actor = "qmail-lspawn/child"; f.call = r.pick(std::vector<CallId>{C_READ, C_OPEN, C_FORK, C_PIPE, C_MALLOC, C_MALLOC, C_MALLOC, C_SETUID, C_SETGID, C_SETGROUPS}); f.nth = (int)r.range(1, 4); if (f.call == C_MALLOC) f.nth = (int)r.range(1, 14);   /* every allocation of the lookup, one at a time (the next one succeeds) */ f.kind = f.call == C_MALLOC ? "null" : "error"; f.err = r.pick(std::vector<int>{EIO, ENOMEM, EAGAIN}); if (f.call == C_SETUID || f.call == C_SETGID || f.call == C_SETGROUPS) f.err = r.pick(std::vector<int>{EPERM, EPERM, EINVAL, ENOMEM, EAGAIN}); if (f.call == C_READ || f.call == C_OPEN) f.path = "users/cdb"; p.faults.push_back(f); }
  else if (fk == 4 && tab >= 5) { Fault f; f.actor = "qmail-getpw"; f.call = r.pick(std::vector<CallId>{C_STAT, C_STAT, C_MALLOC}); f.nth = (int)r.range(1, 2); f.kind = f.call == C_MALLOC ? "null" : "error"; f.err = r.pick(std::vector<int>{EIO, ENOMEM, ENFILE, ETIMEDOUT, EAGAIN}); p.faults.push_back(f); }   // a home directory that cannot be examined right now (NFS server down): defer, never fall back to alias
  else if (fk == 7) { Json g = Json::obj(); int gk = (int)r.below(4); if (gk == 0) g.set("out", "").set("code", 111); else if (gk == 1) g.set("out", std::string("joe\0" "507\0", 8)).set("code", 0); else if (gk == 2) g.set("out", "").set("crash", true); else g.set("out", "").set("code", 0); p.knobs.set("getpw_stub", g); }
  p.label = std::string(tab < 7 ? "assign" : "passwd-only") + " " + lab + (fk == 5 ? " cdb-truncated" : fk == 6 ? " lookup-fault" : fk == 4 && tab >= 5 ? " getpw-fault" : fk == 7 ? " getpw-stub" : "");
  return true;
}

static RegisterProperty reg_c11(PropertyDef{
    "C11", "H", "exploration", "deterministic simulation: users/assign tables compiled by the real qmail-newu, passwd tables and home ownership in the simulated kernel, real qmail-lspawn + qmail-getpw; identity, argv, group list and the order of setgroups/setgid/setuid observed at the exec of qmail-local and compared with a reference of qmail-users(5)/qmail-getpw(8) over the source table; lookup faults injected", gen_c11,
    "plan i = f(VERIF_SEED, i): passwd subsets (owner/non-owner/missing homes, uid 0, mixed-case and >32-byte names, names containing the break character), 70% with a users/assign of 0-6 simple/wildcard entries (duplicates, overlapping prefixes, mixed case, uid 0, empty wildcard, optional catch-all, malformed or unterminated tables); 1-4 commands for table names and near-misses (extensions, case changes, prefixes, leading/trailing break); "
    "one in eight plans truncates users/cdb at an 8-byte boundary, one injects a failing read/open/fork/pipe/malloc/setuid/setgid/setgroups into the lookup child, one replaces qmail-getpw by a failing stub, and one runs the real qmail-pw2u instead: a passwd file with root, zero-as-32-bit, foreign-home, homeless, upper-case and malformed accounts, options -o/-h/-H/-u/-U/-C/-cX/-/, users/include, exclude, mailnames, subusers (also of skipped accounts) and append; its table is compared line by line with a reference of qmail-pw2u(8) and no line may name an account the rules skip. non-trivial = at least one address looked up and judged, or one table judged",
    {"qmail-lspawn", "qmail-getpw", "qmail-newu", "qmail-pw2u"}, {"qmail-local replaced by a recording stub", "hostile-free command feeder"}, q_assume(), "hash of the spawner's output", 2400, 80000});

}  // namespace sim

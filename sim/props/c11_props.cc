// c11_props.cc - plan generator for C11 (local deliveries run as the right user)
#include "../world.h"
#include "gen_util.h"
#include <errno.h>

namespace sim {

static std::string mixc(Rng &r, std::string s) { for (auto &c : s) if (r.chance(0.25)) c = (char)toupper((unsigned char)c); return s; }

static bool gen_c11(uint64_t seed, const std::string &tier, uint64_t i, Plan &p) {
  (void)tier;
  p = Plan(); p.property = "C11"; p.world = "H"; p.seed = mix64(mix64(seed, 0xC11), i);
  Rng r(p.seed);
  p.knobs.set("mode", "lspawn").set("oracles", oracle_list({"c11"})).set("split_p", r.pick(std::vector<double>{0.0, 0.5})).set("stick", r.pick(std::vector<double>{0.5, 1.0})).set("pipe_buf", 512);
  // passwd
  Json pw = Json::arr();
  struct U { const char *n; int uid; const char *home; int home_uid; bool exists; };
  static const U us[] = {{"joe", 507, "/home/joe", 507, true}, {"bill", 508, "/home/bill", 508, true}, {"ann", 509, "/home/ann", 0, true}, {"ghost", 510, "/home/ghost", 510, false}, {"toor", 0, "/root2", 0, true},
                         {"joe-x", 511, "/home/joex", 511, true}, {"Mixed", 512, "/home/mixed", 512, true}, {"averyveryveryveryverylongaccountname", 513, "/home/long", 513, true}, {"a", 514, "/home/a", 514, true}};
  for (auto &u : us) if (r.chance(0.75)) pw.push(Json::obj().set("name", u.n).set("uid", u.uid).set("gid", 100 + u.uid % 7).set("home", u.home).set("home_uid", u.home_uid).set("home_exists", u.exists));
  p.knobs.set("passwd", pw);
  static const std::vector<std::string> locs = {"joe", "joe-", "joe-list", "bill", "sales", "sales.", "x", "a", "", "j", "jo", "ROOT", "postmaster", "joe.shmoe", "Joe-Dev", "zaz-09", "ZAZ-09-ext", "liz", "jos\xc3\xa9", "jos\xc3\xa9-list", "m\xfcller", "\xff", "\x80-x"};   // (bytes >= 0x80: hashing and comparison must treat them as unsigned)
  int tab = (int)r.below(10);
  std::vector<std::string> wild_locs, simple_locs;
  if (tab < 7) {   // users/assign present
    std::string a; int n = (int)r.range(0, 6); std::set<std::string> seen;
    for (int q = 0; q < n; q++) {
      bool wild = r.chance(0.5); std::string loc = r.pick(locs); if (!wild && loc.empty()) loc = "x";
      bool dup = !seen.insert((wild ? "+" : "=") + loc).second; (void)dup;
      std::string uid = r.chance(0.1) ? "0" : r.chance(0.06) ? r.pick(std::vector<std::string>{"4294967296", "8589934592", "12884901888", "00"}) /* zero as a 32-bit uid */ : std::to_string(500 + r.below(20)); std::string user = r.pick(std::vector<std::string>{"joe", "bill", "virt", "alias"});
      a += (wild ? "+" : "=") + mixc(r, loc) + ":" + user + ":" + uid + ":" + std::to_string(100 + r.below(5)) + ":/home/" + user + ":" + (r.chance(0.5) ? "-" : "") + ":" + (wild ? r.pick(std::vector<std::string>{"", "pre-", "x"}) : r.pick(std::vector<std::string>{"", "ext"})) + ":\n";
      (wild ? wild_locs : simple_locs).push_back(loc);
    }
    // two simple entries whose database keys ("!name" + NUL) have the same length and the same 32-bit cdb hash: both must be found
    if (r.chance(0.2)) { static const std::vector<std::pair<std::string, std::string>> coll = {{"inhzhjwy", "bpulfcqf"}, {"atdmnzi", "mmymyam"}, {"ilarhwk", "rvhjbec"}, {"qymymfx", "odfdkdi"}, {"bhaondj", "zpvmbxo"}};
      auto pr = r.pick(coll); int u0 = 520 + (int)r.below(10);
      for (auto *nm : {&pr.first, &pr.second}) if (seen.insert("=" + *nm).second) { a += "=" + *nm + ":" + (nm == &pr.first ? "joe" : "bill") + ":" + std::to_string(u0++) + ":100:/home/" + (nm == &pr.first ? "joe" : "bill") + ":::\n"; simple_locs.push_back(*nm); } }
    // two simple entries in the same hash table of the database, both with their home slot at its end: one is stored wrapped round to slot 0
    if (r.chance(0.2)) { static const std::vector<std::pair<std::string, std::string>> wrap = {{"v131", "v210"}, {"v133", "v212"}, {"v132", "v213"}, {"v135", "v214"}, {"v134", "v215"}, {"v137", "v216"}};
      auto pr = r.pick(wrap); int u0 = 540 + (int)r.below(10);
      for (auto *nm : {&pr.first, &pr.second}) if (seen.insert("=" + *nm).second) { a += "=" + *nm + ":" + (nm == &pr.first ? "joe" : "bill") + ":" + std::to_string(u0++) + ":100:/home/" + (nm == &pr.first ? "joe" : "bill") + ":::\n"; simple_locs.push_back(*nm); simple_locs.push_back(*nm); } }
    if (r.chance(0.3)) a += "+:alias:7790:2108:/var/qmail/alias:-::\n";
    int bad = (int)r.below(14);
    if (bad == 0) a += "=broken\n"; else if (bad == 1) a += "=a:b:c\n"; else if (bad == 2) a += ":x:1:1:/:::\n";
    if (bad != 3) a += ".\n";
    p.knobs.set("assign", a);
  }
  // commands: addresses from the tables plus near-misses
  std::string s; int n = (int)r.range(1, 4); std::string lab; std::set<std::string> used_locals;
  for (int q = 0; q < n; q++) {
    std::string base = r.chance(0.5) ? r.pick(locs) : std::string(us[r.below(9)].n);
    if (!simple_locs.empty() && r.chance(0.4)) base = simple_locs[r.below(simple_locs.size())];   // names the table really has (among them the colliding pairs)
    int nm = (int)r.below(8);
    std::string local = nm == 0 ? base : nm == 1 ? base + "-ext" : nm == 2 ? base + "x" : nm == 3 ? mixc(r, base) + "-Ext-More" : nm == 4 ? base.substr(0, base.size() / 2) : nm == 5 ? base + "-" : nm == 6 ? "-" + base : base;
    if (local.empty()) local = "e";
    if (!used_locals.insert(local).second) continue;   // one command per address: an agent cannot tell which command started it
    s.push_back((char)q); s += r.pick(std::vector<std::string>{"1/1", "2/2", "12/12"}); s.push_back('\0'); s += "s@x.example"; s.push_back('\0'); s += local + "@l.example"; s.push_back('\0');
    if (q < 3) lab += "[" + printable(local, 20) + "]";
  }
  p.ops.push(Json::obj().set("op", "stream").set("bytes", s));
  Json ag = Json::arr(); ag.push(Json::obj().set("out", "ok\n").set("code", 0)); p.knobs.set("agents", ag);
  // lookup faults
  int fk = (int)(i % 8);
  if (fk == 5 && tab < 7) p.knobs.set("cdb_truncate", (long long)(8 * r.below(300)));
  else if (fk == 6) { Fault f; f.actor = "qmail-lspawn/child"; f.call = r.pick(std::vector<CallId>{C_READ, C_OPEN, C_FORK, C_PIPE, C_MALLOC, C_SETUID, C_SETGID, C_SETGROUPS}); f.nth = (int)r.range(1, 4); f.kind = f.call == C_MALLOC ? "null" : "error"; f.err = r.pick(std::vector<int>{EIO, ENOMEM, EAGAIN}); if (f.call == C_SETUID || f.call == C_SETGID || f.call == C_SETGROUPS) f.err = r.pick(std::vector<int>{EPERM, EPERM, EINVAL, ENOMEM, EAGAIN}); if (f.call == C_READ || f.call == C_OPEN) f.path = "users/cdb"; p.faults.push_back(f); }
  else if (fk == 4 && tab >= 5) { Fault f; f.actor = "qmail-getpw"; f.call = r.pick(std::vector<CallId>{C_STAT, C_STAT, C_MALLOC}); f.nth = (int)r.range(1, 2); f.kind = f.call == C_MALLOC ? "null" : "error"; f.err = r.pick(std::vector<int>{EIO, ENOMEM, ENFILE, ETIMEDOUT, EAGAIN}); p.faults.push_back(f); }   // a home directory that cannot be examined right now (NFS server down): defer, never fall back to alias
  else if (fk == 7) { Json g = Json::obj(); int gk = (int)r.below(4); if (gk == 0) g.set("out", "").set("code", 111); else if (gk == 1) g.set("out", std::string("joe\0" "507\0", 8)).set("code", 0); else if (gk == 2) g.set("out", "").set("crash", true); else g.set("out", "").set("code", 0); p.knobs.set("getpw_stub", g); }
  p.label = std::string(tab < 7 ? "assign" : "passwd-only") + " " + lab + (fk == 5 ? " cdb-truncated" : fk == 6 ? " lookup-fault" : fk == 4 && tab >= 5 ? " getpw-fault" : fk == 7 ? " getpw-stub" : "");
  return true;
}

static RegisterProperty reg_c11(PropertyDef{
    "C11", "H", "exploration", "deterministic simulation: users/assign tables compiled by the real qmail-newu, passwd tables and home ownership in the simulated kernel, real qmail-lspawn + qmail-getpw; identity, argv, group list and the order of setgroups/setgid/setuid observed at the exec of qmail-local and compared with a reference of qmail-users(5)/qmail-getpw(8) over the source table; lookup faults injected", gen_c11,
    "plan i = f(VERIF_SEED, i): passwd subsets (owner/non-owner/missing homes, uid 0, mixed-case and >32-byte names, names containing the break character), 70% with a users/assign of 0-6 simple/wildcard entries (duplicates, overlapping prefixes, mixed case, uid 0, empty wildcard, optional catch-all, malformed or unterminated tables); 1-4 commands for table names and near-misses (extensions, case changes, prefixes, leading/trailing break); "
    "one in eight plans truncates users/cdb at an 8-byte boundary, one injects a failing read/open/fork/pipe/malloc/setuid/setgid/setgroups into the lookup child, one replaces qmail-getpw by a failing stub. non-trivial = at least one address looked up and judged",
    {"qmail-lspawn", "qmail-getpw", "qmail-newu"}, {"qmail-local replaced by a recording stub", "hostile-free command feeder"}, q_assume(), "hash of the spawner's output", 2400, 80000});

}  // namespace sim

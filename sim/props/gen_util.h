#pragma once
#include "../world.h"
namespace sim {
void base_knobs(Rng &r, Plan &p, bool timing_sensitive);
std::string rand_text(Rng &r, size_t maxlen);
std::string long_text(Rng &r);
Json oracle_list(std::initializer_list<const char *> l);
// legal short transfers: write() (or read()) of the named program accepts only a few of the bytes offered, a few times per run
inline void add_short_io(Rng &r, Plan &p, const std::string &actor, double prob, bool reads = false) {
  if (!r.chance(prob)) return; int nf = (int)r.range(1, 3);
  for (int q = 0; q < nf; q++) { Fault f; f.actor = actor; f.call = reads && r.chance(0.5) ? C_READ : C_WRITE; f.nth = (int)r.range(1, 15); f.kind = "short"; f.arg = r.pick(std::vector<int64_t>{1, 2, 10, 100, 300, 500, 511, 513}); p.faults.push_back(f); }
}
std::vector<std::string> q_real(); std::vector<std::string> q_stubs(); std::vector<std::string> q_assume();
}

#pragma once
#include "../world.h"
namespace sim {
void base_knobs(Rng &r, Plan &p, bool timing_sensitive);
std::string rand_text(Rng &r, size_t maxlen);
Json oracle_list(std::initializer_list<const char *> l);
std::vector<std::string> q_real(); std::vector<std::string> q_stubs(); std::vector<std::string> q_assume();
}

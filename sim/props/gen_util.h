#pragma once
#include "../world.h"
namespace sim {
void base_knobs(Rng &r, Plan &p, bool timing_sensitive);
std::string rand_text(Rng &r, size_t maxlen);
}

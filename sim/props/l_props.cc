// l_props.cc - plan generators for C12 (mailbox deliveries) and C13 (.qmail interpretation)
#include "../world.h"
#include "gen_util.h"
#include <errno.h>

namespace sim {

static std::string c12_message(Rng &r) {
  static const std::vector<std::string> frag = {"From a b\n", ">From x\n", ">>From y\n", "From \n", "from lower\n", " From sp\n", "\n", "Subject: t\n", "line\n", "x", ".\n", "\0bin\n", "\xff\xfe\n", ">\n", ">>>>From deep\n", "Return-Path: <forged>\n"};
  int kind = (int)r.below(8);
  if (kind == 0) return "";
  if (kind == 1) return gen_body(r.next(), (size_t)r.pick(std::vector<int>{1023, 1024, 1025, 2047, 2048, 2049, 950, 990}));
  std::string s; int n = (int)r.range(1, 12); for (int i = 0; i < n; i++) { const std::string &f = frag[r.below(frag.size())]; if (f[0] == '\0') s += std::string("\0bin\n", 5); else s += f; }
  if (r.chance(0.3)) s += "no final newline";
  if (r.chance(0.2)) s += "From last partial";
  return s;
}
static std::string c12_sender(Rng &r) {
  return r.pick(std::vector<std::string>{"s@x.example", "", "#@[]", "a b@x.example", "tab\there@x.example", "new\nline@x.example", "q\"uote@x.example", "back\\slash@x.example", "x@y\nFrom forged@evil Thu", ".dot@x.example", "a..b@x.example", "(c)@x.example", "plain"});
}

static bool gen_c12(uint64_t seed, const std::string &tier, uint64_t i, Plan &p) {
  (void)tier;
  p = Plan(); p.property = "C12"; p.world = "L"; p.seed = mix64(mix64(seed, 0xC12), i);
  Rng r(p.seed);
  p.knobs.set("oracles", oracle_list({"c12"}));
  int64_t start = 1500000000 + (int64_t)r.below(100000000);
  // clocks from the whole range of a 32-bit time_t now and then: before 2000-03-01 (the calendar code's internal epoch), around
  // leap days and century boundaries, near 2038
  if (r.chance(0.25)) start = r.pick(std::vector<int64_t>{0, 86400 * 365, 68169600 /* 1972-02-29 */, 946684799 /* 1999-12-31 23:59:59 */, 951782400 /* 2000-02-29 */, 951868799, 951868800 /* 2000-03-01 */, 1078012800 /* 2004-02-29 */, 2147400000, (int64_t)r.below(951868800), (int64_t)r.below(2147000000)}) + (int64_t)r.below(86400);
  p.knobs.set("start_clock", (long long)start);
  Json home = Json::obj(); home.set("path", "/home/user1").set("mode", 0755);
  Json files = Json::arr();
  int mode = (int)(i % 10);
  std::string lab;
  if (mode <= 4) {   // maildir: one delivery, one fault site
    files.push(Json::obj().set("name", ".qmail").set("content", "./Maildir/\n").set("mode", 0600));
    Json md = Json::arr(); md.push("Maildir"); home.set("maildirs", md);
    p.knobs.set("stick", 1.0).set("split_p", 0.0);
    Json d = Json::obj(); d.set("op", "deliver").set("id", "d1").set("sender", c12_sender(r)).set("msg", c12_message(r)).set("local", r.pick(std::vector<std::string>{"user1", "user1-ext", "us\ner"})).set("wait", true);
    p.ops.push(d);
    int kind = (int)r.below(11); int site = (int)r.range(1, 16);
    Fault f; f.actor = r.chance(0.85) ? "qmail-local/child" : "qmail-local#"; f.call = C_ANY; f.nth = site;
    switch (kind) {
      case 0: lab = "fault-free"; break;
      case 1: f.kind = "error"; f.err = r.pick(std::vector<int>{EIO, ENOSPC, EDQUOT}); p.faults.push_back(f); lab = "error"; break;
      case 2: f.kind = "kill"; p.faults.push_back(f); lab = "kill"; break;
      case 3: f.kind = "crash"; f.image = "worst"; p.faults.push_back(f); lab = "crash/worst"; break;
      case 4: f.kind = "crash"; f.image = "random"; p.faults.push_back(f); lab = "crash/random"; break;
      case 5: f.kind = "signal"; f.arg = 14; p.faults.push_back(f); lab = "SIGALRM"; break;
      case 6: f.kind = "short"; f.arg = 1 + (int64_t)r.below(5); p.faults.push_back(f); lab = "short-io"; break;
      case 7: { Json pre = Json::arr(); pre.push("Maildir/tmp/" + std::to_string(start) + ".302.sim.example"); if (r.chance(0.5)) pre.push("Maildir/tmp/" + std::to_string(start + 2) + ".302.sim.example"); if (r.chance(0.3)) pre.push("Maildir/tmp/" + std::to_string(start + 4) + ".302.sim.example"); home.set("precreate_tmp", pre); lab = "tmp-name-collision"; break; }
      case 8: f.call = C_LINK; f.nth = 1; f.kind = "error"; f.err = r.pick(std::vector<int>{EEXIST, EEXIST, EMLINK, ENOSPC, EACCES}); p.faults.push_back(f); lab = "link-error"; break;   // EEXIST: the name in new/ is taken (pid reuse, NFS retransmission)
      case 10: f.actor = "qmail-local"; f.call = C_MALLOC; f.nth = (int)r.range(1, 40); f.kind = "null"; p.faults.push_back(f); lab = "alloc-failure"; break;   // out of memory anywhere in the delivery (parent or writer child)
      case 9: { Json pre = Json::arr(); pre.push("Maildir/new/" + std::to_string(start) + ".302.sim.example"); if (r.chance(0.5)) pre.push("Maildir/new/" + std::to_string(start + 1) + ".302.sim.example"); home.set("precreate_tmp", pre); home.set("foreign_new", pre); lab = "new-name-taken"; break; }
    }
    lab = "maildir " + lab + "@" + std::to_string(site);
  } else if (mode <= 7) {   // mbox: one delivery, failing write/fsync, or none
    files.push(Json::obj().set("name", ".qmail").set("content", "./Mailbox\n").set("mode", 0600));
    home.set("mbox", "Mailbox"); home.set("mbox_initial", r.chance(0.5) ? std::string() : std::string("From old@x Thu Jan  1 00:00:00 1970\nSubject: old\n\nold body\n\n"));
    p.knobs.set("stick", 1.0).set("split_p", 0.0);
    Json d = Json::obj(); d.set("op", "deliver").set("id", "d1").set("sender", c12_sender(r)).set("msg", c12_message(r)).set("wait", true);
    p.ops.push(d);
    int kind = (int)r.below(5);
    if (kind == 4) { Fault f; f.actor = "qmail-local"; f.call = C_MALLOC; f.nth = (int)r.range(1, 40); f.kind = "null"; p.faults.push_back(f); }
    else if (kind >= 1) { Fault f; f.actor = "qmail-local#"; f.call = kind == 1 ? C_WRITE : kind == 2 ? C_FSYNC : C_WRITE; f.path = "Mailbox"; f.nth = (int)r.range(1, 6); f.kind = "error"; f.err = r.pick(std::vector<int>{ENOSPC, EIO, EDQUOT}); if (kind == 3) f.arg = (int64_t)r.range(1, 200); p.faults.push_back(f); }
    lab = std::string("mbox ") + (kind == 0 ? "fault-free" : kind == 1 ? "write-error" : kind == 2 ? "fsync-error" : kind == 3 ? "short-write-then-error" : "alloc-failure");
  } else {   // concurrent mbox deliveries
    files.push(Json::obj().set("name", ".qmail").set("content", "./Mailbox\n").set("mode", 0600));
    home.set("mbox", "Mailbox"); home.set("mbox_initial", r.chance(0.5) ? std::string() : std::string("From old@x Thu Jan  1 00:00:00 1970\n\nold\n\n"));
    base_knobs(r, p, false); p.knobs.set("tick_p", 0.0);
    int n = (int)r.range(2, 3);
    for (int q = 0; q < n; q++) { Json d = Json::obj(); d.set("op", "deliver").set("id", "d" + std::to_string(q + 1)).set("sender", c12_sender(r)).set("msg", c12_message(r)); p.ops.push(d); if (r.chance(0.5)) p.ops.push(Json::obj().set("op", "yield").set("n", (long long)r.range(1, 30))); }
    if (r.chance(0.4)) { Fault f; f.actor = "qmail-local#" + std::to_string(r.range(1, n)); f.call = C_WRITE; f.path = "Mailbox"; f.nth = (int)r.range(1, 3); f.kind = "stall"; f.arg = r.pick(std::vector<int64_t>{1, 10, 29, 31, 40}); p.faults.push_back(f); }
    if (r.chance(0.2)) { Fault f; f.actor = "qmail-local#"; f.call = C_WRITE; f.path = "Mailbox"; f.nth = (int)r.range(1, 8); f.kind = "error"; f.err = ENOSPC; p.faults.push_back(f); }
    lab = "mbox concurrent x" + std::to_string(n);
  }
  home.set("files", files); p.knobs.set("home", home);
  p.ops.push(Json::obj().set("op", "wait_all").set("max_s", 200000));
  p.label = lab;
  return true;
}

// ---------------------------------------------------------------------------------------------- C13
static std::string c13_instr(Rng &r, bool allow_actions) {
  int k = (int)r.below(allow_actions ? 14 : 6);
  switch (k) {
    case 0: return "# comment";
    case 1: return "";
    case 2: return "&fwd" + std::to_string(r.below(5)) + "@r.example";
    case 3: return "fwd" + std::to_string(r.below(5)) + "@r.example";
    case 4: return "+list";
    case 5: return "&a@b.example  \t";
    case 6: return "./Maildir/";
    case 7: return "./Mailbox";
    case 8: return "|exit " + std::to_string(r.pick(std::vector<int>{0, 0, 0, 99, 99, 99, 100, 100, 111, 111, 64, 65, 70, 76, 77, 78, 112, 1, 2, 63, 66, 98, 101, 110, 113, 127, 255}));   // the codes with a documented meaning of their own are drawn more often
    case 9: return "|readall; exit 0";
    case 10: return "|cat>>out" + std::to_string(r.below(3)) + "; exit 0";
    case 11: return "|kill";
    case 12: return "./Nomaildir/";
    default: return "|exit " + std::to_string(r.below(256));
  }
}

static bool gen_c13(uint64_t seed, const std::string &tier, uint64_t i, Plan &p) {
  (void)tier;
  p = Plan(); p.property = "C13"; p.world = "L"; p.seed = mix64(mix64(seed, 0xC13), i);
  Rng r(p.seed);
  if (i % 25 == 7) {
    // the envelope sender of forwards (dot-qmail(5), "ERROR HANDLING"): with .qmail-ext-owner present it becomes local-owner@host, with
    // .qmail-ext-owner-default present as well it becomes the per-recipient form local-owner-@host-@[]; a null or #@[] sender is kept.
    // Both owner files and a forwarding instruction in one home (the general plans pick up to six of seventeen names at random and
    // almost never have the pair together with a matching extension; the coverage listing showed the branch had never run).
    p.knobs.set("oracles", oracle_list({"c13"})).set("stick", 1.0).set("split_p", r.chance(0.3) ? 0.5 : 0.0);
    Json home = Json::obj(); home.set("path", "/home/user1").set("mode", 0755);
    std::string ext = r.pick(std::vector<std::string>{"list", "list", "a", "a-b", "x"}); bool deflt = r.chance(0.3);   // (deflt: the instructions come from a -default file, the owner files are still looked up under the full extension)
    Json files = Json::arr();
    auto addf = [&](const std::string &nm, const std::string &body) { Json f = Json::obj(); f.set("name", nm).set("mode", 0600).set("content", body); files.push(f); };
    std::string body; int nl = (int)r.range(1, 3); for (int l = 0; l < nl; l++) body += r.pick(std::vector<std::string>{"&fwd1@r.example", "fwd2@r.example", "&fwd3@l.example", "./Mailbox", "|exit 0"}) + "\n"; body += "&last@r.example\n";
    if (deflt) { size_t dsh = ext.rfind('-'); addf(".qmail-" + (dsh == std::string::npos ? std::string("default") : ext.substr(0, dsh) + "-default"), body); } else addf(".qmail-" + ext, body);
    int own = (int)r.below(4);   // 0: no owner file, 1: -owner, 2: -owner and -owner-default, 3: only -owner-default (not enough: the sender stays)
    if (own == 1 || own == 2) addf(".qmail-" + ext + "-owner", r.chance(0.5) ? "&owner@r.example\n" : "");
    if (own == 2 || own == 3) addf(".qmail-" + ext + "-owner-default", "&owner@r.example\n");
    if (r.chance(0.3)) addf(".qmail-default", "./Mailbox\n");
    home.set("files", files); Json md = Json::arr(); md.push("Maildir"); home.set("maildirs", md); home.set("mbox", "Mailbox").set("mbox_initial", "");
    p.knobs.set("home", home);
    Json d = Json::obj(); d.set("op", "deliver").set("id", "d1").set("ext", ext).set("dash", "-").set("local", "user1-" + ext).set("host", r.pick(std::vector<std::string>{"l.example", "a.b.c.example", "host"}));
    d.set("sender", r.pick(std::vector<std::string>{"s@x.example", "s@x.example", "", "#@[]", "list-@lists.example-@[]", "a b@x.example"}));
    d.set("msg", "Subject: t\n\nbody\n").set("aliasempty", "./Mailbox").set("n", r.chance(0.1)).set("wait", true);
    p.ops.push(d);
    p.label = "owner files: ext=" + ext + " owner-mode=" + std::to_string(own) + (deflt ? " via -default" : "");
    return true;
  }
  p.knobs.set("oracles", oracle_list({"c13"})).set("stick", 1.0).set("split_p", r.chance(0.3) ? 0.5 : 0.0);
  Json home = Json::obj(); home.set("path", "/home/user1");
  int hm = (int)r.below(12);
  home.set("mode", hm == 0 ? 01755 : hm == 1 ? 0775 : hm == 2 ? 0757 : hm == 3 ? 0700 : 0755);
  static const std::vector<std::string> names = {".qmail", ".qmail-a", ".qmail-a-default", ".qmail-default", ".qmail-a-b-default", ".qmail-a-b", ".qmail-a:b", ".qmail-list", ".qmail-list-owner", ".qmail-list-owner-default", ".qmail-a-owner", ".qmail-default-owner", ".qmail-x-default", ".qmail-liz", ".qmail-liz", ".qmail-zaz-z", ".qmail-zaz-default"};
  Json files = Json::arr(); std::set<std::string> have;
  int nf = (int)r.range(0, 6);
  for (int q = 0; q < nf; q++) {
    std::string nm = r.pick(names); if (!have.insert(nm).second) continue;
    Json f = Json::obj(); f.set("name", nm);
    if (r.chance(0.07)) { f.set("dir", true); files.push(f); continue; }
    int fm = (int)r.below(12); f.set("mode", fm == 0 ? 0622 : fm == 1 ? 0700 : fm == 2 ? 0602 : fm == 3 ? 0640 : 0600);
    bool xbit = fm == 1;
    std::string body; int nl = (int)r.range(0, 5);
    if (r.chance(0.1)) body = "";
    else if (r.chance(0.15)) {   // deliveries and forwards, then a program with one of the special exit codes, then more lines: what came before must still count (99) or not (100, 111)
      int pre = (int)r.range(1, 3); for (int l = 0; l < pre; l++) body += r.pick(std::vector<std::string>{"&fwd1@r.example", "fwd2@r.example", "./Mailbox", "./Maildir/", "|cat>>out1; exit 0"}) + "\n";
      body += "|exit " + std::to_string(r.pick(std::vector<int>{99, 99, 100, 111, 0})) + "\n";
      int post = (int)r.range(0, 2); for (int l = 0; l < post; l++) body += r.pick(std::vector<std::string>{"&fwd3@r.example", "./Mailbox", "|cat>>out2; exit 0"}) + "\n"; }
    else { for (int l = 0; l < nl; l++) body += c13_instr(r, !xbit || r.chance(0.3)) + "\n"; if (r.chance(0.15) && !body.empty()) body.pop_back(); }
    f.set("content", body); files.push(f);
  }
  home.set("files", files); Json md = Json::arr(); md.push("Maildir"); home.set("maildirs", md);
  home.set("mbox", "Mailbox").set("mbox_initial", "");
  p.knobs.set("home", home);
  static const std::vector<std::string> exts = {"", "a", "a-b", "a-b-c", "A", "A-B", "a.b", "a-", "a--b", "x", "x-y", "list", "list-owner", "default", "a-default", "a/b", "../x", "a-b-", "-", "aa", "q", "a:b", "LIZ", "liz", "Zaz-Z", "zaz-z", std::string(250, 'x'), "a-" + std::string(250, 'y'), std::string(120, 'z') + "-" + std::string(130, 'w')};   // (the last three: candidate names beyond NAME_MAX, which cannot exist and must count as absent)
  int nd = (int)r.range(1, 2);
  for (int q = 0; q < nd; q++) {
    Json d = Json::obj(); d.set("op", "deliver").set("id", "d" + std::to_string(q + 1));
    std::string ext = r.pick(exts); std::string dash = ext.empty() ? (r.chance(0.9) ? "" : "-") : (r.chance(0.9) ? "-" : "");
    std::string local = "user1" + (ext.empty() ? std::string() : "-" + ext); if (r.chance(0.1)) local = "us\"er 1\n" + ext;
    d.set("ext", ext).set("dash", dash).set("local", local).set("host", r.pick(std::vector<std::string>{"l.example", "a.b.c.example", "host", "ho\nst.example"}));
    d.set("sender", r.pick(std::vector<std::string>{"s@x.example", "", "#@[]", "a b@x.example", "new\nline@x.example", "q\"uote@x.example"}));
    std::string msg = "Subject: t\n"; if (r.chance(0.25)) { std::string self = local + "@" + d.gets("host"); if (r.chance(0.8)) for (auto &c : self) if (c == '\n') c = '_';   /* the form qmail-local itself writes: newlines scrubbed */ msg += "Delivered-To: " + self + "\n"; } if (r.chance(0.1)) msg += "delivered-to: " + local + "@l.example\n"; msg += "\nbody\n"; if (r.chance(0.1)) msg += "Delivered-To: " + local + "@l.example\n";
    d.set("msg", msg).set("aliasempty", r.pick(std::vector<std::string>{"./Mailbox", "./Maildir/", "|exit 0", "&dflt@r.example"})).set("n", r.chance(0.15)).set("wait", true);
    p.ops.push(d);
  }
  p.label = "files=" + std::to_string(files.a.size()) + " deliveries=" + std::to_string(nd);
  if (r.chance(0.08)) { Fault f; f.actor = "qmail-local"; f.call = C_MALLOC; f.nth = (int)r.range(1, 60); f.kind = "null"; p.faults.push_back(f); }   // out of memory: a temporary failure, judged by C12's outcome rules only (fault_hit)
  if (p.faults.empty() && r.chance(0.08)) { Fault f; f.actor = "qmail-local"; f.call = C_READ; f.path = "/.qmail"; f.nth = (int)r.range(1, 2); f.kind = "error"; f.err = r.pick(std::vector<int>{EIO, ENOMEM, ESTALE}); p.faults.push_back(f); }   // the instruction file becomes unreadable while it is read
  if (p.faults.empty() && r.chance(0.10)) { Fault f; f.actor = "qmail-local"; f.call = C_READ; f.path = "/.qmail"; f.nth = (int)r.range(1, 2); f.kind = "short"; f.arg = r.pick(std::vector<int64_t>{1, 2, 9, 30, 100, 255}); p.faults.push_back(f); }   // a read that returns fewer bytes than asked for before the end of the file (legal: signal, network file system); nothing is excused, the whole file counts
  if (p.faults.empty() && r.chance(0.06)) { Fault f; f.actor = "qmail-local#"; f.call = r.chance(0.8) ? C_FORK : C_PIPE; f.nth = (int)r.range(1, 3); f.kind = "error"; f.err = r.pick(std::vector<int>{EAGAIN, ENOMEM, EMFILE}); p.faults.push_back(f); }   // no process or pipe for a maildir, program or forward instruction
  if (p.faults.empty() && r.chance(0.04)) { Fault f; f.actor = "qmail-local#"; f.call = C_CHDIR; f.nth = 1; f.kind = "error"; f.err = r.pick(std::vector<int>{EACCES, ESTALE, EIO, ENOENT, ETIMEDOUT}); p.faults.push_back(f); }   // the home directory cannot be entered right now
  return true;
}

static std::vector<std::string> l_assume() { auto a = q_assume(); a.push_back("file permissions are observed (modes are checked by qmail-local itself), not enforced by the simulated kernel"); return a; }

static RegisterProperty reg_c12(PropertyDef{
    "C12", "L", "fault_enumeration", "deterministic simulation with fault enumeration over the maildir writer's system calls (error, kill, machine crash with worst/random image, SIGALRM, short I/O, name collision) and the mbox writer's write/fsync; concurrent mbox deliveries under seeded/PCT schedules; crash-image oracle and mbox(5) reference reader", gen_c12,
    "plan i = f(VERIF_SEED, i): 5/10 one maildir delivery with one fault at call site 1..16 of the writer child (or parent), messages from a fragment set (From_/>From_/>>From_ lines, NUL, 8-bit, no final newline, sizes 1023-1025/2047-2049), senders with space/tab/newline/quote/backslash; 3/10 one mbox delivery with a failing or short write or fsync; 2/10 two or three concurrent mbox deliveries with random or PCT interleaving, optional 1-40 s stall under the lock and ENOSPC. "
    "distinct = distinct trace hashes",
    {"qmail-local"}, {"message file in the simulated queue", "no /bin/sh needed"}, l_assume(), "hash of delivery statuses", 2500, 100000});

static RegisterProperty reg_c13(PropertyDef{
    "C13", "L", "exploration", "sampled conformance inside the simulator: generated home directories, .qmail files, extensions, messages and envelope addresses run through the real qmail-local (+ real qmail-queue for forwards, stub /bin/sh with every exit code) and are compared with a reference interpreter of dot-qmail(5)/qmail-command(8)/qmail-local(8)", gen_c13,
    "plan i = f(VERIF_SEED, i): home mode normal/sticky/group-writable/world-writable; 0-6 of 13 .qmail file names (plain, -default chains, owner files, dots as colons, directories named like .qmail files) with modes 0600/0622/0602/0640/0700; bodies from the instruction grammar (comment, blank, forward with/without &, +list, maildir, missing maildir, mbox, programs exiting 0-255 or killed, trailing blanks, missing final newline); "
    "22 extensions incl. case, dots, slashes, trailing dashes; messages with/without matching Delivered-To (also in the body or lower case); senders/recipients with newline, quote, space; -n mode in 15%. The schedule space is degenerate (one process at a time): what simulation contributes is a hermetic home directory, process table and exit statuses. non-trivial = compared against the reference (not indeterminate)",
    {"qmail-local", "qmail-queue"}, {"/bin/sh (mini-language: exit N, sleep N, cat>>f, readall, kill)", "message file"}, l_assume(), "hash of delivery statuses", 2500, 100000});

}  // namespace sim

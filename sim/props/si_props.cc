// si_props.cc - plan generators for C05 (DATA decoding), C07 (ack iff queued), C08 (sequencing and relay gating)
#include "../world.h"
#include "gen_util.h"
#include <errno.h>

namespace sim {

static const char *kTok[] = {"\r", "\n", ".", "x", "Received:", "delivered-to:"};

static Json send_op(const std::string &b, int chunk = 0) { Json o = Json::obj(); o.set("op", "send").set("bytes", b); if (chunk) o.set("chunk", chunk); return o; }
static Json wait_op(int n) { return Json::obj().set("op", "wait").set("replies", n); }

static void si_knobs(Rng &r, Plan &p) {
  p.knobs.set("split_p", r.pick(std::vector<double>{0.0, 0.3, 0.9})).set("stick", r.pick(std::vector<double>{0.0, 0.5, 0.95})).set("pipe_cap", r.pick(std::vector<int>{512, 4096, 65536})).set("pipe_buf", 512);
}

// ---------------------------------------------------------------------------------------------- C05
static bool gen_c05(uint64_t seed, const std::string &tier, uint64_t i, Plan &p) {
  p = Plan(); p.property = "C05"; p.world = "SI"; p.seed = mix64(mix64(seed, 0xC05), i);
  Rng r(p.seed); si_knobs(r, p);
  p.knobs.set("oracles", oracle_list({"c05"}));
  // enumerated token strings first (all strings over the 6-token alphabet up to a length), then random ones
  uint64_t maxlen = tier == "quick" ? 4 : 6; uint64_t total = 0, pw = 1; std::vector<uint64_t> cum; for (uint64_t l = 0; l <= maxlen; l++) { total += pw; cum.push_back(total); pw *= 6; }
  std::string payload; std::string lab;
  if (i < total) {
    uint64_t l = 0; while (i >= cum[l]) l++; uint64_t idx = i - (l ? cum[l - 1] : 0);
    for (uint64_t q = 0; q < l; q++) { payload += kTok[idx % 6]; idx /= 6; }
    lab = "enumerated length " + std::to_string(l);
  } else {
    int kind = (int)r.below(5);
    if (kind == 4) {   // long lines around the RFC 5321 line limits and the daemon's 1024-byte input buffer, dots and CRs at the edges
      int nl = (int)r.range(1, 3);
      for (int q = 0; q < nl; q++) { size_t len = (size_t)r.pick(std::vector<int>{996, 998, 999, 1000, 1001, 1022, 1023, 1024, 1025, 2048, 5000}) + (size_t)r.below(3); std::string line; for (size_t c = 0; c < len; c++) line += r.chance(0.03) ? '.' : r.chance(0.01) ? '\r' : (char)('a' + r.below(26));
        if (r.chance(0.5)) line[0] = '.'; if (r.chance(0.5)) line[len - 1] = r.chance(0.5) ? '.' : '\r'; payload += line + "\r\n"; }
      lab = "long lines"; }
    else if (kind == 0) { size_t n = (size_t)r.range(7, 40); for (size_t q = 0; q < n; q++) payload += kTok[r.below(6)]; lab = "random tokens"; }
    else if (kind == 1) { size_t n = (size_t)r.range(100, 4096); for (size_t q = 0; q < n; q++) { int t = (int)r.below(20); payload += t < 2 ? "\r\n" : t == 2 ? "." : t == 3 ? "\r" : t == 4 ? "\r\n." : std::string(1, (char)('a' + r.below(26))); } lab = "random long"; }
    else {   // a conforming encoding of a random message (RFC 5321 sender): CRLF line ends, leading dots doubled
      std::string msg = gen_body(r.next(), (size_t)r.range(0, 3000)); std::string enc; size_t q = 0; bool bol = true;
      for (; q < msg.size(); q++) { char c = msg[q]; if (c == '\r') continue; if (bol && c == '.') enc += '.'; if (c == '\n') { enc += "\r\n"; bol = true; } else { enc += c; bol = false; } }
      if (!bol) enc += "\r\n"; payload = enc; lab = "conforming encoding";
    }
  }
  // a size limit in force in some plans (a rarely used setting): over the limit means 552 and nothing stored, never a stored prefix
  if (r.chance(0.15)) { Json ctl = Json::obj(); ctl.set("databytes", (long long)r.pick(std::vector<int64_t>{1, 5, 20, 100, 1000, 1024, 3000})); p.knobs.set("control", ctl); }
  std::string pre = "HELO c\r\nMAIL FROM:<s@x.example>\r\nRCPT TO:<u@l.example>\r\nDATA\r\n";
  std::string post = r.pick(std::vector<std::string>{"QUIT\r\n", "RSET\r\nQUIT\r\n", "NOOP\r\nMAIL FROM:<a@b>\r\nRCPT TO:<c@d>\r\nDATA\r\nsecond\r\n.\r\nQUIT\r\n", "", "\r\n.\r\nQUIT\r\n"});
  // terminate the payload properly in most plans so that following commands test the resynchronisation
  std::string term = r.chance(0.8) ? "\r\n.\r\n" : "";
  std::string all = pre + payload + term + post;
  int mode = (int)r.below(3);
  if (mode == 0) p.ops.push(send_op(all));
  else if (mode == 1) p.ops.push(send_op(all, (int)r.range(1, 7)));
  else { p.ops.push(send_op(pre)); p.ops.push(wait_op(5)); p.ops.push(send_op(payload + term, (int)r.below(50))); p.ops.push(send_op(post)); }
  p.label = lab + " payload=\"" + printable(payload, 40) + "\"";
  return true;
}

// ---------------------------------------------------------------------------------------------- C08
static std::string c08_addr(Rng &r, bool rcpt) {
  static const std::vector<std::string> doms = {"l.example", "L.Example", "sub.l.example", "deep.sub.l.example", "more.example", "x.more.example", "More.Example", "X.MORE.example", "evil.example", "lexample", "l.example.evil.example", "[127.0.0.1]", "[10.0.0.7]", "[10.0.0.8]", "[127.0.0.1", "[127.0.0.1.1]", "[1.2.3.4.5.6.7.8.9]", "[127.0.0.]", "example", "zone-9.example", "ZONE-9.Example", "azone-9.example", "x.zz.example", "X.Zz.EXAMPLE", "caf\xe9.example", "x.\xff\x80.example"};
  std::string box = r.pick(std::vector<std::string>{"u", "User.Name", "\"quoted box\"", "back\\@slash", "\"a\\\"b\"", "bad", "u%x", ""});
  int form = (int)r.below(12); std::string a;
  std::string d = r.pick(doms);
  if (form == 0) a = box; else a = box + "@" + d;
  if (!rcpt && r.chance(0.2)) a = r.pick(std::vector<std::string>{"bad@sender.example", "x@bad.example", "X@BAD.example", ""});
  if (form == 1) return ":" + a;                     // no brackets
  if (form == 2) return ": " + a + " extra";
  if (form == 3) return ":<@relay.example,@r2.example:" + a + ">";
  if (form == 4) return ":<" + a + "> SIZE=100";
  if (form == 5 && r.chance(0.5)) return ":<" + std::string((size_t)r.range(890, 905), 'a') + "@l.example>";
  // the limit applies to the address AFTER a local IP literal was replaced by localiphost: typed lengths just under the limit
  if (form == 5) return ":<" + std::string((size_t)r.range(850, 892), 'a') + "@" + r.pick(std::vector<std::string>{"[127.0.0.1]", "[10.0.0.7]", "[0.0.0.0]"}) + ">";
  if (form == 6) return " " + a;                     // no colon at all
  if (form == 7) return ":<" + a;                    // unterminated
  return ":<" + a + ">";
}

static bool gen_c08(uint64_t seed, const std::string &tier, uint64_t i, Plan &p) {
  (void)tier;
  p = Plan(); p.property = "C08"; p.world = "SI"; p.seed = mix64(mix64(seed, 0xC08), i);
  Rng r(p.seed); si_knobs(r, p);
  p.knobs.set("oracles", oracle_list({"c08"}));
  Json ctl = Json::obj();
  int rc = (int)r.below(5);
  std::vector<std::string> hot = {"MAIL FROM:<s@x.example>", "RCPT TO:<u@l.example>", "RCPT TO:<u@sub.l.example>", "RCPT TO:<u@more.example>", "RCPT TO:<u@evil.example>"};
  if (rc != 0) { Json a = Json::arr(); a.push("l.example"); if (r.chance(0.5)) a.push(".l.example"); if (r.chance(0.3)) a.push("Example"); if (r.chance(0.3)) a.push("sim.example"); if (r.chance(0.4)) a.push(r.chance(0.5) ? "zone-9.example" : "Zone-9.EXAMPLE"); if (r.chance(0.3)) a.push("caf\xe9.example"); ctl.set("rcpthosts", a); }
  if (rc >= 3) { Json a = Json::arr(); a.push("more.example"); if (r.chance(0.5)) a.push(".more.example"); if (r.chance(0.4)) a.push(r.chance(0.5) ? ".zz.example" : ".ZZ.example"); if (r.chance(0.3)) a.push(".\xff\x80.example");
    // two names that fall into the same one of the database's 256 hash tables, both with their home slot at its end, so that the writer
    // wraps one of them round to slot 0 (and no other name of this file shares the table): both must be found
    if (r.chance(0.35)) { static const std::vector<std::pair<std::string, std::string>> wrap = {{"w8.example", "w181.example"}, {"w135.example", "w250.example"}, {"w137.example", "w252.example"}, {"w130.example", "w255.example"}, {"w132.example", "w257.example"}, {"w123.example", "w264.example"}};
      auto pr = r.pick(wrap); a.push(pr.first); a.push(pr.second); hot.push_back("RCPT TO:<u@" + pr.first + ">"); hot.push_back("RCPT TO:<u@" + pr.second + ">"); hot.push_back("RCPT TO:<u@" + pr.second + ">"); hot.push_back("RCPT TO:<u@" + pr.first + ">"); }
    ctl.set("morercpthosts", a); }
  if (r.chance(0.5)) { Json a = Json::arr(); a.push("bad@sender.example"); a.push("@bad.example"); if (r.chance(0.3)) a.push("Zed@zone-9.example"); ctl.set("badmailfrom", a); }
  if (r.chance(0.4)) ctl.set("localiphost", r.pick(std::vector<std::string>{"l.example", "other.example", "a-rather-long-name-for-this-very-host.sub.l.example", "a-rather-long-name-for-this-very-host.sub.l.example"}));
  p.knobs.set("control", ctl);
  Json env = Json::obj(); env.set("TCPREMOTEIP", "192.0.2.9").set("TCPREMOTEHOST", "client.example").set("TCPLOCALHOST", "sim.example");
  int rl = (int)r.below(6); if (rl == 0) env.set("RELAYCLIENT", ""); else if (rl == 1) env.set("RELAYCLIENT", "@relay.suffix");
  p.knobs.set("env", env);
  Json ifs = Json::arr(); ifs.push((long long)0x0a000007); p.knobs.set("interfaces", ifs);
  std::string all; int n = (int)r.range(1, 25); int datas = 0;
  for (int q = 0; q < n; q++) {
    int c = (int)r.below(20); std::string eol = r.chance(0.85) ? "\r\n" : "\n"; std::string line;
    if (c < 2) line = r.pick(std::vector<std::string>{"HELO", "helo", "EHLO", "EhLo"}) + " " + r.pick(std::vector<std::string>{"client.example", "other.host", "CLIENT.EXAMPLE", ""});
    else if (c < 6) line = r.pick(std::vector<std::string>{"MAIL FROM", "mail from", "MAIL", "Mail From"}) + c08_addr(r, false);
    else if (c < 12) line = r.pick(std::vector<std::string>{"RCPT TO", "rcpt to", "RCPT", "Rcpt To"}) + c08_addr(r, true);
    else if (c < 14) { line = "DATA"; all += line + eol; all += "Subject: m" + std::to_string(++datas) + "\r\n\r\nbody\r\n.\r\n"; continue; }   // if DATA is refused these lines are (unknown) commands: the model knows
    else if (c == 14) line = "RSET";
    else if (c == 15) line = r.pick(std::vector<std::string>{"NOOP", "NOOP arg", "VRFY x", "HELP", "help me"});
    else if (c == 16) line = r.pick(std::vector<std::string>{"XYZZY", "", " ", "MAILFROM:<a@b>", "RCPTTO:<a@b>", "DATA x", "data"});
    else if (c == 17 && q > n / 2) line = "QUIT";
    else line = r.pick(hot);
    all += line + eol;
  }
  if (r.chance(0.7)) all += "QUIT\r\n";
  int mode = (int)r.below(3);
  if (mode == 0) p.ops.push(send_op(all)); else if (mode == 1) p.ops.push(send_op(all, (int)r.range(1, 30)));
  else { size_t off = 0; int rep = 1; while (off < all.size()) { size_t e = all.find('\n', off); if (e == std::string::npos) e = all.size() - 1; p.ops.push(send_op(all.substr(off, e - off + 1))); off = e + 1; if (r.chance(0.7)) p.ops.push(wait_op(++rep)); } }
  if (r.chance(0.05)) { Fault f; f.actor = "qmail-smtpd"; f.call = r.pick(std::vector<CallId>{C_OPEN, C_READ}); f.path = "/control/"; f.nth = (int)r.range(1, 10); f.kind = "error"; f.err = r.pick(std::vector<int>{EIO, ENOMEM, EACCES, ENFILE}); p.faults.push_back(f); }   // a control file (or morercpthosts.cdb) that cannot be read
  // a policy file that exists but cannot be opened - for whatever reason, not only the "try again later" kind - is not an absent one
  if (p.faults.empty() && r.chance(0.04)) { Fault f; f.actor = "qmail-smtpd"; f.call = C_OPEN; f.path = r.pick(std::vector<std::string>{"/control/rcpthosts", "/control/rcpthosts", "/control/badmailfrom", "/control/morercpthosts"}); f.nth = 1; f.kind = "error"; f.err = r.pick(std::vector<int>{EACCES, EPERM, ELOOP, ENOTDIR, ENAMETOOLONG, EIO, ENOMEM, EMFILE, ENXIO, EISDIR, EOVERFLOW, ESTALE}); p.faults.push_back(f); }
  p.knobs.set("ctl_style", (long long)r.pick(std::vector<int64_t>{0, 0, 1, 1, 2}));   // the same control files spelled differently (no final newline; comments, blank lines, trailing blanks)
  add_short_io(r, p, "qmail-smtpd", 0.15, false);
  p.label = "commands=" + std::to_string(n) + " rcpthosts=" + std::to_string(rc) + " relay=" + std::to_string(rl);
  return true;
}


// ---------------------------------------------------------------------------------------------- C07 (QMTP and QMQP daemons)
static std::string ns(const std::string &x) { return std::to_string(x.size()) + ":" + x + ","; }

static bool gen_c07_nt(Rng &r, Plan &p, uint64_t i, bool qmtp) {
  p.knobs.set("daemon", qmtp ? "qmtpd" : "qmqpd");
  Json ctl = Json::obj(); Json env = Json::obj();
  int64_t databytes = r.chance(0.6) ? (int64_t)r.pick(std::vector<int64_t>{1, 10, 50, 100, 1000, 1000, 4294967295LL, 4294967294LL}) : 0;   // (the two largest values of an unsigned int: 'limit + 1' must not wrap to zero)
  if (databytes) { if (r.chance(0.5)) ctl.set("databytes", (long long)databytes); else env.set("DATABYTES", std::to_string(databytes)); }
  if (r.chance(0.6)) { Json rh = Json::arr(); rh.push("l.example"); rh.push(".sub.example"); ctl.set("rcpthosts", rh); }
  p.knobs.set("control", ctl);
  static const std::vector<std::string> hostile = {"client.example", "evil host", "a\"b", "x(y)", "semi;colon", "new\nline", "\x01\x7f\xff", "<script>", "ok-host.example", "a,b", "[1.2.3.4]", "per%cent+plus/slash=eq:colon"};
  env.set("TCPREMOTEIP", r.chance(0.8) ? "192.0.2.9" : r.pick(hostile)).set("TCPREMOTEHOST", r.pick(hostile));
  if (r.chance(0.7)) env.set("TCPLOCALHOST", r.chance(0.8) ? "sim.example" : r.pick(hostile)); else if (r.chance(0.5)) env.set("TCPLOCALIP", "192.0.2.1");
  if (r.chance(0.4)) env.set("TCPREMOTEINFO", r.pick(hostile));
  if (r.chance(0.15)) env.set("RELAYCLIENT", r.pick(std::vector<std::string>{"", "@relay.example"}));
  p.knobs.set("env", env);
  auto addr = [&](bool rcpt) -> std::string {
    int kk = (int)r.below(12);
    if (kk == 0) return std::string((size_t)r.pick(std::vector<int64_t>{985, 999, 1000, 1003}), 'a');
    if (kk == 1) { std::string a = "nul"; a.push_back('\0'); return a + "x@l.example"; }
    if (kk == 2 && rcpt) return "w@other.example";
    if (kk == 3) return rcpt ? "v@deep.sub.example" : "";
    if (kk == 4) return "postmaster";
    if (kk == 5 && rcpt) return "U@L.Example";
    return (rcpt ? "u" : "s") + std::to_string(r.below(9)) + (rcpt ? "@l.example" : "@x.example");
  };
  auto body_of = [&](bool dos, bool has_mode) -> std::string {
    int bk = (int)r.below(6); std::string dec;
    if (databytes && databytes <= 100000 && bk < 3) { int64_t n = databytes + (int64_t)r.range(-1, 1); if (n < 0) n = 0; while ((int64_t)dec.size() < n) dec += (dec.size() % 17 == 16) ? '\n' : 'b'; }
    else if (bk == 3) { int n = (int)r.below(60); for (int q = 0; q < n; q++) dec += r.pick(std::vector<std::string>{"a", "\r", "\n", ".", "\r\n", "line\n"}); }
    else if (bk == 4) dec = "";
    else dec = "Subject: t\n\nhello\n.\n..dots\n";
    std::string raw;
    if (dos && bk != 3) { for (char c : dec) { if (c == '\n') raw += "\r\n"; else raw += c; } } else raw = dec;
    if (!has_mode) return raw;
    return std::string(1, dos ? '\r' : '\n') + raw;
  };
  std::string all; int npk = qmtp ? (int)r.range(1, 3) : 1;
  for (int q = 0; q < npk; q++) {
    std::string body = body_of(r.chance(0.5), qmtp);
    if (qmtp && r.chance(0.03)) body = r.pick(std::vector<std::string>{"", "x body"});   // empty message / bad mode byte
    std::string sender = addr(false); int nr = (int)r.below(4); std::string rl; for (int t = 0; t < nr; t++) rl += ns(addr(true));
    if (qmtp) all += ns(body) + ns(sender) + ns(rl); else all += ns(ns(body) + ns(sender) + rl);
  }
  if (!qmtp && r.chance(0.2)) all += "trailing";
  std::string lab = qmtp ? "QMTP " : "QMQP ";
  if (r.chance(0.3)) {   // mutate the framing
    std::vector<size_t> fr; for (size_t q = 0; q < all.size(); q++) if (isdigit((unsigned char)all[q]) || all[q] == ':' || all[q] == ',') fr.push_back(q);
    size_t pos = (!fr.empty() && r.chance(0.8)) ? fr[r.below(fr.size())] : (size_t)r.below(all.size() + 1);
    int op = (int)r.below(3); static const std::string repl = ":,0123456789x/ -";
    if (op == 0 && pos < all.size()) all.erase(pos, 1); else if (op == 1 && pos < all.size()) all[pos] = r.chance(0.1) ? '\0' : repl[r.below(repl.size())]; else all.insert(pos > all.size() ? all.size() : pos, 1, repl[r.below(repl.size())]);
    lab += "mutated at " + std::to_string(pos) + ", ";
  }
  int mode = (int)(i % 4);
  if (mode == 0) { p.ops.push(send_op(all, (int)r.below(40))); p.label = lab + "complete"; }
  else if (mode == 1) { size_t cut = (size_t)r.below(all.size() + 1); p.ops.push(send_op(all.substr(0, cut), (int)r.below(40))); p.ops.push(Json::obj().set("op", "close")); p.label = lab + "disconnect at byte " + std::to_string(cut) + " of " + std::to_string(all.size()); }
  else if (mode == 2) { Json q = Json::obj(); int code = r.chance(0.3) ? 0 : (int)r.below(256); q.set("code", code).set("read_all", true);
    if (code == 82 || r.chance(0.1)) q.set("text", r.pick(std::vector<std::string>{"Dcustom permanent", "Zcustom temporary", "D", "", "Zx"}));
    p.knobs.set("qq", q); p.ops.push(send_op(all, (int)r.below(40))); p.label = lab + "queue program exits " + std::to_string(code); }
  else { size_t cut = (size_t)r.below(all.size() + 1); int64_t st = r.chance(0.5) ? 3500 : 3700; p.ops.push(send_op(all.substr(0, cut))); p.ops.push(Json::obj().set("op", "sleep").set("s", (long long)st)); p.ops.push(send_op(all.substr(cut))); p.label = lab + "stall of " + std::to_string(st) + " s at byte " + std::to_string(cut); }
  if (mode == 0 && r.chance(0.3)) { Fault f; f.actor = "qmail-queue"; f.call = r.pick(std::vector<CallId>{C_WRITE, C_FSYNC, C_LINK, C_OPEN, C_READ, C_MALLOC}); f.nth = (int)r.range(1, 6); f.kind = f.call == C_MALLOC ? "null" : "error"; f.err = r.pick(std::vector<int>{EIO, ENOSPC}); if (r.chance(0.3)) { f.call = C_ANY; f.nth = (int)r.range(1, 30); f.kind = "kill"; } /* the queue program is killed (OOM killer, operator): a death by signal is never success */ p.faults.push_back(f); p.knobs.set("real_qq_fault", true); p.label += " +queue fault"; }
  return true;
}

// ---------------------------------------------------------------------------------------------- C07 (SMTP daemon)
static bool gen_c07(uint64_t seed, const std::string &tier, uint64_t i, Plan &p) {
  (void)tier;
  p = Plan(); p.property = "C07"; p.world = "SI"; p.seed = mix64(mix64(seed, 0xC07), i);
  Rng r(p.seed); si_knobs(r, p);
  p.knobs.set("oracles", oracle_list({"c07"}));
  { uint64_t proto = (i / 4) % 4; if (proto == 1 || proto == 3) return gen_c07_nt(r, p, i, true); if (proto == 2) return gen_c07_nt(r, p, i, false); }
  Json ctl = Json::obj(); Json env = Json::obj();
  int64_t databytes = r.chance(0.5) ? (int64_t)r.pick(std::vector<int64_t>{1, 10, 100, 1000, 1000, 4294967295LL, 4294967294LL}) : 0;
  if (databytes) { if (r.chance(0.5)) ctl.set("databytes", (long long)databytes); else env.set("DATABYTES", std::to_string(databytes)); }
  int64_t timeout = r.pick(std::vector<int64_t>{20, 1200}); if (timeout != 1200) ctl.set("timeoutsmtpd", (long long)timeout);
  p.knobs.set("control", ctl);
  static const std::vector<std::string> hostile = {"client.example", "evil host", "a\"b", "x(y)", "semi;colon", "new\nline", "\x01\x7f\xff", "<script>", "ok-host.example", "a,b", "[1.2.3.4]", "per%cent+plus/slash=eq:colon"};
  env.set("TCPREMOTEIP", r.chance(0.8) ? "192.0.2.9" : r.pick(hostile)).set("TCPREMOTEHOST", r.pick(hostile)).set("TCPLOCALHOST", r.chance(0.8) ? "sim.example" : r.pick(hostile));
  if (r.chance(0.4)) env.set("TCPREMOTEINFO", r.pick(hostile));
  p.knobs.set("env", env);
  // body
  int bk = (int)r.below(8); std::string body;
  if (databytes && databytes <= 100000 && bk < 4 && r.chance(0.35)) {
    // stored size within two bytes of the limit, built from lines whose wire form and stored form differ in length: stuffed dots,
    // bare CRs, and "dot CR other" lines (which this decoder stores with their dot: known finding C05, so the limit is judged on
    // the stored text). Every byte that reaches the queue counts, whichever branch of the decoder passed it on.
    int64_t n = databytes + (int64_t)r.range(-2, 3); if (n < 0) n = 0; int64_t stored = 0;
    while (stored < n) {
      int64_t left = n - stored; int u = (int)r.below(5);
      if (u == 0 && left >= 4) { body += ".\rx\r\n"; stored += 4; }               // stored ".\rx\n"
      else if (u == 1 && left >= 3) { body += "..y\r\n"; stored += 3; }           // stored ".y\n"
      else if (u == 2 && left >= 3) { body += "a\rb"; stored += 3; }               // bare CR kept
      else if (u == 3 && left >= 5) { body += ".\r\r\rz\r\n"; stored += 5; }    // stored ".\r\rz\n" (dot-CR, then a CR run that collapses before LF)
      else if (left >= 2) { body += "b\r\n"; stored += 2; }
      else { body += "\r\n"; stored += 1; }
    }
    if (body.size() < 2 || body.compare(body.size() - 2, 2, "\r\n") != 0) body += "\r\n";
  }
  else if (databytes && databytes <= 100000 && bk < 4) { int64_t n = databytes + (int64_t)r.range(-1, 1); if (n < 0) n = 0; std::string raw; while ((int64_t)raw.size() < n) raw += (raw.size() % 40 == 39) ? '\n' : 'b'; raw.resize((size_t)n); if (!raw.empty()) raw.back() = '\n'; for (char c : raw) { if (c == '\n') body += "\r\n"; else body += c; } }
  else if (bk == 4 || bk == 5) { int hops = (int)r.range(97, 102); for (int q = 0; q < hops; q++) body += r.pick(std::vector<std::string>{"Received: by x\r\n", "received: y\r\n", "Delivered-To: z\r\n", "DELIVERED-TO: w\r\n", "RECEIVED\r\n"}); if (r.chance(0.5)) body += "Subject: s\r\n"; body += "\r\nReceived: in body does not count\r\n"; }
  else body = "Subject: t\r\n\r\nhello\r\n..stuffed\r\n";
  std::string helo = r.chance(0.7) ? "HELO " + r.pick(hostile) + "\r\n" : std::string();
  { size_t nl = helo.find('\n'); if (nl != std::string::npos && nl + 1 != helo.size()) helo = "HELO multi\r\n"; }
  std::string sess = helo + "MAIL FROM:<s@x.example>\r\nRCPT TO:<u1@l.example>\r\n" + (r.chance(0.5) ? "RCPT TO:<u2@l.example>\r\n" : "") + "DATA\r\n" + body + ".\r\n";
  std::string tail = r.chance(0.5) ? "QUIT\r\n" : "MAIL FROM:<s2@x.example>\r\nRCPT TO:<v@l.example>\r\nDATA\r\nsecond\r\n.\r\nQUIT\r\n";
  int mode = (int)(i % 4);
  if (mode == 0) { p.ops.push(send_op(sess + tail, (int)r.below(40))); p.label = "complete session"; }
  else if (mode == 1) {   // disconnect at a byte position
    std::string all = sess + tail; size_t cut = (size_t)r.below(all.size() + 1);
    p.ops.push(send_op(all.substr(0, cut), (int)r.below(40))); p.ops.push(Json::obj().set("op", "close")); p.label = "disconnect at byte " + std::to_string(cut) + " of " + std::to_string(all.size());
  } else if (mode == 2) {   // stand-in queue program with every exit status
    Json q = Json::obj(); int code = (int)r.below(256); q.set("code", code).set("read_all", r.chance(0.7));
    if (code == 82 || r.chance(0.1)) q.set("text", r.pick(std::vector<std::string>{"Dcustom permanent", "Zcustom temporary", "D", "", "Zx"}));
    p.knobs.set("qq", q); p.ops.push(send_op(sess + tail)); p.label = "queue program exits " + std::to_string(code);
  } else {   // stall below/above the timeout in the middle of the session
    std::string all = sess + tail; size_t cut = (size_t)r.below(all.size());
    p.ops.push(send_op(all.substr(0, cut))); p.ops.push(Json::obj().set("op", "sleep").set("s", (long long)(r.chance(0.5) ? timeout - 5 : timeout + 5))); p.ops.push(send_op(all.substr(cut))); p.label = "stall at byte " + std::to_string(cut);
  }
  // the daemon itself cannot start the queue program (no process slot, no descriptors): 451 in answer to DATA, nothing taken as data, nothing queued
  if (mode == 0 && r.chance(0.25)) { Fault f; f.actor = "qmail-smtpd"; f.kind = "error"; f.err = r.pick(std::vector<int>{EAGAIN, ENOMEM, EMFILE, ENFILE}); int at = 1;
    if (r.chance(0.5)) { f.call = C_FORK; at = (int)r.range(1, 2); f.nth = at; } else { f.call = C_PIPE; f.nth = (int)r.range(1, 2); }
    p.faults.push_back(f); p.knobs.set("qq_open_fails_at", at); p.label += ", queue program cannot be started"; return true; }
  // faults inside the real qmail-queue behind the daemon give the real 51/53/54/6x codes
  if (mode == 0 && r.chance(0.3)) { Fault f; f.actor = "qmail-queue"; f.call = r.pick(std::vector<CallId>{C_WRITE, C_FSYNC, C_LINK, C_OPEN, C_READ, C_MALLOC}); f.nth = (int)r.range(1, 6); f.kind = f.call == C_MALLOC ? "null" : "error"; f.err = r.pick(std::vector<int>{EIO, ENOSPC}); if (r.chance(0.3)) { f.call = C_ANY; f.nth = (int)r.range(1, 30); f.kind = "kill"; } /* the queue program is killed (OOM killer, operator): a death by signal is never success */ p.faults.push_back(f); p.knobs.set("real_qq_fault", true); p.label += " +queue fault"; }
  return true;
}

static std::vector<std::string> si_real() { return {"qmail-smtpd", "qmail-queue", "qmail-newmrh (builds morercpthosts.cdb)"}; }
static std::vector<std::string> si_stubs() { return {"network client (scripted sends, waits, stalls, disconnects)", "optional stand-in queue program via QMAILQUEUE"}; }

static RegisterProperty reg_c05(PropertyDef{
    "C05", "SI", "exploration", "deterministic simulation of the SMTP pipeline: enumerated and random DATA streams, every read split by the seeded scheduler, real qmail-queue behind the server; stored body and resynchronisation compared with a reference RFC 5321 receiver", gen_c05,
    "plan i = f(VERIF_SEED, i): first ALL strings over the token alphabet {CR, LF, '.', 'x', 'Received:', 'delivered-to:'} up to length 4 (quick) / 6 (thorough), then random token strings, long random streams and conforming encodings of random messages; each followed by terminator (80%) and further commands (QUIT, RSET, a second transaction, stray terminator); sent at once, in 1-6 byte chunks or in lockstep; "
    "stream reads return seeded prefixes. non-trivial = at least one reply beyond the greeting; distinct = distinct (choice stream, trace) hashes",
    si_real(), si_stubs(), q_assume(), "hash of the server's output", 3000, 120000});

static RegisterProperty reg_c08(PropertyDef{
    "C08", "SI", "exploration", "deterministic simulation: generated SMTP command sequences (pipelined, chunked or lockstep, LF-only line ends) against configurations of rcpthosts, morercpthosts.cdb (built by the real qmail-newmrh), badmailfrom, localiphost, RELAYCLIENT; replies and queued envelopes compared operation by operation with a reference server", gen_c08,
    "plan i = f(VERIF_SEED, i): 1-25 commands over HELO EHLO MAIL RCPT DATA RSET NOOP VRFY HELP QUIT and unknown verbs with arguments from an address grammar (quoted, escaped, source-routed, bracketless, unterminated, 890-905 bytes, IP literals local and foreign, mixed case, near-miss domains); rcpthosts absent/exact/dot-suffix, morercpthosts, badmailfrom address and @host forms, localiphost, RELAYCLIENT unset/empty/suffix. "
    "non-trivial = at least one reply beyond the greeting",
    si_real(), si_stubs(), q_assume(), "hash of the server's output", 3000, 120000});

static RegisterProperty reg_c07(PropertyDef{
    "C07", "SI", "exploration", "deterministic simulation: SMTP sessions, QMTP package streams and QMQP packages (bodies around databytes, 97-102 Received/Delivered-To fields, addresses around 1000 bytes and with NUL, mutated netstring framing, hostile HELO/TCPREMOTE* strings) against the real qmail-smtpd, qmail-qmtpd and qmail-qmqpd; client disconnect at a random byte, stalls around the timeouts, stand-in queue program sweeping exit status 0-255 with custom text, faults inside the real qmail-queue; ack-iff-queued oracle over the simulated queue against reference models of the three protocols", gen_c07,
    "plan i = f(VERIF_SEED, i): four modes in rotation - complete session (30% with a fault inside the real qmail-queue), disconnect at byte k, stand-in queue program exiting with a random status (custom fd-6 text for 82), stall of timeout-5 / timeout+5 seconds at byte k. Checked: 250 after DATA iff exactly that message (Received field from safe characters only + reference-decoded body + acknowledged envelope) is in the queue; 552 for size, 554 for hops, permanent/temporary class per queue exit code. "
    "Blocks of four plans alternate SMTP, QMTP, QMQP, QMTP. QMTP/QMQP plans: 1-3 packages (LF and CRLF bodies of databytes-1/0/+1 decoded bytes, bare CRs, senders and recipients of 985/999/1000/1003 bytes or containing NUL, recipients outside rcpthosts, RELAYCLIENT), 30% with one deleted/replaced/inserted framing byte; checked: each reply netstring starts K/Z/D as the reference says, K iff exactly that package (Received ... with QMTP/QMQP, decoded body, sender, accepted recipients in order) was committed, nothing committed for refused, malformed, cut or timed-out packages, exit status 0 / 111 after the 3600 s alarm. non-trivial = at least one reply beyond the greeting (SMTP) or any client byte (QMTP/QMQP)",
    si_real(), si_stubs(), q_assume(), "hash of the server's output", 3000, 120000});

}  // namespace sim

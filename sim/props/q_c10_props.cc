// q_c10_props.cc - plan generator for C10 (routing and rewriting by control files)
#include "../world.h"
#include "gen_util.h"
#include <errno.h>

namespace sim {
static std::string mixcase(Rng &r, std::string s) { for (auto &c : s) if (r.chance(0.3)) c = (char)toupper((unsigned char)c); return s; }

static bool gen_c10(uint64_t seed, const std::string &tier, uint64_t i, Plan &p) {
  (void)tier;
  p = Plan(); p.property = "C10"; p.world = "Q"; p.seed = mix64(mix64(seed, 0xC10), i);
  Rng r(p.seed);
  base_knobs(r, p, false);
  p.knobs.set("oracles", oracle_list({"c10"}));
  // (names cover both ends of the alphabet, digits and hyphens: case folding is per character)
  static const std::vector<std::string> doms = {"a.example", "b.example", "sub.a.example", "deep.sub.a.example", "c.test", "x.c.test", "fax", "host.fax", "sim.example", "zone.example", "az-09.zz", "sub.zone.example", "caf\xe9.example", "\xff\x80.zz"};
  auto gen_conf = [&](Json &conf) {
    Json loc = Json::arr(); std::set<std::string> used;
    int nl = (int)r.range(0, 3); for (int q = 0; q < nl; q++) { std::string d = r.pick(doms); if (used.insert(d).second) loc.push(mixcase(r, d)); }
    if (loc.a.empty() || r.chance(0.8)) { if (used.insert("l.example").second) loc.push("l.example"); }
    conf.set("locals", loc);
    if (r.chance(0.08)) conf.set("no_locals", true);   // control/locals absent: only control/me is local
    Json vd = Json::arr(); int nv = (int)r.range(0, 5); std::set<std::string> vk;
    for (int q = 0; q < nv; q++) {
      int kind = (int)r.below(5); std::string key;
      if (kind == 0) key = r.pick(std::vector<std::string>{"joe", "info", "a.b", "zed"}) + "@" + r.pick(doms);
      else if (kind == 1) key = r.pick(doms);
      else if (kind == 2) key = "." + r.pick(std::vector<std::string>{"a.example", "example", "fax", "c.test", "sub.a.example", "zone.example", "zz"});
      else if (kind == 3) key = "";
      else key = r.pick(doms);
      if (!vk.insert(key).second) continue;   // control files listing a key twice are outside the documented domain
      std::string pre = (kind == 4 || r.chance(0.15)) ? "" : r.pick(std::vector<std::string>{"alias-v", "joe-foo", "uucp-fax", "catch"});
      vd.push(mixcase(r, key) + ":" + pre);
    }
    if (!vd.a.empty()) conf.set("virtualdomains", vd);
  };
  Json conf = Json::obj();
  gen_conf(conf);
  if (r.chance(0.5)) { Json ph = Json::arr(); int n = (int)r.range(1, 2); std::set<std::string> u; for (int q = 0; q < n; q++) { std::string d = r.pick(doms); if (u.insert(d).second) ph.push(mixcase(r, d)); } conf.set("percenthack", ph); }
  if (r.chance(0.5)) conf.set("envnoathost", r.pick(doms));
  conf.set("queuelifetime", 100);
  p.knobs.set("conf", conf);
  p.knobs.set("default_verdict", "K");
  p.knobs.set("ctl_style", (long long)r.pick(std::vector<int64_t>{0, 0, 1, 1, 2}));
  auto rand_rcpt = [&]() -> std::string {
    int kind = (int)r.below(12); std::string box = r.pick(std::vector<std::string>{"joe", "info", "a.b", "x", "Joe", "u%a.example", "u%b.example%a.example", "a%b", "we@ird", "zed", "ZED", "u%ZONE.example"});
    std::string d = mixcase(r, r.pick(doms));
    switch (kind) {
      case 0: return box;                                   // no @
      case 1: return box + "@";                             // trailing @
      case 2: return box + "@extra." + d;                   // extra label
      case 3: return box + "@" + d + ".";                   // trailing dot
      case 4: return box + "@" + d.substr(0, d.size() - 1); // near miss
      case 5: return box + "@" + d + "@" + mixcase(r, r.pick(doms));
      case 6: return std::string("@") + d;
      default: return box + "@" + d;
    }
  };
  p.ops.push(Json::obj().set("op", "boot"));
  int nmsg = (int)r.range(1, 3);
  bool hup = r.chance(0.4); int hup_at = (int)r.below((uint64_t)nmsg + 1);
  // a reread that fails half-way (the daemon logs an alert): the old configuration stays in force, completely
  if (hup && r.chance(0.35)) { Fault f; f.actor = "qmail-send"; f.call = r.pick(std::vector<CallId>{C_OPEN, C_READ}); f.path = r.chance(0.5) ? "/control/virtualdomains" : "/control/locals"; f.nth = 2; f.kind = "error"; f.err = r.pick(std::vector<int>{EIO, EACCES, ENOMEM}); p.faults.push_back(f); }
  auto do_hup = [&]() {
    Json c2 = Json::obj(); gen_conf(c2);
    std::string l; for (auto &x : c2["locals"].a) l += x.str() + "\n"; std::string v; for (auto &x : c2["virtualdomains"].a) v += x.str() + "\n";
    if (r.chance(0.5)) p.ops.push(Json::obj().set("op", "yield").set("n", (long long)r.range(1, 300)));
    p.ops.push(Json::obj().set("op", "control").set("file", "locals").set("content", l));
    if (v.empty()) p.ops.push(Json::obj().set("op", "control").set("file", "virtualdomains").set("remove", true)); else p.ops.push(Json::obj().set("op", "control").set("file", "virtualdomains").set("content", v));
    p.ops.push(Json::obj().set("op", "signal").set("to", "qmail-send").set("sig", "HUP"));
    if (r.chance(0.5)) p.ops.push(Json::obj().set("op", "yield").set("n", (long long)r.range(1, 300)));
  };
  for (int m = 0; m < nmsg; m++) {
    if (hup && m == hup_at) do_hup();
    Json inj = Json::obj(); inj.set("op", "inject").set("id", "m" + std::to_string(m + 1)).set("body_len", 10).set("body_seed", m);
    inj.set("sender", r.chance(0.3) ? "owner-@lists.example-@[]" : (r.chance(0.2) ? "list-@b.example-@[]" : "s@x.example"));
    Json rc = Json::arr(); int nr = (int)r.range(1, 6); for (int q = 0; q < nr; q++) rc.push(rand_rcpt()); inj.set("rcpts", rc);
    p.ops.push(inj);
    if (r.chance(0.4)) p.ops.push(Json::obj().set("op", "yield").set("n", (long long)r.range(1, 200)));
  }
  if (hup && hup_at == nmsg) do_hup();
  // a second reread later on (new content again), sometimes failing half-way after the first one succeeded, and more mail after it
  if (hup && r.chance(0.4)) {
    if (r.chance(0.6)) { Fault f; f.actor = "qmail-send"; f.call = r.pick(std::vector<CallId>{C_OPEN, C_READ}); f.path = r.chance(0.6) ? "/control/virtualdomains" : "/control/locals"; f.nth = 3; f.kind = "error"; f.err = r.pick(std::vector<int>{EIO, EACCES, ENOMEM, ENFILE}); p.faults.push_back(f); }
    p.ops.push(Json::obj().set("op", "yield").set("n", (long long)r.range(100, 400)));
    do_hup();
    for (int m = 0; m < 2; m++) { Json inj = Json::obj(); inj.set("op", "inject").set("id", "n" + std::to_string(m + 1)).set("body_len", 10).set("body_seed", m).set("sender", "s@x.example"); Json rc = Json::arr(); int nr = (int)r.range(2, 6); for (int q = 0; q < nr; q++) rc.push(rand_rcpt()); inj.set("rcpts", rc); p.ops.push(inj); p.ops.push(Json::obj().set("op", "yield").set("n", (long long)r.range(1, 200))); }
  }
  // a second HUP whose handler runs while the reread for the first one is still under way (the files may have changed again since they
  // were read): it must lead to another reread
  if (hup && r.chance(0.3)) { Fault f; f.actor = "qmail-send"; f.kind = r.chance(0.7) ? "signal" : "signal_after"; f.arg = 1 /* SIGHUP */; int w = (int)r.below(4);
    if (w == 0) { f.call = C_CHDIR; f.path = "/queue"; f.nth = 2; } else if (w == 1) { f.call = C_OPEN; f.path = "/control/virtualdomains"; f.nth = 2; } else if (w == 2) { f.call = C_OPEN; f.path = "/control/locals"; f.nth = 2; } else { f.call = C_CLOSE; f.path = "/control/virtualdomains"; f.nth = 2; }
    p.faults.push_back(f); }
  int dist = (int)(i % 6);
  if (dist == 4) { Fault f; f.actor = "qmail-send"; f.call = C_ANY; f.nth = (int)r.range(30, 400); f.kind = r.chance(0.5) ? "kill" : "crash"; f.image = r.pick(std::vector<std::string>{"worst", "best", "random"}); p.faults.push_back(f); }
  if (dist == 5 && hup) { Fault f; f.actor = "qmail-send"; f.call = C_READ; f.path = r.chance(0.5) ? "control/locals" : "control/virtualdomains"; f.nth = 2; f.kind = "error"; f.err = EIO; p.faults.push_back(f); }
  p.ops.push(Json::obj().set("op", "settle").set("max_s", 300000));
  p.ops.push(Json::obj().set("op", "boot")); p.ops.push(Json::obj().set("op", "settle").set("max_s", 300000));
  p.knobs.set("max_sim_s", 2000000);
  p.label = "msgs=" + std::to_string(nmsg) + (hup ? " hup" : "") + (dist == 4 ? " crash" : dist == 5 ? " reread-error" : "");
  return true;
}

static RegisterProperty reg_c10(PropertyDef{
    "C10", "Q", "exploration", "deterministic simulation: generated control files and recipients through the real qmail-queue+qmail-send; channel files compared with an independent model of the documented routing rules using the configuration the daemon last read (known exactly from its open/read trace)", gen_c10,
    "plan i = f(VERIF_SEED, i): locals, virtualdomains (user@domain, domain, dot-suffix wildcards, catch-all, empty-prepend exceptions; no duplicate keys), percenthack, envnoathost in mixed case; 1-3 messages x 1-6 recipients from configured names and near-misses (no @, trailing @, extra labels, trailing dot, multiple @ and %); "
    "VERP and plain senders; 40% of plans replace locals/virtualdomains by rename and send HUP at a random point relative to preprocessing; every sixth plan crashes the daemon mid-run, every sixth makes the reread fail. non-trivial = at least one preprocessed message compared; distinct = distinct (choice stream, trace) hashes",
    q_real(), q_stubs(), q_assume(), "hash over messages of (phase, #pending, #done, accepted) at end of run", 1500, 60000});
}  // namespace sim

// c20_props.cc - hostile generators for every untrusted-input surface (C20: memory safety under ASan/UBSan)
#include "../world.h"
#include "gen_util.h"
#include <errno.h>

namespace sim {

static std::string rnd_bytes(Rng &r, size_t n) { std::string s; s.reserve(n); for (size_t i = 0; i < n; i++) s.push_back((char)r.below(256)); return s; }
static std::string ns(const std::string &s) { return std::to_string(s.size()) + ":" + s + ","; }

static std::string mutate(Rng &r, std::string s) {
  int n = (int)r.range(0, 4);
  for (int q = 0; q < n && !s.empty(); q++) {
    int k = (int)r.below(6); size_t p = r.below(s.size());
    if (k == 0) s[p] = (char)r.below(256); else if (k == 1) s.erase(p, r.below(8) + 1); else if (k == 2) s.insert(p, rnd_bytes(r, r.below(6) + 1));
    else if (k == 3) s.insert(p, std::string((size_t)r.pick(std::vector<int>{1, 127, 128, 255, 256, 1000, 1024, 5000}), r.chance(0.5) ? 'A' : '\0')); else if (k == 4) s = s.substr(0, p); else s += s.substr(p);
  }
  return s;
}

static Json c20_send(const std::string &b, int chunk = 0) { Json o = Json::obj(); o.set("op", "send").set("bytes", b); if (chunk) o.set("chunk", chunk); return o; }

static void alloc_fault(Rng &r, Plan &p, const std::string &actor) { if (r.chance(0.35)) { Fault f; f.actor = actor; f.call = C_MALLOC; f.nth = (int)r.range(1, 60); f.kind = "null"; p.faults.push_back(f); } }

static bool gen_c20(uint64_t seed, const std::string &tier, uint64_t i, Plan &p) {
  (void)tier;
  p = Plan(); p.property = "C20"; p.seed = mix64(mix64(seed, 0xC20), i);
  Rng r(p.seed);
  p.knobs.set("oracles", oracle_list({"c20"})).set("nojudge", true).set("split_p", r.pick(std::vector<double>{0.0, 0.5, 0.95})).set("stick", r.pick(std::vector<double>{0.3, 0.9})).set("max_steps", 400000);
  // the clock is input too (dates are formatted into Received, Date, From_ and bounce lines): now and then a time from the far
  // ends of a 32-bit time_t, before the calendar code's internal epoch (2000-03-01) or on a leap day
  { Rng rc(mix64(p.seed, 0xC10C)); if (rc.chance(0.25)) p.knobs.set("start_clock", (long long)(rc.pick(std::vector<int64_t>{0, 68169600, 946684799, 951782400, 951868799, 951868800, 1078012800, 2147400000, (int64_t)rc.below(951868800), (int64_t)rc.below(2147000000)}) + (int64_t)rc.below(86400))); }
  int surface = (int)(i % 12);
  switch (surface) {
    case 0: {   // SMTP byte streams
      p.world = "SI"; std::string s;
      std::string base = "EHLO h\r\nMAIL FROM:<s@x.example>\r\nRCPT TO:<u@l.example>\r\nDATA\r\nSubject: t\r\n\r\nbody\r\n.\r\nQUIT\r\n";
      int k = (int)r.below(8);
      if (k == 0) s = "MAIL FROM:<" + std::string((size_t)r.pick(std::vector<int>{899, 900, 901, 1000, 1003, 5000, 100000}), 'a') + "@x>\r\nRCPT TO:<" + std::string((size_t)r.pick(std::vector<int>{899, 900, 901, 1003, 70000}), 'b') + ">\r\nQUIT\r\n";
      else if (k == 1) s = std::string((size_t)r.pick(std::vector<int>{1000, 1023, 1024, 1025, 100000, 1000000}), 'C') + "\r\n" + base;
      else if (k == 2) s = "HELO " + rnd_bytes(r, (size_t)r.range(0, 3000)) + "\r\n" + base;
      else if (k == 3) s = "MAIL FROM:<@" + std::string(5000, 'r') + ":\"" + std::string(3000, '\\') + "\"@[" + std::string(2000, '1') + "]>\r\nMAIL FROM:<s@[1.2.3.4.5]>\r\nRCPT TO:<x@[999999999999.1.1.1]>\r\nRCPT TO:<x@[1.2.3.4.5.6]>\r\nRCPT TO:<x@[127.0.0.1>\r\nRCPT TO:<y@[" + [&] { std::string l; int n = (int)r.pick(std::vector<int>{5, 8, 40, 200, 400}); for (int q = 0; q < n; q++) l += (q ? "." : "") + std::to_string(r.below(256)); return l; }() + "]>\r\nRCPT TO:<z@[1.2.3.]>\r\nRCPT TO:<z@[.1.2.3.4]>\r\n" + base;   // (address literals are only parsed once a MAIL was accepted)
      else if (k == 4) { s = "MAIL FROM:<a@b>\r\nRCPT TO:<c@l.example>\r\nDATA\r\n"; for (int q = 0; q < 150; q++) s += "Received: x\r\n"; s += std::string(200000, 'z') + "\r\n.\r\nQUIT\r\n"; }
      else s = mutate(r, base);
      Json ctl = Json::obj(); if (r.chance(0.5)) { Json a = Json::arr(); a.push("l.example"); ctl.set("rcpthosts", a); } if (r.chance(0.3)) ctl.set("databytes", (long long)r.pick(std::vector<int64_t>{1, 100, 4294967295LL}));
      p.knobs.set("control", ctl);
      Json env = Json::obj(); env.set("TCPREMOTEHOST", rnd_bytes(r, (size_t)r.range(0, 2000))).set("TCPREMOTEIP", std::string((size_t)r.range(0, 600), '9')); if (r.chance(0.3)) env.set("RELAYCLIENT", std::string((size_t)r.pick(std::vector<int>{0, 10, 899, 5000}), 'R')); if (r.chance(0.2)) env.set("DATABYTES", "18446744073709551615");
      for (auto &kv : env.o) for (auto &c : kv.second.s) if (!c) c = '0';
      p.knobs.set("env", env);
      size_t cut = r.chance(0.5) ? s.size() : (size_t)r.below(s.size() + 1);
      p.ops.push(c20_send(s.substr(0, cut), (int)r.below(200))); alloc_fault(r, p, "qmail-smtpd");
      p.label = "smtpd hostile stream kind " + std::to_string(k) + " (" + std::to_string(cut) + " bytes)"; break; }
    case 1: case 2: {   // QMTP / QMQP netstrings
      p.world = "SI"; bool qmtp = surface == 1; p.knobs.set("daemon", qmtp ? "qmtpd" : "qmqpd");
      std::string msg = "\nSubject: t\n\nbody\n"; std::string sender = "s@x.example"; std::string rc = ns("u@l.example") + ns("v@r.example");
      std::string good = qmtp ? ns(msg) + ns(sender) + ns(rc) : ns(ns(msg.substr(1)) + ns(sender) + ns("u@l.example"));
      std::string s; int k = (int)r.below(12);
      if (k == 0) s = "2147483647:" + std::string(1000, 'x');
      else if (k == 1) s = "99999999999999999999999999:x,";
      else if (k == 2) s = "200000001:";
      else if (k == 3) s = ns("\n" + std::string((size_t)r.pick(std::vector<int>{999, 1000, 1001, 100000}), 'm')) + ns(std::string((size_t)r.pick(std::vector<int>{998, 999, 1000, 1001, 5000}), 's')) + ns(ns(std::string((size_t)r.pick(std::vector<int>{998, 999, 1000, 1001, 5000}), 'r')));
      else if (k == 4) s = ns(msg) + ns(sender) + std::to_string(rc.size()) + ":" + "9999:abc," + ",";
      else if (k == 5) s = ns(msg) + ns(sender) + "20:x:abcdefghijklmnopqrs,";
      else if (k == 6) s = ns(msg) + ns(sender) + "12:0000000003:abc,,";
      else if (k == 7) s = good + good + good;
      else if (k == 8) s = ns("\r" + std::string(3000, '\r') + "\n") + ns(sender) + ns(rc);
      else if (k == 9) s = ns(msg) + ns(std::string("a\0b", 3)) + ns(ns(std::string("c\0d", 3)));
      else s = mutate(r, good);
      if (r.chance(0.4)) { Json a = Json::arr(); a.push("l.example"); p.knobs.set("control", Json::obj().set("rcpthosts", a).set("databytes", (long long)r.pick(std::vector<int64_t>{0, 5, 1000}))); }
      Json env = Json::obj(); if (r.chance(0.3)) env.set("RELAYCLIENT", std::string((size_t)r.pick(std::vector<int>{0, 10, 990, 999, 1000, 5000}), 'R')); env.set("TCPREMOTEHOST", std::string((size_t)r.range(0, 3000), 'h')); p.knobs.set("env", env);
      size_t cut = r.chance(0.5) ? s.size() : (size_t)r.below(s.size() + 1);
      p.ops.push(c20_send(s.substr(0, cut), (int)r.below(100))); alloc_fault(r, p, qmtp ? "qmail-qmtpd" : "qmail-qmqpd");
      p.label = std::string(qmtp ? "qmtpd" : "qmqpd") + " hostile netstrings kind " + std::to_string(k); break; }
    case 3: {   // POP3
      p.world = "P"; if (r.chance(0.4)) p.knobs.set("popup", true);
      Json files = Json::arr(); int n = (int)r.below(4); for (int q = 0; q < n; q++) files.push(Json::obj().set("dir", "new").set("name", std::string((size_t)r.pick(std::vector<int>{5, 200}), 'f') + std::to_string(q)).set("age", 100).set("content", r.chance(0.5) ? std::string((size_t)r.pick(std::vector<int>{0, 1, 1023, 1024, 100000}), 'x') : rnd_bytes(r, (size_t)r.range(0, 3000))));
      p.knobs.set("files", files).set("lockstep", false);
      int nc = (int)r.range(1, 20);
      for (int q = 0; q < nc; q++) { std::string l; int k = (int)r.below(8);
        if (k == 0) l = "USER " + std::string((size_t)r.pick(std::vector<int>{0, 1, 127, 128, 129, 5000, 100000}), 'u'); else if (k == 1) l = "PASS " + rnd_bytes(r, (size_t)r.range(0, 300)); else if (k == 2) l = "APOP " + std::string((size_t)r.range(0, 3000), 'a') + (r.chance(0.5) ? " d" : "");
        else if (k == 3) l = "TOP " + std::string((size_t)r.range(1, 40), '9') + " " + std::string((size_t)r.range(0, 40), '9'); else if (k == 4) l = std::string((size_t)r.pick(std::vector<int>{127, 128, 129, 1000, 200000}), 'L'); else if (k == 5) l = "RETR 1"; else if (k == 6) l = "LIST " + rnd_bytes(r, 20); else l = "UIDL";
        for (auto &c : l) if (c == '\n') c = 'n';
        p.ops.push(Json::obj().set("op", "cmd").set("line", l)); }
      if (r.chance(0.5)) p.ops.push(Json::obj().set("op", "cmd").set("line", "QUIT"));
      alloc_fault(r, p, r.chance(0.5) ? "qmail-pop3d" : "qmail-popup");
      p.label = "pop3 hostile session"; break; }
    case 4: case 5: {   // qmail-remote: hostile server replies and resolver answers
      p.world = "SO"; Json routes = Json::arr(); routes.push(":[10.1.1.1]"); Json hosts = Json::obj(); hosts.set(std::to_string(0x0a010101), Json::obj().set("kind", "accept"));
      p.knobs.set("hosts", hosts).set("msg", r.chance(0.5) ? "s\n" : gen_body(r.next(), 2000) + "\n");
      auto hr = [&](int good) { Json j = Json::obj(); j.set("code", r.chance(0.6) ? good : (int)r.below(1000)).set("form", r.pick(std::vector<std::string>{"single", "nonnum", "short", "empty", "huge", "manylines", "dashonly", "bin", "long", "lf", "multi"})).set("act", r.pick(std::vector<std::string>{"reply", "reply", "reply", "close", "dribble"})); if (j.gets("act") == "dribble" && (j.gets("form") == "huge" || j.gets("form") == "manylines" || j.gets("form") == "long")) j.set("act", "reply"); return j; };
      Json sv = Json::obj(); sv.set("greeting", hr(220)).set("helo", hr(250)).set("mail", hr(250)).set("data", hr(354)).set("dot", hr(250)); Json rr = Json::arr(); rr.push(hr(250)); rr.push(hr(250)); sv.set("rcpt", rr); p.knobs.set("server", sv);
      Json rc = Json::arr(); rc.push(std::string((size_t)r.pick(std::vector<int>{1, 500, 5000}), 'u') + "@r.example"); rc.push("v@" + std::string((size_t)r.pick(std::vector<int>{1, 300, 4000}), 'd')); p.knobs.set("rcpts", rc).set("sender", rnd_bytes(r, (size_t)r.range(0, 50)) + "@x");
      { std::string sdr = p.knobs.gets("sender"); for (auto &c : sdr) if (!c) c = '0'; p.knobs.set("sender", sdr); }
      if (surface == 5) { Json zone = Json::obj(); Json fail = Json::obj(); std::string kind = r.pick(std::vector<std::string>{"grow", "grow", "shrink", "loop", "cut", "counts", "big", "rdlen", "trunc", "junk", "edge", "edge"}); fail.set("r.example", "garbled:" + kind); zone.set("fail", fail); p.knobs.set("zone", zone); p.label = "qmail-remote garbled dns (" + kind + ")"; }
      else { p.knobs.set("smtproutes", routes); p.label = "qmail-remote hostile server"; }
      if (r.chance(0.15)) { std::string l; int n = (int)r.pick(std::vector<int>{5, 9, 100, 1000}); for (int q = 0; q < n; q++) l += (q ? "." : "") + std::to_string(r.below(256)); p.knobs.erase("smtproutes"); p.knobs.set("host", "[" + l + "]"); p.label = "qmail-remote literal host with " + std::to_string(n) + " components"; }
      // the host does not answer at all and the table of such hosts is full or short (the table is the package's own state, written by
      // qmail-remote only: arbitrary bytes in it are not an input of the property)
      if (surface == 4 && r.chance(0.25)) { hosts = Json::obj(); hosts.set(std::to_string(0x0a010101), Json::obj().set("kind", "timeout")); p.knobs.set("hosts", hosts).set("timeoutconnect", 5).set("tcpto_table", r.pick(std::vector<std::string>{"full", "full", "partial", "odd"})); p.label = "qmail-remote: timeout with tcpto table " + p.knobs.gets("tcpto_table"); }
      alloc_fault(r, p, "qmail-remote"); break; }
    case 6: {   // helpers: clean requests, spawner commands, corrupt cdb
      p.world = "H"; int k = (int)r.below(3);
      if (k == 0) { p.knobs.set("mode", "clean"); std::string s; int n = (int)r.range(1, 8); for (int q = 0; q < n; q++) { s += r.chance(0.5) ? rnd_bytes(r, (size_t)r.range(0, 300)) : "foop/" + std::string((size_t)r.range(1, 200), '7'); if (r.chance(0.9)) s.push_back('\0'); } p.ops.push(Json::obj().set("op", "stream").set("bytes", s)); alloc_fault(r, p, "qmail-clean"); p.label = "qmail-clean junk"; }
      else { bool l = k == 1; p.knobs.set("mode", l ? "lspawn" : "rspawn"); std::string s; int n = (int)r.range(1, 5);
        for (int q = 0; q < n; q++) { s.push_back((char)r.below(256)); s += r.chance(0.5) ? "1/1" : rnd_bytes(r, (size_t)r.range(0, 150)); s.push_back('\0'); s += std::string((size_t)r.pick(std::vector<int>{0, 10, 3000}), 's'); s.push_back('\0'); s += (r.chance(0.5) ? std::string("user1-") + std::string((size_t)r.pick(std::vector<int>{0, 30, 31, 32, 33, 1000, 50000}), 'e') : rnd_bytes(r, 40)) + "@l.example"; s.push_back('\0'); }
        { std::string c2; for (char ch : s) c2.push_back(ch); s = c2; }
        p.ops.push(Json::obj().set("op", "stream").set("bytes", s));
        Json ag = Json::arr();
        { const std::string Z(1, '\0'); std::string o; int ok2 = (int)r.below(4);
          if (ok2 == 0) o = rnd_bytes(r, (size_t)r.pick(std::vector<int>{0, 1, 127, 128, 2999, 3000, 3001, 100000}));
          else { int segs = (int)r.range(1, 5); for (int s2 = 0; s2 < segs; s2++) { o += r.pick(std::vector<std::string>{"r", "h no\n", "s later\n", "K accepted " + std::string((size_t)r.pick(std::vector<int>{0, 10, 3000}), 'k'), "Z deferred", "D failed", "", "x"}); if (s2 + 1 < segs || r.chance(0.5)) o += Z; } }
          ag.push(Json::obj().set("out", o).set("code", (long long)(r.chance(0.6) ? 0 : r.below(256)))); }
        p.knobs.set("agents", ag);
        if (l && r.chance(0.6)) { p.knobs.set("assign", "+user:user1:1001:1001:/home/user1:-::\n=x:user1:1001:1001:/home/user1:::\n+:alias:7790:2108:/var/qmail/alias:-::\n.\n"); Json fl = Json::arr(); int nf = (int)r.range(1, 6); for (int q = 0; q < nf; q++) fl.push((long long)r.below(40000)); p.knobs.set("cdb_flip", fl); }
        alloc_fault(r, p, l ? "qmail-lspawn" : "qmail-rspawn"); p.label = std::string(l ? "qmail-lspawn" : "qmail-rspawn") + " junk commands" + (p.knobs.has("cdb_flip") ? " + corrupt cdb" : ""); }
      break; }
    case 7: {   // qmail-send: byte soup on the report channels, hostile control files and envelopes
      p.world = "Q"; Json conf = Json::obj(); conf.set("queuelifetime", 1000); p.knobs.set("conf", conf).set("oracles", oracle_list({"none"}));
      if (r.chance(0.25)) {
        // configuration reread (SIGHUP) that fails half-way, after a control file grew: the maps in use must stay valid
        Json loc = Json::arr(); for (const char *d : {"l.example", "old1.example", "old2.example", "zz.example"}) loc.push(d); conf.set("locals", loc);
        Json vd = Json::arr(); vd.push("v.example:alias-v"); vd.push(".w.example:alias-w"); conf.set("virtualdomains", vd); p.knobs.set("conf", conf);
        p.ops.push(Json::obj().set("op", "boot"));
        auto inj = [&](const char *id) { Json in = Json::obj(); in.set("op", "inject").set("id", id).set("sender", "s@x.example").set("body_len", 50).set("body_seed", 1); Json rc = Json::arr(); for (const char *a : {"a@old1.example", "b@L.Example", "c@v.example", "d@x.w.example", "e@r.example", "f@zz.example"}) if (r.chance(0.7)) rc.push(a); if (rc.a.empty()) rc.push("a@old1.example"); in.set("rcpts", rc); p.ops.push(in); };
        inj("m1"); p.ops.push(Json::obj().set("op", "yield").set("n", (long long)r.range(50, 400)));
        int rounds = (int)r.range(1, 3);
        for (int q = 0; q < rounds; q++) {
          std::string big; int nl = (int)r.pick(std::vector<int>{3, 40, 400}); for (int z = 0; z < nl; z++) big += "grown" + std::to_string(z) + ".example\n"; big += "l.example\nold1.example\n";
          std::string which = r.chance(0.5) ? "locals" : "virtualdomains";
          p.ops.push(Json::obj().set("op", "control").set("file", which).set("content", which == "locals" ? big : "v.example:alias-v\n" + std::string((size_t)nl * 20, 'v') + ".example:alias-x\n"));
          Fault f; f.actor = "qmail-send"; f.call = r.pick(std::vector<CallId>{C_OPEN, C_READ}); f.path = r.chance(0.5) ? "/control/virtualdomains" : "/control/locals"; f.nth = (int)r.range(2, 4) + q; f.kind = "error"; f.err = r.pick(std::vector<int>{EIO, EACCES, ENOMEM}); p.faults.push_back(f);
          p.ops.push(Json::obj().set("op", "signal").set("to", "qmail-send").set("sig", "HUP")); p.ops.push(Json::obj().set("op", "yield").set("n", (long long)r.range(20, 300)));
          inj(q == 0 ? "m2" : q == 1 ? "m3" : "m4"); p.ops.push(Json::obj().set("op", "yield").set("n", (long long)r.range(50, 400)));
        }
        p.ops.push(Json::obj().set("op", "settle").set("max_s", 5000)); p.knobs.set("max_sim_s", 100000).set("default_verdict", "K");
        p.label = "qmail-send failing configuration reread"; break;
      }
      if (r.chance(0.3)) {
        // reports around REPORTMAX for a message already past its lifetime: the daemon cuts the text, turns the deferral into a failure
        // and appends its own sentence; the result goes to the log and into the bounce record
        conf.set("queuelifetime", 0); p.knobs.set("conf", conf);
        p.ops.push(Json::obj().set("op", "boot"));
        for (const char *a : {"a@l.example", "b@r.example"}) { Json sc = Json::obj(); sc.set("op", "script").set("rcpt", a); Json at = Json::arr(); at.push(Json::obj().set("v", "Z").set("text", r.chance(0.5) ? "later\n" : long_text(r))); at.push(Json::obj().set("v", r.pick(std::vector<std::string>{"Z", "Z", "D", "K"})).set("text", long_text(r))); sc.set("attempts", at); p.ops.push(sc); }
        Json in = Json::obj(); in.set("op", "inject").set("id", "m1").set("sender", "s@x.example").set("body_len", 50).set("body_seed", 1); Json rc = Json::arr(); rc.push("a@l.example"); rc.push("b@r.example"); in.set("rcpts", rc); p.ops.push(in);
        p.ops.push(Json::obj().set("op", "settle").set("max_s", 5000)); p.knobs.set("max_sim_s", 100000).set("default_verdict", "K");
        alloc_fault(r, p, "qmail-send"); p.label = "qmail-send: reports around REPORTMAX for a message past its lifetime"; break;
      }
      Json raw = Json::obj(); int k = (int)r.below(6);
      if (k == 0) raw.set("locals", std::string(1000000, 'l')); else if (k == 1) raw.set("virtualdomains", rnd_bytes(r, 5000)); else if (k == 2) raw.set("percenthack", "l.example"); else if (k == 3) raw.set("concurrencyremote", "99999999999999999999\n"); else if (k == 4) raw.set("queuelifetime", "-5\n"); else raw.set("doublebounceto", std::string(70000, 'd'));
      p.knobs.set("control_raw", raw);
      p.ops.push(Json::obj().set("op", "boot"));
      Json inj = Json::obj(); inj.set("op", "inject").set("id", "m1").set("sender", r.chance(0.5) ? rnd_bytes(r, 40) : "s@x.example").set("body_len", 100).set("body_seed", 1);
      { std::string sdr = inj.gets("sender"); for (auto &c : sdr) if (!c) c = '0'; inj.set("sender", sdr); }
      Json rc = Json::arr(); rc.push("u%" + std::string((size_t)r.pick(std::vector<int>{1, 500, 1000}), 'p') + "%l.example@l.example"); rc.push(std::string((size_t)r.pick(std::vector<int>{1, 900, 1002}), 'r')); rc.push("a@r.example"); inj.set("rcpts", rc); p.ops.push(inj);
      for (int q = 0; q < 4; q++) p.ops.push(Json::obj().set("op", "junk").set("chan", (int)r.below(2)).set("after", (long long)r.below(3)).set("bytes", r.chance(0.5) ? rnd_bytes(r, (size_t)r.range(1, 300)) : std::string(1, (char)r.below(256)) + std::string((size_t)r.pick(std::vector<int>{9998, 9999, 10000, 10001, 50000}), 'Z') + std::string(1, '\0')));
      p.ops.push(Json::obj().set("op", "settle").set("max_s", 5000)); p.knobs.set("max_sim_s", 100000);
      alloc_fault(r, p, "qmail-send"); p.label = "qmail-send hostile reports/control kind " + std::to_string(k); break; }
    case 8: {   // qmail-local: hostile .qmail, arguments, messages
      p.world = "L"; p.knobs.set("oracles", oracle_list({"none"}));
      Json home = Json::obj(); home.set("path", "/home/user1").set("mode", 0755); Json files = Json::arr(); int k = (int)r.below(5);
      std::string dq = k == 0 ? std::string(1000000, '#') : k == 1 ? rnd_bytes(r, 3000) : k == 2 ? std::string(5000, '\n') + "|exit 0\n" : k == 3 ? "&" + std::string(100000, 'f') + "@x\n" : [&] { std::string s; for (int q = 0; q < 3000; q++) s += "&f" + std::to_string(q) + "@r.example\n"; return s; }();
      // (generator of its own, so the other plans of this surface keep their draws) three plans in ten: short structured files whose lines
      // begin with blanks, tabs or nothing before a type character - the two passes over the file (count the forwards, then fill the
      // array) must agree on every line, whatever they take it for
      { Rng r3(mix64(p.seed, 0x20c8)); if (r3.chance(0.3)) { dq.clear(); int nl = (int)r3.range(1, 40); for (int q = 0; q < nl; q++) { dq += r3.pick(std::vector<std::string>{"", "", " ", "\t", "  ", " \t ", "\r", "\x0b"}); dq += r3.pick(std::vector<std::string>{"#c", "./Mailbox", "./Maildir/", "/abs/Mailbox", "|exit 0", "&f@r.example", "f@r.example", "+x", "", " ", "&", "#", "|", "."}); dq += "\n"; } if (r3.chance(0.2)) dq.pop_back(); k = 5; } }
      files.push(Json::obj().set("name", ".qmail").set("content", dq).set("mode", 0600)); files.push(Json::obj().set("name", ".qmail-default").set("content", "./Mailbox\n").set("mode", 0600));
      home.set("files", files); Json md = Json::arr(); md.push("Maildir"); home.set("maildirs", md).set("mbox", "Mailbox").set("mbox_initial", ""); p.knobs.set("home", home);
      Json d = Json::obj(); d.set("op", "deliver").set("id", "d1").set("ext", r.chance(0.5) ? std::string() : std::string((size_t)r.pick(std::vector<int>{1, 7, 70, 5000}), 'e') + "-default").set("dash", r.chance(0.5) ? "" : "-").set("local", std::string((size_t)r.pick(std::vector<int>{1, 100, 10000}), 'l')).set("host", std::string((size_t)r.pick(std::vector<int>{1, 100, 10000}), 'h') + ".x.y.z").set("sender", r.chance(0.5) ? rnd_bytes(r, 200) : "s@x").set("msg", r.chance(0.5) ? rnd_bytes(r, 5000) : std::string(100000, 'm')).set("wait", true);
      { std::string sdr = d.gets("sender"); for (auto &c : sdr) if (!c) c = '0'; d.set("sender", sdr); }
      p.ops.push(d); alloc_fault(r, p, "qmail-local"); p.label = "qmail-local hostile .qmail kind " + std::to_string(k); break; }
    case 9: case 10: {   // qmail-inject: hostile headers and address lists
      p.world = "I"; std::string h; int k = (int)r.below(9);
      if (k == 0) h = "To: " + std::string(10000, '(') + "x" + std::string(10000, ')') + " a@b\n\nbody\n";
      else if (k == 1) { h = "To: "; for (int q = 0; q < 5000; q++) h += "a" + std::to_string(q) + "@b, "; h += "z@y\n\n"; }
      else if (k == 2) h = "To: \"" + std::string(50000, '\\') + "\"@x\nCc: <@a,@b:" + std::string(3000, 'c') + "@[" + std::string(3000, '1') + "]>\n\n";
      else if (k == 3) h = "To: group: a@b, c@d;, <e@f> (comment (nested (deep))) , \"q\\\"uoted\"@[1.2.3.4]\n\tfolded@line\nBcc: hidden@x\nFrom: " + rnd_bytes(r, 200) + "\n\n";
      else if (k == 4) h = std::string(200000, 'H') + ": v\nTo: a@b\n\n";
      else if (k == 5) h = "To: a@b\nDate: " + rnd_bytes(r, 100) + "\nMessage-ID: " + std::string(5000, '<') + "\nReturn-Path: " + std::string(2000, '>') + "\nResent-To: r@s\nMail-Followup-To: " + std::string(3000, ',') + "\n\n";
      else if (k == 6) h = "To: " + rnd_bytes(r, (size_t)r.range(1, 3000)) + "\n\nb\n";
      else if (k == 7) h = "To: a@b\nTo: c@d\nNotice-Requested-Upon-Delivery-To: " + std::string(4000, 'n') + "@x\nReturn-Receipt-To: " + std::string(2000, '"') + "\n\n";
      else h = mutate(r, "From: Joe <joe@x.example>\nTo: a@b (c), \"d e\"@[1.2.3.4], g: h@i, j@k;\nCc: <@r1,@r2:l@m>\nBcc: n@o\nSubject: s\n\nbody\n");
      for (auto &c : h) if (!c && r.chance(0.7)) c = 'N';
      p.knobs.set("stdin", h);
      Json args = Json::arr(); int a = (int)r.below(6); if (a == 0) args.push("-a"), args.push("x@y"); else if (a == 1) args.push("-h"); else if (a == 2) args.push("-H"), args.push("r@s"); else if (a == 3) args.push("-f" + std::string((size_t)r.pick(std::vector<int>{1, 1000, 5000}), 'f')); else if (a == 4) args.push("-n"); p.knobs.set("args", args);
      Json env = Json::obj(); if (r.chance(0.5)) env.set("QMAILINJECT", r.pick(std::vector<std::string>{"c", "s", "f", "i", "r", "m", "csfirm"})); if (r.chance(0.3)) env.set("QMAILNAME", std::string((size_t)r.pick(std::vector<int>{1, 5000}), 'N')); if (r.chance(0.3)) env.set("QMAILHOST", std::string((size_t)r.pick(std::vector<int>{1, 3000}), 'h')); if (r.chance(0.2)) env.set("QMAILMFTFILE", "/home/user1/mft"); p.knobs.set("env", env);
      alloc_fault(r, p, "qmail-inject"); p.label = "qmail-inject hostile header kind " + std::to_string(k); break; }
    default: {   // qmail-queue + qmail-send: envelopes with extreme addresses through the real queue
      p.world = "Q"; p.knobs.set("oracles", oracle_list({"none"}));
      p.ops.push(Json::obj().set("op", "boot"));
      Json inj = Json::obj(); std::string env = "F" + rnd_bytes(r, (size_t)r.range(0, 1010)); for (auto &c : env) if (!c) c = 'z'; env.push_back('\0'); int nr = (int)r.range(0, 5); for (int q = 0; q < nr; q++) { std::string a = rnd_bytes(r, (size_t)r.pick(std::vector<int>{0, 1, 100, 1001, 1002})); for (auto &c : a) if (!c) c = 'z'; env += "T" + a; env.push_back('\0'); } if (r.chance(0.8)) env.push_back('\0');
      inj.set("op", "inject").set("id", "m1").set("env_raw", env).set("body_len", (long long)r.pick(std::vector<int64_t>{0, 255, 256, 8192, 60000})).set("body_seed", 3); p.ops.push(inj);
      p.ops.push(Json::obj().set("op", "settle").set("max_s", 3000)); p.knobs.set("max_sim_s", 100000);
      alloc_fault(r, p, r.chance(0.5) ? "qmail-queue" : "qmail-send"); p.label = "queue: hostile envelope"; break; }
  }
  return true;
}

static RegisterProperty reg_c20(PropertyDef{
    "C20", "ALL", "exploration", "instrumented execution inside the deterministic simulator: every program is built with AddressSanitizer and UndefinedBehaviourSanitizer; hostile generators drive each untrusted-input surface, with truncation at random bytes, seeded stream segmentation and allocation failure at a chosen allocation of the program under test", gen_c20,
    "plan i = f(VERIF_SEED, i), rotating over 12 surfaces: SMTP streams (addresses around 900/1003 bytes, MB-long lines, hostile HELO/TCPREMOTE*), QMTP and QMQP netstrings (lengths near 2^31 and beyond 2^64 without data, over-long sender/recipients, NUL bytes, nested length garbage), POP3 sessions through qmail-pop3d and qmail-popup, qmail-remote against non-numeric/huge/3000-line replies and garbled resolver packets (compression loops, cut records, absurd counts, 200 answers, rdlength past the end), "
    "qmail-clean/qmail-lspawn/qmail-rspawn junk (with bit-flipped users/cdb and 100 kB agent output), qmail-send under byte soup on its report channels and hostile control files, qmail-local with MB-sized/NUL-ridden .qmail files and 10 kB arguments, qmail-inject with 10^4-deep comments, 5000 addresses and binary headers, qmail-queue envelopes. 35% of plans fail one allocation of the target; streams are cut at a random byte in half of the network plans. "
    "Any sanitizer report, fatal signal or hang of a worker is replayed in a fresh process and reported. non-trivial = the target program ran; distinct = distinct (choice stream, trace) hashes",
    {"every program of the suite that runs in a world (ASan+UBSan instrumented)"}, {"the hostile peers of each world"}, q_assume(), "hash of the target's output", 30000, 400000});

}  // namespace sim

// p_props.cc - plan generator for C19 (POP3 server)
#include "../world.h"
#include "gen_util.h"

namespace sim {

static std::string p_message(Rng &r) {
  static const std::vector<std::string> frag = {"Subject: t\n", "From: a@b\n", "\n", ".\n", "..\n", ".leading dot\n", "line\n", "x", "\xff\xfe\n", " \n", "body line\n", "\r\n", ".\r\n"};
  int kind = (int)r.below(8);
  if (kind == 0) return "";
  if (kind == 1) return "no newline at all";
  if (kind == 2) return "\n\nstarts with blank lines\n";
  std::string s = "Subject: m\n"; int nh = (int)r.below(3); for (int q = 0; q < nh; q++) s += "H" + std::to_string(q) + ": v\n"; if (r.chance(0.85)) s += "\n";
  int n = (int)r.range(0, 12); for (int q = 0; q < n; q++) s += frag[r.below(frag.size())];
  if (r.chance(0.3)) s += "partial last";
  if (r.chance(0.1)) s += gen_body(r.next(), (size_t)r.range(500, 3000));
  return s;
}

static std::string p_arg(Rng &r, int n) {
  int k = (int)r.below(16);
  switch (k) {
    case 0: return "0"; case 1: return std::to_string(n + 1); case 2: return "4294967296"; case 3: return "18446744073709551616"; case 4: return "18446744073709551617"; case 5: return "junk"; case 6: return ""; case 7: return "-1";
    case 8: return std::to_string(n ? 1 + (int)r.below((uint64_t)n) : 1) + "x"; case 9: return "1 2 3"; case 10: return "99999999999999999999999";
    default: return std::to_string(n ? 1 + (int)r.below((uint64_t)n) : 1);
  }
}

static bool gen_c19(uint64_t seed, const std::string &tier, uint64_t i, Plan &p) {
  (void)tier;
  p = Plan(); p.property = "C19"; p.world = "P"; p.seed = mix64(mix64(seed, 0xC19), i);
  Rng r(p.seed);
  p.knobs.set("split_p", r.pick(std::vector<double>{0.0, 0.4, 0.9})).set("stick", r.pick(std::vector<double>{0.3, 0.9})).set("dir_shuffle_p", 0.7);
  int n = (int)r.range(0, 8); Json files = Json::arr(); int eligible = 0;
  for (int q = 0; q < n; q++) {
    Json f = Json::obj(); bool cur = r.chance(0.4); std::string base = std::to_string(1000 + q) + ".P" + std::to_string(q) + ".host";
    f.set("dir", cur ? "cur" : "new").set("name", cur ? base + r.pick(std::vector<std::string>{":2,S", ":2,", ":2,RS", ""}) : base);
    int64_t age = r.pick(std::vector<int64_t>{0, 1, 50, 50, 100, 100, 5000, 200000}); if (age > 0) eligible++;
    f.set("age", (long long)age).set("content", p_message(r)); files.push(f);
  }
  // very large messages (sparse files: a short text followed by gigabytes of zero bytes), alone or adding up beyond 4 GiB; such a
  // mailbox is listed, counted, marked and cleaned up, never retrieved (the simulation would have to move the gigabytes)
  bool huge = eligible > 0 && r.chance(0.06);
  if (huge) { int done = 0; for (auto &f : files.a) if (f.geti("age", 0) > 0 && (done == 0 || r.chance(0.5))) { f.set("hole", (long long)r.pick(std::vector<int64_t>{4294967296LL, 4294967296LL - 5, 4294968296LL, 2147483648LL, 1500000000LL, 10000000000LL, 99999999999LL})); done++; } }
  if (r.chance(0.2)) files.push(Json::obj().set("dir", "new").set("name", ".hidden").set("age", 100).set("content", "hidden\n"));
  p.knobs.set("files", files);
  Json tmp = Json::arr(); if (r.chance(0.4)) tmp.push(Json::obj().set("name", "old.1.h").set("age", 200000)); if (r.chance(0.4)) tmp.push(Json::obj().set("name", "fresh.2.h").set("age", 100)); p.knobs.set("tmpfiles", tmp);
  int mode = (int)(i % 8);
  bool popup = mode == 5 || mode == 6; if (popup) p.knobs.set("popup", true);
  if (mode == 7 && r.chance(0.5)) p.knobs.set("as_root", true);
  auto cmd = [&](const std::string &l) { Json o = Json::obj(); o.set("op", "cmd").set("line", l); if (r.chance(0.05)) o.set("lf_only", true); p.ops.push(o); };
  if (popup) {
    int pre = (int)r.range(0, 4); for (int q = 0; q < pre; q++) cmd(r.pick(std::vector<std::string>{"STAT", "LIST", "RETR 1", "DELE 1", "NOOP", "USER", "PASS x", "UIDL", "XYZ", "TOP 1 1", "RSET"}));
    if (r.chance(0.2)) { cmd("QUIT"); p.label = "popup quit before auth"; return true; }
    std::string pass = r.pick(std::vector<std::string>{"secret", "pw with spaces", "wrong", "crash", "p\xc3\xa4ss", "long" + std::string(507, 'p') + " DELE 1 tail", std::string(1100, 'q')});   // (the last two: credentials longer than any buffer size one might guess; they must arrive verbatim)
    if (r.chance(0.7)) { cmd("USER " + r.pick(std::vector<std::string>{"user1", "User One", "u"})); cmd("PASS " + pass); } else cmd("APOP user1 " + r.pick(std::vector<std::string>{"0123456789abcdef0123456789abcdef", "wrong"}));
  }
  cmd("UIDL");   // fixes the numbering for the reference model
  int nc = (int)r.range(0, 30);
  int nmua = 0;
  for (int q = 0; q < nc; q++) {
    int c = (int)r.below(20); std::string l;
    if (huge && (c < 7 || c > 17)) c = 7 + (int)r.below(11);
    if (c < 4) l = "RETR " + p_arg(r, eligible);
    else if (c < 7) l = "TOP " + p_arg(r, eligible) + " " + r.pick(std::vector<std::string>{"0", "1", "2", "5", "1000", "", "x", "4294967296"});
    else if (c < 10) l = "DELE " + p_arg(r, eligible);
    else if (c < 12) l = "LIST" + (r.chance(0.5) ? std::string() : " " + p_arg(r, eligible));
    else if (c < 14) l = "UIDL" + (r.chance(0.5) ? std::string() : " " + p_arg(r, eligible));
    else if (c == 14) l = "STAT"; else if (c == 15) l = "RSET"; else if (c == 16) l = r.pick(std::vector<std::string>{"NOOP", "LAST", "noop", "Stat"});
    else if (c == 17 && r.chance(0.5)) {   // one over-long command line whose tail spells another command: one line is one command, whatever its length
      std::string head = r.pick(std::vector<std::string>{"NOOP", "STAT", "XYZZY", "noop"}); size_t pad = (size_t)r.pick(std::vector<int>{250, 500, 507, 508, 509, 1019, 1020, 1021, 3000});
      l = head + std::string(pad, ' ') + r.pick(std::vector<std::string>{"DELE 1 ", "QUIT", "RSET", "DELE 2"}); }
    else if (c == 17) l = r.pick(std::vector<std::string>{"XYZZY", "", "USER x", "PASS y", "RETR", "DELE", "TOP", "retr 1"});
    else l = "RETR " + std::to_string(eligible ? 1 + (int)r.below((uint64_t)eligible) : 1);
    if (huge) { std::string u = l.substr(0, 4); for (auto &ch : u) ch = (char)toupper((unsigned char)ch); if (u == "RETR" || u.compare(0, 3, "TOP") == 0) l = "STAT"; }
    cmd(l);
    if (mode == 3 && n > 0 && nmua < 2 && r.chance(0.25)) { p.ops.push(Json::obj().set("op", "mua").set("after", (long long)(p.ops.a.size() - (size_t)nmua - (popup ? 0 : 0))).set("act", r.chance(0.5) ? "unlink" : "rename").set("file", (long long)r.below((uint64_t)n))); nmua++; }
  }
  // fix "after" indices: count cmd ops preceding each mua op
  { size_t ccount = 0; for (auto &op : p.ops.a) { if (op.gets("op") == "cmd") ccount++; else if (op.gets("op") == "mua") op.set("after", (long long)ccount); } }
  int ending = (int)r.below(5);
  if (ending <= 2) cmd("QUIT"); else if (ending == 3) p.ops.push(Json::obj().set("op", "close")); else { /* just stop: disconnect without QUIT */ }
  if (mode == 2) p.knobs.set("lockstep", false);
  p.label = std::string(popup ? "popup+" : "") + "pop3d files=" + std::to_string(n) + " commands=" + std::to_string(nc) + (mode == 3 ? " +MUA" : "") + (mode == 2 ? " pipelined" : "") + (ending <= 2 ? " QUIT" : " no-QUIT");
  if (r.chance(0.15)) { Fault f; f.actor = "qmail-pop3d"; f.call = C_MALLOC; f.nth = (int)r.range(1, 40); f.kind = "null"; p.faults.push_back(f); }   // out of memory while the maildir is scanned or a message is sent
  add_short_io(r, p, "qmail-pop3d", 0.25, true);
  return true;
}

static RegisterProperty reg_c19(PropertyDef{
    "C19", "P", "exploration", "deterministic simulation: generated maildirs and POP3 command sequences against the real qmail-pop3d (and qmail-popup with a checkpassword stub), a concurrent reader removing/moving files between commands, disconnects without QUIT; replies and final maildir compared with a reference model of RFC 1939 as qualified by qmail-pop3d(8)", gen_c19,
    "plan i = f(VERIF_SEED, i): maildir of 0-8 messages in new/ and cur/ (empty, no final newline, dot-leading lines, CRLF inside, 8-bit, up to 3 kB; equal mtimes, mtime == now, hidden files, stale and fresh tmp/ files); UIDL then 0-30 commands over all verbs with arguments 0, 1..n, n+1, 2^32, 2^64, 2^64+1, junk, trailing junk, empty; lockstep or pipelined, optional LF-only line ends; "
    "1/8 with a concurrent reader unlinking or renaming a message between commands, 2/8 through qmail-popup (pre-auth commands, USER/PASS/APOP, wrong password, crashing checker), 1/16 as uid 0; ending QUIT (60%), close or plain disconnect. non-trivial = at least one reply beyond the greeting",
    {"qmail-pop3d", "qmail-popup"}, {"checkpassword stub (records descriptor 3, execs the real qmail-pop3d)", "POP3 client", "concurrent mail reader"}, q_assume(), "hash of the server's output", 3000, 120000});

}  // namespace sim

// q_props.cc - plan generators for the world-Q properties (C01, C02, C03, C04, ...)
#include "../world.h"
#include "gen_util.h"
#include <errno.h>

namespace sim {

void base_knobs(Rng &r, Plan &p, bool timing_sensitive) {
  static const int caps[] = {512, 1024, 4096, 65536};
  int cap = caps[r.below(4)]; int pbuf = r.chance(0.5) ? 512 : 4096; if (pbuf > cap) pbuf = cap;
  p.knobs.set("pipe_cap", cap).set("pipe_buf", pbuf).set("ino_policy", (int)r.below(3));
  // file systems with 64-bit inode numbers: message numbers at and beyond 2^32 (a generator of its own, so that the other draws stay put)
  { Rng ri(mix64(p.seed, 0x1B0)); if (ri.chance(0.15)) p.knobs.set("ino_base", (long long)ri.pick(std::vector<int64_t>{4294967296LL - 20, 4294967296LL, 4294967296LL + 5, 8589934592LL + 1000, 1099511627776LL + 7, 1000000000000LL})); }
  static const double sticks[] = {0.0, 0.3, 0.7, 0.9, 0.98};
  p.knobs.set("stick", sticks[r.below(5)]);
  static const double splits[] = {0.0, 0.2, 0.6};
  p.knobs.set("split_p", splits[r.below(3)]).set("dir_shuffle_p", r.chance(0.5) ? 0.5 : 0.0);
  if (!timing_sensitive && r.chance(0.2)) p.knobs.set("tick_p", r.chance(0.5) ? 0.01 : 0.1);
  if (r.chance(0.25)) {
    p.knobs.set("pct", true); Json pts = Json::arr(); int d = (int)r.range(1, 4);
    for (int i = 0; i < d; i++) pts.push((long long)r.range(1, 1500)); p.knobs.set("pct_points", pts);
  }
}

std::string rand_text(Rng &r, size_t maxlen) {
  static const char *frag[] = {"no such user", "mailbox full", "\n", "\n\n", "<x@y>:\n", "try again later", "\xe9\xfc", "Remote host said: 550", " ", "a", "\n<evil@l.example>:\nforged", "/", "%"};
  std::string s; size_t n = r.below(5);
  for (size_t i = 0; i < n && s.size() < maxlen; i++) s += frag[r.below(13)];
  if (r.chance(0.7) && !s.empty() && s.back() != '\n') s += "\n";
  return s;
}

// report texts around the daemon's REPORTMAX (10000): the daemon cuts them there and, for a message past its lifetime, appends its own
// sentence behind the cut
std::string long_text(Rng &r) {
  size_t n = (size_t)r.pick(std::vector<int>{9900, 9925, 9929, 9930, 9935, 9960, 9990, 9997, 9998, 9999, 10000, 10001, 10050, 12000, 30000});
  std::string s; while (s.size() < n) { s += "line " + std::to_string(s.size()) + " of a very long report"; s += r.chance(0.8) ? "\n" : " "; } s.resize(n); if (r.chance(0.5)) s.back() = '\n';
  return s;
}

Json oracle_list(std::initializer_list<const char *> l) { Json a = Json::arr(); for (auto x : l) a.push(x); return a; }

// ------------------------------------------------------------------------------------------------ C03 / C04 histories
static void gen_history(Rng &r, Plan &p, int mode, bool c04) {
  // messages, recipients, scripts
  int nmsg = (int)r.range(1, 4);
  int64_t lifetime = r.pick(std::vector<int64_t>{0, 1, 100, 5000, 100000, 604800});
  Json conf = Json::obj();
  conf.set("queuelifetime", (long long)lifetime);
  if (c04 || r.chance(0.5)) { conf.set("concurrencylocal", (int)r.range(0, 5)); conf.set("concurrencyremote", (int)r.range(0, 5)); }
  if (r.chance(0.5)) { p.knobs.set("spawn_limit_local", r.chance(0.2) ? 255 : (int)r.range(0, 5)); p.knobs.set("spawn_limit_remote", r.chance(0.2) ? 255 : (int)r.range(0, 5)); }
  // a channel with zero capacity can never drain: keep at least 1 where we demand draining
  bool can_drain = true;
  { int64_t cl = conf.geti("concurrencylocal", 10), cr = conf.geti("concurrencyremote", 20), sl = p.knobs.geti("spawn_limit_local", 120), sr = p.knobs.geti("spawn_limit_remote", 120);
    if (cl == 0 || cr == 0 || sl == 0 || sr == 0) can_drain = false; }
  p.knobs.set("conf", conf);
  p.ops.push(Json::obj().set("op", "boot"));
  int rid = 0;
  std::vector<Json> later;
  for (int m = 0; m < nmsg; m++) {
    Json inj = Json::obj(); inj.set("op", "inject").set("id", "m" + std::to_string(m + 1));
    std::string sender; int sf = (int)r.below(6);
    if (sf == 0) sender = ""; else if (sf == 1) sender = "#@[]"; else if (sf == 2) sender = "owner-@lists.example-@[]"; else sender = "s" + std::to_string(m) + "@x.example";
    inj.set("sender", sender);
    Json rc = Json::arr(); int nr = (int)r.range(1, 4);
    for (int q = 0; q < nr; q++) {
      bool local = r.chance(0.5); std::string addr = (local ? "l" : "r") + std::to_string(++rid) + (local ? "@l.example" : "@r.example");
      rc.push(addr);
      Json sc = Json::obj(); sc.set("op", "script").set("rcpt", addr); Json at = Json::arr(); int na = (int)r.range(0, 3);
      for (int a = 0; a < na; a++) {
        Json x = Json::obj(); int v = (int)r.below(10);
        if (v < 3) x.set("v", "K"); else if (v < 6) x.set("v", "Z"); else if (v < 8) x.set("v", "D"); else if (v == 8) x.set("v", r.chance(0.5) ? "X" : "k"); else x.set("v", "");
        x.set("text", rand_text(r, 200)); x.set("lat", (long long)(r.chance(0.5) ? 0 : r.range(1, 50)));
        at.push(x);
      }
      // the final answer is always K or D so that the history is finite
      Json fin = Json::obj(); fin.set("v", r.chance(0.6) ? "K" : "D").set("text", rand_text(r, 100)).set("lat", (long long)r.below(5)); at.push(fin);
      sc.set("attempts", at); p.ops.push(sc);
    }
    inj.set("rcpts", rc).set("body_len", (long long)r.pick(std::vector<int64_t>{0, 1, 50, 300, 2100})).set("body_seed", (long long)r.below(1000));
    if (r.chance(0.6)) p.ops.push(inj); else later.push_back(inj);
    if (r.chance(0.3)) p.ops.push(Json::obj().set("op", "yield").set("n", (long long)r.range(1, 60)));
  }
  auto sig = [&](const char *s) { p.ops.push(Json::obj().set("op", "signal").set("to", "qmail-send").set("sig", s)); };
  auto nap = [&]() { if (r.chance(0.5)) p.ops.push(Json::obj().set("op", "yield").set("n", (long long)r.range(1, 400))); else p.ops.push(Json::obj().set("op", "sleep").set("s", (long long)r.range(1, 3000))); };
  int nsig = (int)r.below(3);
  for (int s = 0; s < nsig; s++) { nap(); sig(r.chance(0.5) ? "ALRM" : "HUP"); }
  for (auto &inj : later) { nap(); p.ops.push(inj); }
  // disturbances
  if (mode == 1) {  // clean stop and restart
    // ... sometimes after a configuration reread (HUP) that failed half-way while deliveries were in flight: the daemon keeps its old
    // configuration and must otherwise be exactly where it was (same directory, same files) when the reports come in
    if (r.chance(0.5)) { Fault f; f.actor = "qmail-send#1"; f.call = r.pick(std::vector<CallId>{C_OPEN, C_READ}); f.path = r.chance(0.5) ? "/control/locals" : "/control/virtualdomains"; f.nth = 2; f.kind = "error"; f.err = r.pick(std::vector<int>{ENFILE, EIO, ENOMEM, EACCES}); p.faults.push_back(f);
      for (auto &op : p.ops.a) if (op.gets("op") == "script" && r.chance(0.6)) { Json &at = op.at("attempts"); if (!at.a.empty()) at.a[0].set("lat", (long long)r.range(20, 200)); }   // slow first attempts: in flight across the HUP
      // the HUP comes shortly after the first injection, while its deliveries are out
      { Json ops2 = Json::arr(); bool placed = false; size_t last_inj = 0, idx = 0; for (auto &op : p.ops.a) { if (op.gets("op") == "inject") last_inj = idx; idx++; } bool after_last = r.chance(0.6); idx = 0;   // (after the last one: from then on only reports arrive, nothing makes the daemon look at a directory)
        for (auto &op : p.ops.a) { ops2.push(op); bool here = op.gets("op") == "inject" && (!after_last || idx == last_inj); idx++; if (!placed && here) { ops2.push(Json::obj().set("op", "yield").set("n", (long long)r.range(20, 500))); ops2.push(Json::obj().set("op", "signal").set("to", "qmail-send").set("sig", "HUP")); placed = true; } } p.ops = ops2; if (!placed) { p.ops.push(Json::obj().set("op", "yield").set("n", (long long)r.range(50, 600))); sig("HUP"); } } }
    nap(); p.ops.push(Json::obj().set("op", "shutdown").set("max_s", 200000)); p.ops.push(Json::obj().set("op", "boot"));
  } else if (mode == 2) {  // process crash of a daemon before one of its calls
    Fault f; f.actor = r.chance(0.8) ? "qmail-send" : "qmail-clean"; f.call = r.chance(0.5) ? C_ANY : r.pick(std::vector<CallId>{C_UNLINK, C_WRITE, C_OPEN, C_FSYNC}); f.nth = (int)r.range(1, f.call == C_ANY ? 400 : 25); f.kind = "kill";
    p.faults.push_back(f);
  } else if (mode == 3 || mode == 4) {  // machine crash: completed writes kept / unsynced data lost
    Fault f; f.actor = r.chance(0.8) ? "qmail-send" : (r.chance(0.5) ? "qmail-clean" : "qmail-queue"); f.call = r.chance(0.5) ? C_ANY : r.pick(std::vector<CallId>{C_UNLINK, C_WRITE, C_OPEN, C_FSYNC, C_LINK});
    f.nth = (int)r.range(1, f.call == C_ANY ? 400 : 25); f.kind = "crash"; f.image = mode == 3 ? "best" : (r.chance(0.5) ? "worst" : "random");
    p.faults.push_back(f);
    if (mode == 4) p.knobs.set("lossy", true);
    if (r.chance(0.3)) { Fault g = f; g.nth = (int)r.range(1, 300); p.faults.push_back(g); }
  } else if (mode == 5) {  // one failing call in a daemon
    Fault f; f.actor = r.chance(0.85) ? "qmail-send" : "qmail-clean";
    f.call = r.pick(std::vector<CallId>{C_OPEN, C_READ, C_WRITE, C_FSYNC, C_UNLINK, C_STAT, C_UTIMES, C_FSTAT, C_OPENDIR});
    f.nth = (int)r.range(1, 30); f.kind = "error"; f.err = r.pick(std::vector<int>{EIO, ENOSPC, ENOMEM, ENFILE});
    if (f.call == C_WRITE) f.path = r.chance(0.7) ? "/queue/" : "";
    p.faults.push_back(f);
  } else if (mode == 6) {  // allocation failure in the daemon
    Fault f; f.actor = "qmail-send"; f.call = C_MALLOC; f.nth = (int)r.range(1, 400); f.kind = "null"; p.faults.push_back(f);
  } else if (mode == 7) {  // spawner dies with a delivery outstanding
    // replace one attempt by "die"
    for (auto &op : p.ops.a) if (op.gets("op") == "script" && r.chance(0.4)) { Json &at = op.at("attempts"); at.a[0].set("die", true); break; }
  } else if (mode == 8) {  // bounce injection trouble: a fault inside the qmail-queue that qmail-send runs
    Fault f; f.actor = "qmail-queue"; f.call = r.pick(std::vector<CallId>{C_WRITE, C_FSYNC, C_LINK, C_OPEN, C_READ}); f.nth = (int)r.range(1, 12); f.kind = "error"; f.err = EIO;
    if (r.chance(0.25)) { f.call = C_ANY; f.nth = (int)r.range(1, 30); f.kind = "kill"; }   // the injecting child is killed (a death by signal is not success)
    p.faults.push_back(f);
  } else if (mode == 10) {
    // a recipient list longer than the daemon's 128-byte read buffer, and the read that fails is the second or a later one of a pass:
    // some recipients have been handed out, the rest are still in the file. Before that another message has come and gone, so every
    // job slot, channel slot and buffer in the daemon has been used once already.
    bool local = r.chance(0.5); std::string dom = local ? "@l.example" : "@r.example";
    Json s0 = Json::obj(); s0.set("op", "script").set("rcpt", "first" + dom); { Json a = Json::arr(); a.push(Json::obj().set("v", r.chance(0.8) ? "K" : "D").set("text", "done").set("lat", 0)); s0.set("attempts", a); }
    Json i0 = Json::obj(); { Json rc = Json::arr(); rc.push("first" + dom); i0.set("op", "inject").set("id", "m0").set("sender", "s0@x.example").set("rcpts", rc).set("body_len", 20).set("body_seed", 7); }
    Json iw = Json::obj(); Json rcw = Json::arr(); int nw = (int)r.range(9, 16); std::vector<Json> scw;
    for (int q = 0; q < nw; q++) { std::string a = "wide" + std::to_string(q) + dom; rcw.push(a); Json sc = Json::obj(); sc.set("op", "script").set("rcpt", a); Json at = Json::arr(); at.push(Json::obj().set("v", r.chance(0.85) ? "K" : "D").set("text", "fin").set("lat", (long long)r.below(3))); sc.set("attempts", at); scw.push_back(sc); }
    if (r.chance(0.5)) { std::string a = std::string("other") + (local ? "@r.example" : "@l.example"); rcw.push(a); }
    iw.set("op", "inject").set("id", "mw").set("sender", "sw@x.example").set("rcpts", rcw).set("body_len", 30).set("body_seed", 9);
    Json ops2 = Json::arr(); bool placed = false;
    for (auto &op : p.ops.a) { ops2.push(op); if (!placed && op.gets("op") == "boot") { ops2.push(s0); for (auto &sc : scw) ops2.push(sc); ops2.push(i0); ops2.push(Json::obj().set("op", "settle").set("max_s", 5)); ops2.push(iw); ops2.push(Json::obj().set("op", "settle").set("max_s", 5)); placed = true; } }
    p.ops = ops2;
    { Json &cf = p.knobs.at("conf"); cf.set("concurrencylocal", 20).set("concurrencyremote", 20); p.knobs.erase("spawn_limit_local"); p.knobs.erase("spawn_limit_remote"); can_drain = true; }
    Fault f; f.actor = "qmail-send#1"; f.call = C_READ; f.path = local ? "/local/" : "/remote/"; f.nth = (int)r.range(2, 6); f.kind = "error"; f.err = r.pick(std::vector<int>{EIO, EIO, ENOMEM, EINTR, ESTALE}); p.faults.push_back(f);
  } else if (mode == 9) {  // one failing call of the daemon on a named kind of queue file, early in that file's use (rare paths: pqadd, getinfo, markdone, addbounce, injectbounce, job_close)
    Fault f; f.actor = "qmail-send"; f.path = r.pick(std::vector<std::string>{"/bounce/", "/info/", "/local/", "/remote/", "/mess/", "/todo/"});
    f.call = r.pick(std::vector<CallId>{C_STAT, C_OPEN, C_READ, C_WRITE, C_FSYNC, C_UNLINK, C_UTIMES});
    if (r.chance(0.2)) { f.path = "/bounce/"; f.call = C_READ; }   // the record being copied into the bounce: the read that ends the copy early
    bool twice = r.chance(0.25);   // the daemon's look at a channel file fails twice in a row: when a job closes it asks whether the other channel still has work, and asks again, more carefully, before it declares the message done
    if (twice) { f.call = C_STAT; f.path = r.chance(0.5) ? "/remote/" : "/local/"; }
    f.nth = (int)r.range(1, 4); if (twice) f.nth = (int)r.range(1, 8); f.kind = "error"; f.err = r.pick(std::vector<int>{EIO, ENOMEM, ENFILE, EACCES, EINTR, EINTR});   // (EINTR: the daemon's handlers are installed without SA_RESTART; an interrupted fsync or write has not happened)
    if (r.chance(0.5)) {   // the startup scan (pqstart/pqadd) only sees messages that exist at boot: stop, restart, and fault the second daemon
      nap(); p.ops.push(Json::obj().set("op", "shutdown").set("max_s", 200000)); p.ops.push(Json::obj().set("op", "boot"));
      f.actor = "qmail-send#2"; if (r.chance(0.7)) { f.call = C_STAT; f.path = r.pick(std::vector<std::string>{"/info/", "/local/", "/remote/", "/remote/", "/todo/"}); }
      if (r.chance(0.3)) { f.call = C_OPENDIR; f.path = "/queue/info/"; f.nth = (int)r.range(1, 23); f.err = r.pick(std::vector<int>{EMFILE, ENFILE, ENOMEM}); }   // the startup scan cannot open one of the split directories at first
      // keep recipients unfinished across the restart: a first attempt that is deferred
      for (auto &op : p.ops.a) if (op.gets("op") == "script" && r.chance(0.7)) { Json &at = op.at("attempts"); Json z = Json::obj(); z.set("v", "Z").set("text", "deferred").set("lat", (long long)r.below(5)); at.a.insert(at.a.begin(), z); }
    }
    if (twice && r.chance(0.5)) {
      // the plain case, first in the run: one message for both channels, one side finishes at once while the other is deferred, and both
      // looks at the deferred side's file fail
      bool lfirst = r.chance(0.5); std::string fin = lfirst ? "qa@l.example" : "qa@r.example", def = lfirst ? "qb@r.example" : "qb@l.example";
      Json s1 = Json::obj(); s1.set("op", "script").set("rcpt", fin); Json a1 = Json::arr(); a1.push(Json::obj().set("v", r.chance(0.7) ? "K" : "D").set("text", "done").set("lat", 0)); s1.set("attempts", a1);
      Json s2 = Json::obj(); s2.set("op", "script").set("rcpt", def); Json a2 = Json::arr(); a2.push(Json::obj().set("v", "Z").set("text", "later").set("lat", (long long)r.range(3, 30))); a2.push(Json::obj().set("v", "K").set("text", "ok").set("lat", 0)); s2.set("attempts", a2);
      Json inj = Json::obj(); Json rc = Json::arr(); rc.push(fin); rc.push(def); inj.set("op", "inject").set("id", "m0").set("sender", "s0@x.example").set("rcpts", rc).set("body_len", 20).set("body_seed", 7);
      Json ops2 = Json::arr(); bool placed = false; for (auto &op : p.ops.a) { ops2.push(op); if (!placed && op.gets("op") == "boot") { ops2.push(s1); ops2.push(s2); ops2.push(inj); ops2.push(Json::obj().set("op", "settle").set("max_s", 2)); placed = true; } } p.ops = ops2;
      f.actor = "qmail-send#1"; f.call = C_STAT; f.path = lfirst ? "/remote/" : "/local/"; f.nth = 1;
    }
    p.faults.push_back(f);
    if (twice) { Fault g = f; p.faults.push_back(g); }   // (a fault counts the calls it is asked about; the call on which an earlier fault fires is not among them: same number = the very next call)
    else if (r.chance(0.3)) { Fault g = f; g.nth += (int)r.range(1, 3); p.faults.push_back(g); }
    // the same call failing twice in a row on the same kind of file (a file server that stays away for a moment): the first failure is
    // usually survived by a second look - which then fails too
    else if (r.chance(0.4)) { Fault g = f; p.faults.push_back(g); if (r.chance(0.5)) { Fault h = f; p.faults.push_back(h); } }
  }
  int64_t horizon = lifetime + 400000;
  p.ops.push(Json::obj().set("op", "settle").set("max_s", (long long)horizon));
  if (mode >= 2) {
    for (int q = 0; q < 3; q++) { p.ops.push(Json::obj().set("op", "boot")); p.ops.push(Json::obj().set("op", "settle").set("max_s", (long long)horizon)); }
  }
  p.knobs.set("expect_drain", can_drain);
  p.knobs.set("max_sim_s", (long long)(horizon * 6 + 1000000));
}

static const char *kModeNames[] = {"fault-free", "term-restart", "process-crash", "machine-crash-kept", "machine-crash-lossy", "io-error", "alloc-fail", "spawner-death", "bounce-injection-fault", "queue-file-io-error", "mid-pass-read-failure"};

static bool gen_c03(uint64_t seed, const std::string &tier, uint64_t i, Plan &p) {
  (void)tier;
  p = Plan(); p.property = "C03"; p.world = "Q"; p.seed = mix64(mix64(seed, 0xC03), i);
  Rng r(p.seed);
  static const int modes[] = {0, 0, 9, 1, 2, 2, 3, 4, 4, 5, 9, 6, 7, 8, 9, 10};
  int mode = modes[i % 16];
  base_knobs(r, p, false);
  gen_history(r, p, mode, false);
  p.knobs.set("oracles", oracle_list({"c03"}));
  p.label = std::string("history/") + kModeNames[mode];
  return true;
}

static bool gen_c04(uint64_t seed, const std::string &tier, uint64_t i, Plan &p) {
  (void)tier;
  p = Plan(); p.property = "C04"; p.world = "Q"; p.seed = mix64(mix64(seed, 0xC04), i);
  Rng r(p.seed);
  static const int modes[] = {0, 9, 1, 5, 2, 3, 4, 9, 7, 9, 2, 3};
  int mode = modes[i % 12];
  base_knobs(r, p, false);
  if (i % 40 == 13) {
    // wide plan: a spawner announcing a limit in the upper half of the byte range, a larger configured concurrency, and more
    // slow recipients than either, so that the bound min(configured, announced) is actually reached
    bool local = r.chance(0.5); int announced = (int)r.pick(std::vector<int64_t>{127, 128, 129, 140, 200, 254, 255}); int configured = std::min<int>(255, announced + (int)r.pick(std::vector<int64_t>{-3, 1, 5, 40}));
    if (configured < 1) configured = 1;
    Json conf = Json::obj(); conf.set("queuelifetime", 100000).set(local ? "concurrencylocal" : "concurrencyremote", configured).set(local ? "concurrencyremote" : "concurrencylocal", 3);
    p.knobs.set("conf", conf).set(local ? "spawn_limit_local" : "spawn_limit_remote", announced).set("default_verdict", "K").set("default_lat", (long long)r.range(20, 200)).set("oracles", oracle_list({"c04"})).set("expect_drain", true);
    int n = std::max(announced, configured) + (int)r.range(2, 12); Json rc = Json::arr(); for (int q = 0; q < n; q++) rc.push("w" + std::to_string(q) + (local ? "@l.example" : "@r.example"));
    p.ops.push(Json::obj().set("op", "boot"));
    p.ops.push(Json::obj().set("op", "inject").set("id", "m1").set("sender", "s@x.example").set("rcpts", rc).set("body_len", 50).set("body_seed", 1));
    p.ops.push(Json::obj().set("op", "settle").set("max_s", 500000));
    p.knobs.set("max_sim_s", 3000000);
    p.label = "wide: " + std::string(local ? "local" : "remote") + " configured=" + std::to_string(configured) + " announced=" + std::to_string(announced) + " recipients=" + std::to_string(n);
    return true;
  }
  if (i % 40 == 27 || i % 40 == 7) {
    // startup scan with trouble: a message with unfinished recipients on both channels survives a clean restart, and the second
    // daemon's first look at one of its files fails (stat of info/, local/ or remote/: EIO, ENOMEM, EINTR ...). The daemon retries
    // the message 123 s later; until then - and afterwards - every recipient has at most one attempt in flight and is delivered once.
    // (A family of its own since the eighth round: the general histories reach this only through particular plans, and under some
    // seeds through none.)
    Json conf = Json::obj(); conf.set("queuelifetime", 100000).set("concurrencylocal", (int)r.range(2, 6)).set("concurrencyremote", (int)r.range(2, 6)); p.knobs.set("conf", conf);
    p.ops.push(Json::obj().set("op", "boot"));
    int nl = (int)r.range(1, 3), nrm = (int)r.range(1, 3); Json rc = Json::arr();
    auto scr = [&](const std::string &a) { Json sc = Json::obj(); sc.set("op", "script").set("rcpt", a); Json at = Json::arr();
      at.push(Json::obj().set("v", "Z").set("text", "later").set("lat", (long long)r.below(3)));
      if (r.chance(0.3)) at.push(Json::obj().set("v", "Z").set("text", "still later").set("lat", (long long)r.pick(std::vector<int64_t>{0, 5, 150, 300})));
      at.push(Json::obj().set("v", r.chance(0.8) ? "K" : "D").set("text", "fin").set("lat", (long long)r.pick(std::vector<int64_t>{0, 5, 130, 200, 400}))); sc.set("attempts", at); p.ops.push(sc); };
    for (int q = 0; q < nl; q++) { std::string a = "sl" + std::to_string(q) + "@l.example"; rc.push(a); scr(a); }
    for (int q = 0; q < nrm; q++) { std::string a = "sr" + std::to_string(q) + "@r.example"; rc.push(a); scr(a); }
    p.ops.push(Json::obj().set("op", "inject").set("id", "m1").set("sender", "s@x.example").set("rcpts", rc).set("body_len", 40).set("body_seed", 3));
    p.ops.push(Json::obj().set("op", "settle").set("max_s", (long long)r.pick(std::vector<int64_t>{5, 20, 60})));
    p.ops.push(Json::obj().set("op", "shutdown").set("max_s", 200000)); p.ops.push(Json::obj().set("op", "boot"));
    Fault f; f.actor = "qmail-send#2"; f.call = C_STAT; f.path = r.pick(std::vector<std::string>{"/remote/", "/remote/", "/local/", "/info/"}); f.nth = 1; f.kind = "error"; f.err = r.pick(std::vector<int>{EIO, EIO, ENOMEM, EINTR, EACCES, ESTALE}); p.faults.push_back(f);
    if (r.chance(0.3)) { Fault g = f; p.faults.push_back(g); }
    p.ops.push(Json::obj().set("op", "settle").set("max_s", 500000));
    p.knobs.set("oracles", oracle_list({"c04"})).set("expect_drain", true).set("max_sim_s", 3000000);
    p.label = "startup scan with a failing stat on " + f.path;
    return true;
  }
  gen_history(r, p, mode, true);
  p.knobs.set("oracles", oracle_list({"c04"}));
  p.label = std::string("history/") + kModeNames[mode];
  return true;
}

std::vector<std::string> q_real() { return {"qmail-start", "qmail-send", "qmail-clean", "qmail-queue (injectors and bounce injection)", "trigger FIFO, flock, pipes via simos"}; }
std::vector<std::string> q_stubs() { return {"qmail-lspawn/qmail-rspawn replaced by scripted spawner stubs speaking the delivery protocol", "message/envelope feeders (pre-filled pipes)", "log sink on qmail-send fd 0"}; }
std::vector<std::string> q_assume() {
  return {"simos models POSIX/Linux semantics (DESIGN 2, Appendix A); directory operations synchronous and single-byte writes atomic, as conf-qmail stipulates",
          "fork is emulated vfork-style: a parent does not run between fork and the child's exec/_exit", "one yield point per system call; signal handlers run at call boundaries",
          "a clean batch is evidence bounded by the explored plans, not a proof"};
}

static RegisterProperty reg_c03(PropertyDef{
    "C03", "Q", "exploration", "deterministic simulation: seeded schedules/faults over real qmail-send+qmail-clean+qmail-queue, ghost-state oracle per recipient", gen_c03,
    "plan i = f(VERIF_SEED, i): 1-4 messages x 1-4 unique local/remote recipients, per-attempt outcome scripts (K/Z/D/garbled/empty, latencies), signals, and one disturbance class per plan "
    "(none, TERM+restart, daemon kill, machine crash with writes kept, machine crash losing unsynced data, one failing syscall, one failing syscall on a named kind of queue file (bounce/info/local/remote/mess/todo), allocation failure, spawner death, fault inside bounce injection); "
    "a run is non-trivial if at least one delivery command reached a spawner; distinct = distinct (choice stream, trace) hashes among non-trivial runs",
    q_real(), q_stubs(), q_assume(), "hash over messages of (phase, #pending, #done, accepted) at end of run", 1500, 60000});

static RegisterProperty reg_c04(PropertyDef{
    "C04", "Q", "exploration", "deterministic simulation: same histories as C03 with concurrency settings 0-5 and announced spawner limits; ghost of outstanding attempts and completion marks", gen_c04,
    "plan i = f(VERIF_SEED, i): C03 histories with concurrencylocal/remote in 0..5 and spawner limits 0..5,255; disturbances: signals, TERM+restart, daemon kill, machine crashes, spawner death, and single failing system calls of the daemon (under which only the in-flight and concurrency clauses are judged, since a failed completion mark legitimately causes a retry); "
    "non-trivial = at least one delivery command; distinct = distinct (choice stream, trace) hashes among non-trivial runs",
    q_real(), q_stubs(), q_assume(), "hash over messages of (phase, #pending, #done, accepted) at end of run", 1500, 60000});

}  // namespace sim

// ------------------------------------------------------------------------------------------------ C01: injection sweep
namespace sim {

static std::string mk_env(const std::string &sender, const std::vector<std::string> &rcpts) {
  std::string e = "F" + sender; e.push_back('\0');
  for (auto &r : rcpts) { e += "T" + r; e.push_back('\0'); }
  e.push_back('\0'); return e;
}

// input j -> (body_len, body_seed, env_raw)
static void c01_input(uint64_t seed, uint64_t j, bool small, Json &inj, std::string &desc) {
  Rng r(mix64(seed ^ 0x1c01, j));
  static const int64_t sizes_small[] = {0, 1, 69, 186, 187, 188, 255, 256, 257, 700, 1023};
  static const int64_t sizes_big[] = {2047, 2048, 2049, 1978, 1979, 1980, 4096, 8191, 8192, 8193, 8122, 8123, 8124, 20000};
  int64_t blen = small ? sizes_small[j % 11] : (r.chance(0.7) ? sizes_big[r.below(14)] : r.range(0, 20000));
  if (!small && j % 5 == 4) blen = r.range(0, 3000);
  inj = Json::obj(); inj.set("op", "inject").set("id", "m1").set("body_len", (long long)blen).set("body_seed", (long long)r.below(100000));
  int ek = (int)(j % 12);
  std::vector<std::string> rc; int nr = (int)r.range(0, 6);
  for (int q = 0; q < nr; q++) rc.push_back("u" + std::to_string(q) + (r.chance(0.5) ? "@l.example" : "@r.example"));
  std::string sender = r.chance(0.2) ? "" : "s@x.example";
  std::string env = mk_env(sender, rc); desc = "valid envelope, " + std::to_string(nr) + " recipients";
  auto longaddr = [&](size_t n) { return std::string(n, 'a'); };
  switch (ek) {
    case 1: { size_t n = 1001 + r.below(4); rc.push_back(longaddr(n)); env = mk_env(sender, rc); desc = "recipient of " + std::to_string(n) + " bytes"; break; }
    case 2: { size_t n = 1001 + r.below(4); env = mk_env(longaddr(n), rc); desc = "sender of " + std::to_string(n) + " bytes"; break; }
    case 3: env[0] = r.chance(0.5) ? 'T' : 'f'; desc = "wrong sender letter"; break;
    case 4: if (nr) { size_t p = env.find("T"); env[p] = r.chance(0.5) ? 'F' : 'X'; desc = "wrong recipient letter"; } break;
    case 5: env.resize(env.size() - 1); desc = "missing final NUL"; break;
    case 6: env = r.chance(0.5) ? std::string() : std::string(1, '\0'); desc = "empty / NUL-only envelope"; break;
    case 7: env.resize(r.below(env.size())); desc = "envelope cut at " + std::to_string(env.size()); break;
    case 8: env += "garbage after terminator"; desc = "bytes after terminator"; break;
    case 9: { rc.push_back(""); env = mk_env(sender, rc); desc = "empty recipient"; break; }
    default: break;
  }
  inj.set("env_raw", env).set("sender", sender); Json ra = Json::arr(); for (auto &x : rc) ra.push(x); inj.set("rcpts", ra);
  static const char *users[] = {"user1", "alias", "qmaild", "qmails", "user2"};
  inj.set("user", users[r.below(5)]);
}

static bool gen_c01(uint64_t seed, const std::string &tier, uint64_t i, Plan &p) {
  const uint64_t K = 44;                // call sites swept per input
  const uint64_t V = 1 + 7 * K + 8 + 7; // variants per input
  uint64_t ninputs = tier == "quick" ? 10 : 400;
  uint64_t j = i / V, v = i % V;
  p = Plan(); p.property = "C01"; p.world = "Q"; p.seed = mix64(mix64(seed, 0xC01), i);
  Rng r(p.seed);
  bool sweep = j < ninputs;
  p.knobs.set("oracles", oracle_list({"c01"}));
  Json inj; std::string desc;
  if (sweep) {
    c01_input(seed, j, true, inj, desc);
    // fixed, simple environment for the sweep: the schedule is not the subject here
    p.knobs.set("stick", 1.0).set("split_p", (j % 2) ? 0.5 : 0.0).set("ino_policy", (int)(j % 3)).set("dir_shuffle_p", 0.0);
    if (j % 5 == 4) p.knobs.set("ino_base", (long long)(4294967296LL - 2 + (int64_t)(j % 7) * 1000003LL));   // message numbers around and beyond 2^32
    bool daemon = (j % 3) == 0;
    if (daemon) p.ops.push(Json::obj().set("op", "boot")), p.ops.push(Json::obj().set("op", "settle").set("max_s", 5));
    inj.set("wait", true);
    p.ops.push(inj);
    Fault f; f.actor = "qmail-queue#1"; f.call = C_ANY;
    std::string what = "fault-free";
    if (v >= 1 && v < 1 + 7 * K) {
      uint64_t kind = (v - 1) / K, site = (v - 1) % K + 1; f.nth = (int)site;
      switch (kind) {
        case 0: f.kind = "error"; f.err = (site % 2) ? EIO : ENOSPC; what = "error"; break;
        case 1: f.kind = "kill"; what = "kill"; break;
        case 2: f.kind = "crash"; f.image = "worst"; what = "crash/worst"; break;
        case 3: f.kind = "crash"; f.image = "random"; what = "crash/random"; break;
        case 4: f.kind = "signal"; f.arg = 14; what = "SIGALRM"; break;
        case 5: f.kind = "short"; f.arg = 1 + (int64_t)(site % 3); what = "short-io"; break;
        case 6: f.kind = "signal_after"; f.arg = (site % 3) ? 14 : 15; what = (site % 3) ? "SIGALRM-on-return" : "SIGTERM-on-return"; break;   // the signal is handled when call #site returns, before the program's next instruction
      }
      p.faults.push_back(f);
      what += "@call" + std::to_string(site);
      // (also after a failing call: the program then cleans up on its way out, and a failure inside that clean-up - an unlink that does not
      // work - must still leave something the daemon can collect)
      if (((kind == 1 || kind == 2 || kind == 3) && (site % 4) == 0) || (kind == 0 && (site % 2) == 0)) {
        // follow the leftovers: the daemon must collect them after 36 h (+ at most two cleanup periods)
        p.ops.push(Json::obj().set("op", "boot"));
        p.ops.push(Json::obj().set("op", "sleep").set("s", 129600 + 2 * 76431 + 200));
        p.ops.push(Json::obj().set("op", "settle").set("max_s", 100));
        p.knobs.set("expect_gc", true).set("max_sim_s", 1000000);
        what += "+gc";
      } else if (kind == 2 || kind == 3) { p.ops.push(Json::obj().set("op", "boot")); p.ops.push(Json::obj().set("op", "settle").set("max_s", 10000)); }
    } else if (v >= 1 + 7 * K && v < 1 + 7 * K + 8) {
      f.call = C_MALLOC; f.nth = (int)(v - 7 * K); f.kind = "null"; p.faults.push_back(f); what = "alloc-fail#" + std::to_string(f.nth);
    } else if (v >= 1 + 7 * K + 8) {
      // two faults
      Fault a = f, b = f; a.nth = (int)r.range(1, 30); a.kind = "short"; a.arg = 1; b.nth = (int)r.range(1, 30); b.kind = r.chance(0.5) ? "error" : "kill"; b.err = EIO;
      p.faults.push_back(a); p.faults.push_back(b); what = "double-fault";
    }
    p.label = "sweep input " + std::to_string(j) + " (" + desc + ", body " + std::to_string(inj.geti("body_len")) + "): " + what;
    return true;
  }
  // random multi-fault plans with bigger bodies, concurrent injectors and a live daemon
  uint64_t rmax = tier == "quick" ? 600 : 60000;
  if (i - ninputs * V >= rmax) return false;
  base_knobs(r, p, false);
  if (r.chance(0.6)) p.ops.push(Json::obj().set("op", "boot"));
  int ninj = (int)r.range(1, 3);
  for (int q = 0; q < ninj; q++) {
    c01_input(p.seed, (uint64_t)q + r.below(1000) * 12 + (r.chance(0.5) ? 0 : r.below(12)), r.chance(0.4), inj, desc);
    inj.set("id", "m" + std::to_string(q + 1));
    p.ops.push(inj);
    if (r.chance(0.3)) p.ops.push(Json::obj().set("op", "yield").set("n", (long long)r.range(1, 40)));
  }
  int nf = (int)r.range(0, 3);
  for (int q = 0; q < nf; q++) {
    Fault f; f.actor = "qmail-queue"; f.call = r.chance(0.5) ? C_ANY : r.pick(std::vector<CallId>{C_WRITE, C_READ, C_FSYNC, C_LINK, C_OPEN, C_UNLINK});
    f.nth = (int)r.range(1, f.call == C_ANY ? 80 : 15);
    int kk = (int)r.below(7);
    f.kind = kk == 0 ? "kill" : kk == 1 ? "crash" : kk == 2 ? "short" : kk == 3 ? "signal" : kk == 4 ? "eintr" : "error";
    f.err = r.pick(std::vector<int>{EIO, ENOSPC, EDQUOT}); f.arg = kk == 3 ? 14 : (int64_t)r.range(1, 40); f.image = r.pick(std::vector<std::string>{"worst", "best", "random"});
    if (f.kind == "eintr" && f.call == C_ANY) f.call = r.chance(0.5) ? C_READ : C_WRITE;
    p.faults.push_back(f);
  }
  p.ops.push(Json::obj().set("op", "settle").set("max_s", 20000));
  p.ops.push(Json::obj().set("op", "boot")); p.ops.push(Json::obj().set("op", "settle").set("max_s", 20000));
  p.label = "random injectors=" + std::to_string(ninj) + " faults=" + std::to_string(nf);
  return true;
}

static RegisterProperty reg_c01(PropertyDef{
    "C01", "Q", "fault_enumeration", "deterministic simulation with fault enumeration: every system-call site of qmail-queue x {error, kill, machine crash (worst and random image), SIGALRM before the call, SIGALRM/SIGTERM handled on return from the call, short I/O}, allocation failures, plus seeded multi-fault plans; publication invariant on crash images", gen_c01,
    "for each sampled input (body sizes straddling the 256/2048/8192-byte buffers; envelopes valid, over-long 1001-1004, wrong letters, unterminated, truncated, empty) one fault-free run and one run per (call site 1..44) x (I/O error, process kill, signal handled on return from the call, machine crash keeping nothing unsynced, machine crash with random torn image, SIGALRM, short transfer), 8 allocation failures and 7 double faults; "
    "then seeded random plans with 1-3 concurrent injectors, a live daemon and 0-3 faults. distinct = distinct trace hashes (a fault that never fires leaves the fault-free trace and is not counted twice)",
    q_real(), {"message/envelope feeders (pre-filled pipes)", "spawner stubs when the daemon is booted"}, q_assume(), "n/a (per-injection verdicts)", 3400, 170000});

// ------------------------------------------------------------------------------------------------ C02: queue states
static bool gen_c02(uint64_t seed, const std::string &tier, uint64_t i, Plan &p) {
  (void)tier;
  p = Plan(); p.property = "C02"; p.world = "Q"; p.seed = mix64(mix64(seed, 0xC02), i);
  Rng r(p.seed);
  base_knobs(r, p, false);
  if (r.chance(0.5)) p.knobs.set("ino_policy", 1);   // maximal recycling of inode numbers
  p.knobs.set("oracles", oracle_list({"c02"}));
  Json conf = Json::obj(); conf.set("queuelifetime", (long long)r.pick(std::vector<int64_t>{0, 100, 100000})); p.knobs.set("conf", conf);
  // leftovers of an earlier life
  int npl = (int)r.below(5);
  for (int q = 0; q < npl; q++) {
    Json pl = Json::obj(); pl.set("op", "plant").set("state", r.pick(std::vector<std::string>{"S2", "S3", "S4", "S5", "S5"}));
    pl.set("age", (long long)r.pick(std::vector<int64_t>{0, 3600, 86400, 129599, 129600, 129601, 200000}));
    if (r.chance(0.3)) pl.set("drop_intd", true); if (r.chance(0.3)) pl.set("stale_info", true);
    Json rc = Json::arr(); int nr = (int)r.range(1, 3); for (int x = 0; x < nr; x++) rc.push("p" + std::to_string(q) + "x" + std::to_string(x) + (r.chance(0.5) ? "@l.example" : "@r.example")); pl.set("rcpts", rc).set("done", (long long)r.below(2));
    p.ops.push(pl);
  }
  bool booted = r.chance(0.85);
  if (booted) p.ops.push(Json::obj().set("op", "boot"));
  int ninj = (int)r.range(1, 3); int rid = 0;
  auto nap = [&]() { int c = (int)r.below(4); if (c == 0) p.ops.push(Json::obj().set("op", "yield").set("n", (long long)r.range(1, 300))); else if (c == 1) p.ops.push(Json::obj().set("op", "sleep").set("s", (long long)r.pick(std::vector<int64_t>{1, 100, 1500, 90000, 130000, 160000}))); };
  for (int q = 0; q < ninj; q++) {
    Json inj; std::string desc; c01_input(p.seed, r.below(50) * 12 + (r.chance(0.6) ? 0 : r.below(12)), r.chance(0.7), inj, desc);
    inj.set("id", "m" + std::to_string(q + 1));
    // unique recipients and simple outcome scripts so deliveries make progress
    // one message in six is itself a bounce (null sender) or a double bounce (sender #@[]) with a recipient that fails for good: the
    // end of a bounce chain - a double bounce is sent, or the failure is discarded - is one more way for a message to leave the queue
    bool chain_end = r.chance(0.17); std::string chain_sender = r.chance(0.6) ? "#@[]" : "";
    Json rc = Json::arr(); int nr = (int)r.range(1, 3); std::vector<std::string> rs;
    for (int x = 0; x < nr; x++) { std::string a = (r.chance(0.5) ? "l" : "r") + std::to_string(++rid); a += a[0] == 'l' ? "@l.example" : "@r.example"; rs.push_back(a); rc.push(a);
      Json sc = Json::obj(); sc.set("op", "script").set("rcpt", a); Json at = Json::arr(); int na = (int)r.below(3);
      for (int y = 0; y < na; y++) at.push(Json::obj().set("v", r.chance(0.6) ? "Z" : "D").set("text", "x").set("lat", (long long)r.below(30)));
      if (chain_end && x == 0) { at = Json::arr(); if (r.chance(0.3)) at.push(Json::obj().set("v", "Z").set("text", "later").set("lat", (long long)r.below(5))); at.push(Json::obj().set("v", "D").set("text", "no such user").set("lat", (long long)r.below(5))); }
      sc.set("attempts", at); p.ops.push(sc); }
    if (chain_end) { inj.set("sender", chain_sender); inj.set("rcpts", rc); inj.set("env_raw", mk_env(chain_sender, rs)); }
    else if (inj.gets("env_raw") == mk_env(inj.gets("sender"), {}) || r.chance(0.7)) { inj.set("rcpts", rc); inj.set("env_raw", mk_env(inj.gets("sender"), rs)); }
    p.ops.push(inj); nap();
  }
  if (r.chance(0.25)) { nap(); p.ops.push(Json::obj().set("op", "second_send"));
    // the lock call of the second instance itself fails (no locks left, an interrupted call, a file system without flock):
    // whatever the reason, without the lock it must not start
    if (r.chance(0.5)) { Fault f; f.actor = "tag:second"; f.call = C_FLOCK; f.nth = 1; f.kind = "error"; f.err = r.pick(std::vector<int>{ENOLCK, ENOLCK, EINTR, EIO, EBADF, EINVAL, ENOMEM}); p.faults.push_back(f); } }
  // disturbances: crashes of anyone at any yield point, stalls of injectors across the collection horizon
  int nd = (int)r.below(4);
  for (int q = 0; q < nd; q++) {
    Fault f; int who = (int)r.below(10);
    f.actor = who < 4 ? "qmail-queue" : who < 8 ? "qmail-send" : "qmail-clean"; f.call = C_ANY; f.nth = (int)r.range(1, who < 4 ? 40 : 500);
    int kk = (int)r.below(10);
    if (kk < 3) f.kind = "kill"; else if (kk < 7) { f.kind = "crash"; f.image = r.pick(std::vector<std::string>{"worst", "best", "random"}); }
    else if (kk < 9 && who < 4) { f.kind = "stall"; f.arg = r.pick(std::vector<int64_t>{10, 80000, 86399, 86401, 129500, 130000, 140000, 300000}); }
    else if (who < 4 && r.chance(0.6)) { f.kind = r.chance(0.5) ? "signal" : "signal_after"; f.arg = r.chance(0.7) ? 14 : 15; }   // the injector's own alarm (or a TERM) at an arbitrary call boundary
    else { f.kind = "error"; f.err = EIO; }
    p.faults.push_back(f);
  }
  if (i % 8 == 5) {
    // biased scenario: an injector stalled across the 24 h (its own alarm) and 36 h (collector) horizons while the daemon's
    // periodic cleanup runs; the phase between injection and the cleanup period is random
    p.faults.clear();
    Fault f; f.actor = "qmail-queue#1"; f.call = C_ANY; f.nth = (int)r.range(8, 24); f.kind = "stall";
    f.arg = r.pick(std::vector<int64_t>{86399, 86401, 129000, 131000, 150000, 165000, 172000, 173000, 210000, 260000});
    p.faults.push_back(f);
    Json ops2 = Json::arr(); bool placed = false;
    for (auto &op : p.ops.a) { if (op.gets("op") == "inject" && !placed) { ops2.push(Json::obj().set("op", "boot")); ops2.push(Json::obj().set("op", "sleep").set("s", (long long)r.range(0, 76431))); placed = true; } if (op.gets("op") != "second_send") ops2.push(op); }
    p.ops = ops2;
  }
  if (i % 8 == 1) { Fault f; f.actor = "qmail-queue"; f.call = r.chance(0.5) ? C_ANY : r.pick(std::vector<CallId>{C_LINK, C_OPEN, C_FSYNC, C_UNLINK}); f.nth = f.call == C_ANY ? (int)r.range(5, 30) : (int)r.range(1, 3); f.kind = r.chance(0.4) ? "signal" : "signal_after"; f.arg = r.chance(0.7) ? 14 : 15; p.faults.push_back(f); }
  if (i % 8 == 3) {
    // one failing call of the daemon or the cleaner on a named kind of queue file, early in that file's use: removals that fail
    // half-way through a state transition must leave a documented state behind
    Fault f; f.actor = r.chance(0.75) ? "qmail-send" : "qmail-clean"; f.path = r.pick(std::vector<std::string>{"/bounce/", "/info/", "/local/", "/remote/", "/mess/", "/todo/", "/intd/"});
    f.call = r.chance(0.6) ? C_UNLINK : r.pick(std::vector<CallId>{C_STAT, C_OPEN, C_WRITE, C_FSYNC, C_UTIMES}); f.nth = (int)r.range(1, 3); f.kind = "error"; f.err = r.pick(std::vector<int>{EIO, EROFS, ENOMEM, EACCES});
    p.faults.push_back(f);
  }
  p.ops.push(Json::obj().set("op", "settle").set("max_s", 400000));
  for (int q = 0; q < 2; q++) { p.ops.push(Json::obj().set("op", "boot")); if (r.chance(0.5)) p.ops.push(Json::obj().set("op", "sleep").set("s", (long long)r.pick(std::vector<int64_t>{76431, 129601, 300000}))); p.ops.push(Json::obj().set("op", "settle").set("max_s", 400000)); }
  p.knobs.set("max_sim_s", 4000000);
  p.label = "planted=" + std::to_string(npl) + " injectors=" + std::to_string(ninj) + " disturbances=" + std::to_string(nd);
  return true;
}

static RegisterProperty reg_c02(PropertyDef{
    "C02", "Q", "exploration", "deterministic simulation: seeded/PCT interleavings of 1-3 qmail-queue with qmail-send+qmail-clean at system-call granularity, crashes with restart, stalls across the 24h/36h horizons; state-pattern invariant after every queue mutation", gen_c02,
    "plan i = f(VERIF_SEED, i): 0-4 planted leftovers (S2..S5, ages around 36 h), 1-3 concurrent injectors (valid and aborting), optional second daemon, 0-3 disturbances (kill / machine crash / multi-hour stall / I/O error at a random call of an injector, the daemon or the cleaner), inode-number recycling policies; "
    "after every link/unlink/create/rename in the queue the entry must be in S1-S5, name==inode, numbers unshared; non-trivial = a delivery command was issued; distinct = distinct (choice stream, trace) hashes",
    q_real(), q_stubs(), q_assume(), "hash over messages of (phase, #pending, #done, accepted) at end of run", 1500, 80000});

}  // namespace sim

// ------------------------------------------------------------------------------------------------ C15 / C16 timing
namespace sim {

static void timing_knobs(Rng &r, Plan &p) {
  p.knobs.set("stick", r.pick(std::vector<double>{0.0, 0.5, 0.9})).set("split_p", 0.0).set("dir_shuffle_p", r.chance(0.5) ? 0.5 : 0.0).set("tick_p", 0.0).set("ino_policy", (int)r.below(3));
  if (r.chance(0.3)) { p.knobs.set("pct", true); Json pts = Json::arr(); int d = (int)r.range(1, 3); for (int i = 0; i < d; i++) pts.push((long long)r.range(1, 900)); p.knobs.set("pct_points", pts); }
}

static bool gen_c15(uint64_t seed, const std::string &tier, uint64_t i, Plan &p) {
  (void)tier;
  p = Plan(); p.property = "C15"; p.world = "Q"; p.seed = mix64(mix64(seed, 0xC15), i);
  Rng r(p.seed);
  timing_knobs(r, p);
  p.knobs.set("oracles", oracle_list({"c15"}));
  int64_t lifetime = r.pick(std::vector<int64_t>{0, 1, 100, 3000, 604800, 2000000000LL});
  Json conf = Json::obj(); conf.set("queuelifetime", (long long)lifetime);
  bool conc1 = r.chance(0.5);
  if (conc1) { conf.set("concurrencylocal", 1); conf.set("concurrencyremote", 1); }
  p.knobs.set("conf", conf);
  int nplant = lifetime > 1000000 ? (int)r.below(3) : 0;
  for (int q = 0; q < nplant; q++) {
    // old survivors: ages with bit-pattern bias up to 2^31
    int64_t age; int kind = (int)r.below(4);
    if (kind == 0) age = (1LL << r.range(1, 31)) - (int64_t)r.below(3); else if (kind == 1) { int64_t s = r.range(1, 46340); age = s * s - (int64_t)r.below(2); } else age = (int64_t)r.below(1u << 31);
    if (age < 0) age = 0;
    Json pl = Json::obj(); pl.set("op", "plant").set("state", "S5").set("age", (long long)age);
    Json rc = Json::arr(); std::string a = "p" + std::to_string(q) + (r.chance(0.5) ? "@l.example" : "@r.example"); rc.push(a); pl.set("rcpts", rc);
    p.ops.push(pl);
    Json sc = Json::obj(); sc.set("op", "script").set("rcpt", a); Json at = Json::arr(); int nz = (int)r.range(0, 3); for (int y = 0; y < nz; y++) at.push(Json::obj().set("v", "Z").set("text", "later").set("lat", (long long)r.below(4))); at.push(Json::obj().set("v", r.chance(0.7) ? "K" : "D").set("text", "fin")); sc.set("attempts", at); p.ops.push(sc);
  }
  p.ops.push(Json::obj().set("op", "boot"));
  int nmsg = (int)r.range(1, 5);
  for (int m = 0; m < nmsg; m++) {
    Json inj = Json::obj(); inj.set("op", "inject").set("id", "m" + std::to_string(m + 1)).set("sender", "s@x.example").set("body_len", 20).set("body_seed", m);
    std::string a = (r.chance(0.5) ? "l" : "r") + std::to_string(m + 1); a += a[0] == 'l' ? "@l.example" : "@r.example";
    Json rc = Json::arr(); rc.push(a); inj.set("rcpts", rc);
    Json sc = Json::obj(); sc.set("op", "script").set("rcpt", a); Json at = Json::arr(); int nz = (int)r.range(0, 6);
    for (int y = 0; y < nz; y++) at.push(Json::obj().set("v", "Z").set("text", "later").set("lat", (long long)(r.chance(0.6) ? 0 : r.range(1, 30))));
    at.push(Json::obj().set("v", r.chance(0.7) ? "K" : "D").set("text", "fin")); sc.set("attempts", at);
    p.ops.push(sc);
    if (r.chance(0.4)) {   // a second recipient on the other channel with a back-off history of its own: each channel file carries its own schedule
      std::string b = (a[0] == 'l' ? "r" : "l") + std::to_string(m + 1) + "b"; b += b[0] == 'l' ? "@l.example" : "@r.example"; rc.push(b); inj.set("rcpts", rc);
      Json sc2 = Json::obj(); sc2.set("op", "script").set("rcpt", b); Json at2 = Json::arr(); int nz2 = (int)r.range(0, 6);
      for (int y = 0; y < nz2; y++) at2.push(Json::obj().set("v", "Z").set("text", "later").set("lat", (long long)(r.chance(0.6) ? 0 : r.range(1, 30))));
      at2.push(Json::obj().set("v", r.chance(0.7) ? "K" : "D").set("text", "fin")); sc2.set("attempts", at2); p.ops.push(sc2);
    }
    p.ops.push(inj);
    if (r.chance(0.6)) p.ops.push(Json::obj().set("op", "sleep").set("s", (long long)r.pick(std::vector<int64_t>{1, 7, 99, 100, 101, 399, 400, 401, 1000, 5000})));
  }
  int nev = (int)r.below(4);
  for (int q = 0; q < nev; q++) {
    p.ops.push(Json::obj().set("op", "sleep").set("s", (long long)r.pick(std::vector<int64_t>{1, 50, 399, 400, 401, 900, 2000, 10000})));
    int kind = (int)r.below(3);
    if (kind == 0) p.ops.push(Json::obj().set("op", "signal").set("to", "qmail-send").set("sig", "ALRM"));
    else if (kind == 1) { if (r.chance(0.3)) { Fault f; f.actor = "qmail-send#" + std::to_string(2 + q); f.call = C_OPENDIR; f.path = "/queue/info/"; f.nth = (int)r.range(1, 23); f.kind = "error"; f.err = r.pick(std::vector<int>{EMFILE, ENFILE, ENOMEM}); p.faults.push_back(f); }
      p.ops.push(Json::obj().set("op", "shutdown").set("max_s", 100000)); if (r.chance(0.5)) p.ops.push(Json::obj().set("op", "sleep").set("s", (long long)r.range(1, 3000))); p.ops.push(Json::obj().set("op", "boot")); }
    else p.ops.push(Json::obj().set("op", "signal").set("to", "qmail-send").set("sig", "HUP"));
  }
  int64_t horizon = std::min<int64_t>(lifetime, 700000) + 500000;
  p.ops.push(Json::obj().set("op", "settle").set("max_s", (long long)horizon));
  p.knobs.set("max_sim_s", (long long)(horizon * 3 + 4000000)).set("expect_drain", false);
  // a spawner is lost with a delivery outstanding (it crashed, it was killed): the daemon has to notice (end of file on the report
  // pipe), say so and exit; restarted, it must still get every message out of the queue in bounded time
  bool lost = false;
  if (nplant == 0 && r.chance(0.25)) {
    for (auto &op : p.ops.a) if (op.gets("op") == "script" && !lost && r.chance(0.6)) { Json &at = op.at("attempts"); Json d = Json::obj(); d.set("v", "Z").set("text", "never sent").set("lat", (long long)r.below(3)).set("die", true); at.a.insert(at.a.begin() + (long)r.below(std::min<size_t>(at.a.size(), 2)), d); lost = true; }
    if (lost) { for (int q = 0; q < 2; q++) { p.ops.push(Json::obj().set("op", "boot")); p.ops.push(Json::obj().set("op", "settle").set("max_s", (long long)horizon)); } p.knobs.set("expect_drain", true).set("max_sim_s", (long long)(horizon * 6 + 4000000)); }
  }
  p.label = "msgs=" + std::to_string(nmsg) + " planted=" + std::to_string(nplant) + " lifetime=" + std::to_string(lifetime) + (conc1 ? " conc=1" : "") + " events=" + std::to_string(nev) + (lost ? " lost-spawner" : "");
  return true;
}

static bool gen_c16(uint64_t seed, const std::string &tier, uint64_t i, Plan &p) {
  (void)tier;
  p = Plan(); p.property = "C16"; p.world = "Q"; p.seed = mix64(mix64(seed, 0xC16), i);
  Rng r(p.seed);
  timing_knobs(r, p);
  p.knobs.set("stick", r.pick(std::vector<double>{0.0, 0.2, 0.5, 0.8}));
  p.knobs.set("oracles", oracle_list({"c16"}));
  Json conf = Json::obj(); conf.set("queuelifetime", (long long)r.pick(std::vector<int64_t>{100, 604800})); p.knobs.set("conf", conf);
  p.ops.push(Json::obj().set("op", "boot"));
  // let the daemon reach an idle select, or keep it busy scanning
  int pre = (int)r.below(3);
  if (pre == 0) p.ops.push(Json::obj().set("op", "settle").set("max_s", 1));
  else if (pre == 1) p.ops.push(Json::obj().set("op", "yield").set("n", (long long)r.range(1, 400)));
  int rounds = (int)r.range(1, 3); int rid = 0;
  if (i % 6 == 4) {
    // one channel saturated in the middle of a pass (more slow recipients than its concurrency) while a message on the other
    // channel becomes due: the wake-up computation must still see the other channel
    bool locfull = r.chance(0.7); conf.set(locfull ? "concurrencylocal" : "concurrencyremote", (int)r.range(1, 2)); p.knobs.set("conf", conf);
    std::string busy = locfull ? "l" : "r", other = locfull ? "r" : "l";
    { Json inj = Json::obj(); inj.set("op", "inject").set("id", "m" + std::to_string(++rid)).set("sender", "s@x.example").set("body_len", 10).set("body_seed", rid);
      std::string a = other + std::to_string(rid) + (other == "l" ? "@l.example" : "@r.example"); Json rc = Json::arr(); rc.push(a); inj.set("rcpts", rc);
      Json sc = Json::obj(); sc.set("op", "script").set("rcpt", a); Json at = Json::arr(); at.push(Json::obj().set("v", "Z").set("text", "later").set("lat", 0)); at.push(Json::obj().set("v", "K").set("text", "ok").set("lat", 0)); sc.set("attempts", at); p.ops.push(sc); p.ops.push(inj); }
    p.ops.push(Json::obj().set("op", "settle").set("max_s", 1));
    { Json inj = Json::obj(); inj.set("op", "inject").set("id", "m" + std::to_string(++rid)).set("sender", "s@x.example").set("body_len", 10).set("body_seed", rid); Json rc = Json::arr(); int nr = (int)r.range(3, 5);
      for (int q = 0; q < nr; q++) { std::string a = busy + std::to_string(rid) + "x" + std::to_string(q) + (busy == "l" ? "@l.example" : "@r.example"); rc.push(a);
        Json sc = Json::obj(); sc.set("op", "script").set("rcpt", a); Json at = Json::arr(); at.push(Json::obj().set("v", "K").set("text", "slow").set("lat", (long long)r.pick(std::vector<int64_t>{300, 700, 2000}))); sc.set("attempts", at); p.ops.push(sc); }
      inj.set("rcpts", rc); p.ops.push(inj); }
    if (r.chance(0.5)) { p.ops.push(Json::obj().set("op", "sleep").set("s", (long long)r.pick(std::vector<int64_t>{5, 50, 200}))); p.ops.push(Json::obj().set("op", "signal").set("to", "qmail-send").set("sig", "ALRM")); }
    rounds = 0;
  }
  if (i % 6 == 5) {
    // a slow client: one injector sits in the middle of its message for a long time while others come and go
    Json slow = Json::obj(); slow.set("op", "inject").set("id", "m" + std::to_string(++rid)).set("sender", "s@x.example").set("body_len", (long long)r.pick(std::vector<int64_t>{300, 3000, 20000})).set("body_seed", rid).set("feed_delay", (long long)r.pick(std::vector<int64_t>{20, 100, 400, 2000}));
    Json rc = Json::arr(); rc.push("l" + std::to_string(rid) + "@l.example"); slow.set("rcpts", rc); p.ops.push(slow);
    p.ops.push(Json::obj().set("op", "yield").set("n", (long long)r.range(1, 200)));
  }
  for (int q = 0; q < rounds; q++) {
    int ninj = (int)r.range(1, 2);
    for (int x = 0; x < ninj; x++) {
      Json inj = Json::obj(); inj.set("op", "inject").set("id", "m" + std::to_string(++rid)).set("sender", "s@x.example").set("body_len", (long long)r.pick(std::vector<int64_t>{0, 10, 300})).set("body_seed", rid);
      std::string a = (r.chance(0.5) ? "l" : "r") + std::to_string(rid); a += a[0] == 'l' ? "@l.example" : "@r.example"; Json rc = Json::arr(); rc.push(a); inj.set("rcpts", rc);
      if (r.chance(0.4)) { Json sc = Json::obj(); sc.set("op", "script").set("rcpt", a); Json at = Json::arr(); at.push(Json::obj().set("v", "Z").set("text", "later").set("lat", (long long)r.below(5))); sc.set("attempts", at); p.ops.push(sc); }
      p.ops.push(inj);
      if (r.chance(0.5)) p.ops.push(Json::obj().set("op", "yield").set("n", (long long)r.range(1, 60)));
    }
    int w = (int)r.below(3);
    if (w == 0) p.ops.push(Json::obj().set("op", "settle").set("max_s", (long long)r.pick(std::vector<int64_t>{1, 5, 1400})));
    else if (w == 1) p.ops.push(Json::obj().set("op", "yield").set("n", (long long)r.range(1, 500)));
  }
  p.ops.push(Json::obj().set("op", "settle").set("max_s", 700000));
  p.knobs.set("max_sim_s", 3000000);
  p.label = "rounds=" + std::to_string(rounds) + " injections=" + std::to_string(rid);
  return true;
}

static RegisterProperty reg_c15(PropertyDef{
    "C15", "Q", "exploration", "deterministic simulation on a virtual clock: histories of temporary failures, ALRM, TERM+restart and queue lifetimes; scheduler ghost recomputes due times from the documented formula with exact integer arithmetic", gen_c15,
    "plan i = f(VERIF_SEED, i): 1-5 single-recipient messages (+0-2 planted survivors with ages up to 2^31 biased to powers of two and perfect squares) answered Z k times then K/D, queuelifetime in {0,1,100,3000,604800,2e9}, concurrency 1 or default, "
    "0-3 timed events (ALRM, HUP, TERM+restart). The virtual clock moves only when every process is blocked. Checked: no pass before birth+(isqrt(age)+10|20)^2 unless ALRM/unclean restart; no sleeping past a due retry with free capacity; earliest due first; "
    "persisted schedule across clean restart; one final pass after the lifetime turning Z into D; non-trivial = at least one delivery pass observed",
    q_real(), q_stubs(), q_assume(), "hash over messages of (phase, #pending, #done, accepted) at end of run", 1500, 60000});

static RegisterProperty reg_c16(PropertyDef{
    "C16", "Q", "exploration", "deterministic simulation: seeded/PCT interleavings of qmail-queue's publish-then-signal with qmail-send's re-arm-then-scan on a modelled Linux FIFO; idle-time latency oracle and spin detector", gen_c16,
    "plan i = f(VERIF_SEED, i): daemon idle, starting or mid-scan; 1-2 injectors per round for 1-3 rounds at random yield offsets; random and PCT schedules; directory-scan order and late-entry visibility chosen per scan. "
    "Checked: a completed injection is picked up before the system has been idle for more than 2 s (a lost wake-up shows as a 1500 s sleep); no run of >400 zero-timeout selects without other work; the daemon never sleeps past a due retry; non-trivial = a delivery pass was observed",
    q_real(), q_stubs(), q_assume(), "hash over messages of (phase, #pending, #done, accepted) at end of run", 2500, 100000});

}  // namespace sim

// ------------------------------------------------------------------------------------------------ C14 bounces
namespace sim {
static bool gen_c14(uint64_t seed, const std::string &tier, uint64_t i, Plan &p) {
  (void)tier;
  p = Plan(); p.property = "C14"; p.world = "Q"; p.seed = mix64(mix64(seed, 0xC14), i);
  Rng r(p.seed);
  base_knobs(r, p, false);
  p.knobs.set("oracles", oracle_list({"c14"}));
  Json conf = Json::obj();
  int64_t lifetime = r.pick(std::vector<int64_t>{0, 100, 604800}); conf.set("queuelifetime", (long long)lifetime);
  if (r.chance(0.4)) conf.set("bouncefrom", r.pick(std::vector<std::string>{"MAILER-DAEMON", "bounces", "mail.daemon"}));
  if (r.chance(0.4)) conf.set("bouncehost", r.pick(std::vector<std::string>{"bounce.example", "sim.example"}));
  if (r.chance(0.4)) conf.set("doublebounceto", r.pick(std::vector<std::string>{"postmaster", "dbl"}));
  if (r.chance(0.4)) conf.set("doublebouncehost", r.pick(std::vector<std::string>{"l.example", "r.example", "sim.example"}));
  bool vd = r.chance(0.5);
  if (vd) { Json v = Json::arr(); v.push("v.example:alias-v"); v.push(".w.example:alias-w"); v.push("x@u.example:alias-u"); v.push("novirt.example:"); conf.set("virtualdomains", v); }
  p.knobs.set("conf", conf);
  p.ops.push(Json::obj().set("op", "boot"));
  int nmsg = (int)r.range(1, 3); int rid = 0;
  // where do bounces go? script those recipients too: the bounce itself and the double bounce may fail
  std::string dbto = conf.gets("doublebounceto", "postmaster") + "@" + conf.gets("doublebouncehost", "sim.example");
  auto script = [&](const std::string &seen_as, int maxz, bool may_fail) {
    Json sc = Json::obj(); sc.set("op", "script").set("rcpt", seen_as); Json at = Json::arr(); int nz = (int)r.range(0, maxz);
    for (int y = 0; y < nz; y++) at.push(Json::obj().set("v", "Z").set("text", r.chance(0.08) ? long_text(r) : rand_text(r, 80)).set("lat", (long long)r.below(20)));
    at.push(Json::obj().set("v", may_fail && r.chance(0.6) ? "D" : "K").set("text", r.chance(0.05) ? long_text(r) : rand_text(r, 300)).set("lat", (long long)r.below(10)));
    sc.set("attempts", at); p.ops.push(sc);
  };
  std::set<std::string> scripted;
  for (int m = 0; m < nmsg; m++) {
    Json inj = Json::obj(); inj.set("op", "inject").set("id", "m" + std::to_string(m + 1)).set("body_len", (long long)r.pick(std::vector<int64_t>{0, 5, 200, 1500})).set("body_seed", (long long)r.below(1000));
    int sf = (int)r.below(8); std::string sender, bounce_to_seen;
    if (sf == 0) sender = ""; else if (sf == 1) sender = "#@[]"; else if (sf == 2) { sender = "owner-@lists.example-@[]"; bounce_to_seen = "owner-@lists.example"; }
    else if (sf == 3) { sender = "snd" + std::to_string(m) + "@l.example"; bounce_to_seen = sender; }
    else { sender = "snd" + std::to_string(m) + "@r.example"; bounce_to_seen = sender; }
    inj.set("sender", sender);
    if (!bounce_to_seen.empty() && !scripted.count(bounce_to_seen)) { scripted.insert(bounce_to_seen); script(bounce_to_seen, 1, true); }
    Json rc = Json::arr(); int nr = (int)r.range(1, 4);
    for (int q = 0; q < nr; q++) {
      ++rid; std::string addr, seen;
      int kind = vd ? (int)r.below(6) : (int)r.below(2);
      if (kind == 0) { addr = "l" + std::to_string(rid) + "@l.example"; seen = addr; }
      else if (kind == 1) { addr = "r" + std::to_string(rid) + "@r.example"; seen = addr; }
      else if (kind == 2) { addr = "u" + std::to_string(rid) + "@v.example"; seen = "alias-v-" + addr; }
      else if (kind == 3) { addr = "u" + std::to_string(rid) + "@sub.w.example"; seen = "alias-w-" + addr; }
      else if (kind == 4) { addr = "U" + std::to_string(rid) + "@V.Example"; seen = "alias-v-" + addr; }
      else { addr = "n" + std::to_string(rid) + "@novirt.example"; seen = addr; }
      rc.push(addr);
      Json sc = Json::obj(); sc.set("op", "script").set("rcpt", seen); Json at = Json::arr(); int nz = (int)r.below(2);
      for (int y = 0; y < nz; y++) at.push(Json::obj().set("v", "Z").set("text", r.chance(0.08) ? long_text(r) : rand_text(r, 80)).set("lat", (long long)r.below(20)));
      int fin = (int)r.below(10);
      at.push(Json::obj().set("v", fin < 7 ? "D" : (fin < 9 ? "K" : "Z")).set("text", r.chance(0.08) ? long_text(r) : rand_text(r, 400)).set("lat", (long long)r.below(10)));
      if (fin == 9) at.push(Json::obj().set("v", "D").set("text", rand_text(r, 100)));
      sc.set("attempts", at); p.ops.push(sc);
    }
    inj.set("rcpts", rc);
    p.ops.push(inj);
    if (r.chance(0.4)) p.ops.push(Json::obj().set("op", "yield").set("n", (long long)r.range(1, 200)));
  }
  // configuration rereads while mail is in the queue (first attempts made, some recipients deferred): one that succeeds, then sometimes one that fails half-way (same file contents):
  // the virtual-domain table used for routing and for naming recipients in bounces must stay the one last read successfully
  if (vd && r.chance(0.3)) {
    // (settle: wait until the daemon is up and idle, so that the signal finds it and the reread completes before the next step)
    p.ops.push(Json::obj().set("op", "settle").set("max_s", 1)); p.ops.push(Json::obj().set("op", "signal").set("to", "qmail-send").set("sig", "HUP")); p.ops.push(Json::obj().set("op", "settle").set("max_s", 1));
    if (r.chance(0.7)) { Fault f; f.actor = "qmail-send"; f.call = r.pick(std::vector<CallId>{C_OPEN, C_READ}); f.path = r.chance(0.7) ? "/control/virtualdomains" : "/control/locals"; f.nth = 3; f.kind = "error"; f.err = r.pick(std::vector<int>{EIO, ENFILE, EACCES, ENOMEM}); p.faults.push_back(f);
      p.ops.push(Json::obj().set("op", "signal").set("to", "qmail-send").set("sig", "HUP")); p.ops.push(Json::obj().set("op", "settle").set("max_s", 1)); }
  }
  if (!scripted.count(dbto)) script(dbto, 1, true);
  if (r.chance(0.2)) { p.ops.push(Json::obj().set("op", "sleep").set("s", (long long)r.range(1, 500))); p.ops.push(Json::obj().set("op", "signal").set("to", "qmail-send").set("sig", "ALRM")); }
  // the bounce injection itself may fail: duplicates allowed, losses not
  if (i % 5 == 4) { Fault f; f.actor = "qmail-queue"; f.call = r.pick(std::vector<CallId>{C_WRITE, C_FSYNC, C_LINK, C_OPEN, C_READ}); f.nth = (int)r.range(3, 25); f.kind = "error"; f.err = EIO; p.faults.push_back(f); }
  // a write on the bounce record takes only a few bytes and the next one fails outright (disk full), later ones work: the record must
  // come out exactly once, neither cut nor doubled
  if (i % 5 == 0 && p.faults.empty() && r.chance(0.5)) { Fault a; a.actor = "qmail-send#"; a.call = C_WRITE; a.path = "/bounce/"; a.nth = (int)r.range(1, 3); a.kind = "short"; a.arg = r.pick(std::vector<int64_t>{1, 5, 10, 17, 40}); Fault b = a; b.kind = "error"; b.err = r.pick(std::vector<int>{ENOSPC, EIO, EDQUOT}); p.faults.push_back(a); p.faults.push_back(b); }
  // ... or the daemon cannot even start the queue program for the bounce (no process slot, no descriptors): it says so and tries again later
  if (i % 5 == 0 && p.faults.empty() && r.chance(0.5)) { Fault f; f.actor = "qmail-send#"; f.call = r.pick(std::vector<CallId>{C_FORK, C_PIPE}); f.nth = (int)r.range(1, 3); f.kind = "error"; f.err = r.pick(std::vector<int>{EAGAIN, ENOMEM, EMFILE, ENFILE}); p.faults.push_back(f); }
  // a signal interrupts the daemon while it waits for the queue child that takes the bounce (wait returns EINTR once)
  if (i % 5 == 1 && r.chance(0.6)) { Fault f; f.actor = "qmail-send"; f.call = C_WAITPID; f.nth = (int)r.range(1, 3); f.kind = "eintr"; p.faults.push_back(f); }
  // one transient allocation failure in the daemon (it does not exit on out-of-memory: it waits and retries the very allocation;
  // whatever it had collected so far must still be there afterwards)
  if (i % 5 == 2 && r.chance(0.6)) { Fault f; f.actor = "qmail-send"; f.call = C_MALLOC; f.nth = (int)r.range(1, 400); f.kind = "null"; p.faults.push_back(f); }
  // ... or the daemon cannot read its own record or the original message while it composes the bounce: the bounce must wait, not go out cut short
  if (i % 5 == 3) { Fault f; f.actor = "qmail-send"; f.call = r.pick(std::vector<CallId>{C_READ, C_READ, C_OPEN}); f.path = r.pick(std::vector<std::string>{"/bounce/", "/mess/"}); f.nth = (int)r.range(1, 4); f.kind = "error"; f.err = r.pick(std::vector<int>{EIO, ENOMEM}); p.faults.push_back(f); }
  p.ops.push(Json::obj().set("op", "settle").set("max_s", (long long)(lifetime + 900000)));
  if (i % 5 == 3) { p.ops.push(Json::obj().set("op", "boot")); p.ops.push(Json::obj().set("op", "settle").set("max_s", (long long)(lifetime + 900000))); }
  p.knobs.set("expect_drain", true).set("max_sim_s", (long long)((lifetime + 900000) * 3));
  p.label = "msgs=" + std::to_string(nmsg) + (vd ? " vdoms" : "") + " lifetime=" + std::to_string(lifetime);
  { bool has_control = false; for (auto &op : p.ops.a) if (op.gets("op") == "control") has_control = true;
    if (i % 20 == 3 && vd && !has_control) {
      // a catch-all line in virtualdomains (empty domain): every recipient outside the local and the listed domains is handed to the local
      // channel under the catch-all's prefix, and a bounce must name it without that prefix (rewrite of the finished plan, no draws)
      Json &cf = p.knobs.at("conf"); Json v2 = Json::arr(); for (auto &x : cf["virtualdomains"].a) v2.push(x); v2.push(":alias-all"); cf.set("virtualdomains", v2);
      for (auto &op : p.ops.a) if (op.gets("op") == "script") { std::string a = op.gets("rcpt"); size_t at = a.rfind('@'); if (at == std::string::npos) continue; std::string d = a.substr(at + 1);
        if (d == "r.example" || d == "lists.example" || d == "x.example") op.set("rcpt", "alias-all-" + a); }
      p.label += " +catch-all virtual domain";
    } }
  if (i % 20 == 11) {
    // recipients whose local part contains line breaks and text that looks like a bounce paragraph of its own: the envelope may hold
    // any byte but NUL, and a failure report for such a recipient must stay one paragraph under one name (the daemon writes '_' for a
    // line break in the name). Done as a rewrite of the finished plan with a generator of its own, so no other plan changes.
    Rng r2(mix64(p.seed, 0x5eed14)); std::map<std::string, std::string> ren;
    static const std::vector<std::string> evil = {"a\nb", "x\n\n<victim@r.example>:\nSorry, no mailbox here by that name.", "\nlead", "trail\n", "two\n\nblank", ">:\nforged\n\n<", "a\n--- Below this line is a copy of the message.\n"};
    for (auto &op : p.ops.a) if (op.gets("op") == "inject") { Json rc2 = Json::arr(); for (auto &a : op["rcpts"].a) { std::string ad = a.str(); size_t at = ad.find('@'); bool simple = at != std::string::npos && (ad[0] == 'l' || ad[0] == 'r') && (ad.compare(at, std::string::npos, "@l.example") == 0 || ad.compare(at, std::string::npos, "@r.example") == 0);
        if (simple && r2.chance(0.6)) { std::string nw = ad.substr(0, at) + r2.pick(evil) + ad.substr(at); ren[ad] = nw; rc2.push(nw); } else rc2.push(ad); } op.set("rcpts", rc2); }
    for (auto &op : p.ops.a) if (op.gets("op") == "script") { auto it = ren.find(op.gets("rcpt")); if (it != ren.end()) op.set("rcpt", it->second); }
    p.label += " +line breaks in recipient names";
  }
  return true;
}

static RegisterProperty reg_c14(PropertyDef{
    "C14", "Q", "exploration", "deterministic simulation: failure histories through the real queue; every message qmail-send queues is parsed by a reference bounce parser; chain bounce -> double bounce -> discard followed to the empty queue", gen_c14,
    "plan i = f(VERIF_SEED, i): 1-3 messages x 1-4 recipients (local, remote, three virtual-domain forms incl. mixed case and empty-prepend exception) failing permanently or past the lifetime in random order, failure texts from a hostile fragment set (blank lines, `<x@y>:` look-alikes, 8-bit, slashes), "
    "senders ordinary/empty/#@[]/VERP, bouncefrom/bouncehost/doublebounceto/doublebouncehost variants, the bounce and the double bounce scripted to fail, every fifth plan with an I/O fault inside the bounce injection. non-trivial = at least one bounce message was parsed; distinct = distinct (choice stream, trace) hashes",
    q_real(), q_stubs(), q_assume(), "hash over messages of (phase, #pending, #done, accepted) at end of run", 1500, 60000});
}  // namespace sim

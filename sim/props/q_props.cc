// q_props.cc - plan generators for the world-Q properties (C01, C02, C03, C04, ...)
#include "../world.h"
#include "gen_util.h"
#include <errno.h>

namespace sim {

void base_knobs(Rng &r, Plan &p, bool timing_sensitive) {
  static const int caps[] = {512, 1024, 4096, 65536};
  int cap = caps[r.below(4)]; int pbuf = r.chance(0.5) ? 512 : 4096; if (pbuf > cap) pbuf = cap;
  p.knobs.set("pipe_cap", cap).set("pipe_buf", pbuf).set("ino_policy", (int)r.below(3));
  static const double sticks[] = {0.0, 0.3, 0.7, 0.9, 0.98};
  p.knobs.set("stick", sticks[r.below(5)]);
  static const double splits[] = {0.0, 0.2, 0.6};
  p.knobs.set("split_p", splits[r.below(3)]).set("dir_shuffle_p", r.chance(0.5) ? 0.5 : 0.0);
  if (!timing_sensitive && r.chance(0.2)) p.knobs.set("tick_p", r.chance(0.5) ? 0.01 : 0.1);
  if (r.chance(0.25)) {
    p.knobs.set("pct", true); Json pts = Json::arr(); int d = (int)r.range(1, 4);
    for (int i = 0; i < d; i++) pts.push((long long)r.range(1, 1500)); p.knobs.set("pct_points", pts);
  }
}

std::string rand_text(Rng &r, size_t maxlen) {
  static const char *frag[] = {"no such user", "mailbox full", "\n", "\n\n", "<x@y>:\n", "try again later", "\xe9\xfc", "Remote host said: 550", " ", "a", "\n<evil@l.example>:\nforged", "/", "%"};
  std::string s; size_t n = r.below(5);
  for (size_t i = 0; i < n && s.size() < maxlen; i++) s += frag[r.below(13)];
  if (r.chance(0.7) && !s.empty() && s.back() != '\n') s += "\n";
  return s;
}

static Json oracle_list(std::initializer_list<const char *> l) { Json a = Json::arr(); for (auto x : l) a.push(x); return a; }

// ------------------------------------------------------------------------------------------------ C03 / C04 histories
static void gen_history(Rng &r, Plan &p, int mode, bool c04) {
  // messages, recipients, scripts
  int nmsg = (int)r.range(1, 4);
  int64_t lifetime = r.pick(std::vector<int64_t>{0, 1, 100, 5000, 100000, 604800});
  Json conf = Json::obj();
  conf.set("queuelifetime", (long long)lifetime);
  if (c04 || r.chance(0.5)) { conf.set("concurrencylocal", (int)r.range(0, 5)); conf.set("concurrencyremote", (int)r.range(0, 5)); }
  if (r.chance(0.5)) { p.knobs.set("spawn_limit_local", r.chance(0.2) ? 255 : (int)r.range(0, 5)); p.knobs.set("spawn_limit_remote", r.chance(0.2) ? 255 : (int)r.range(0, 5)); }
  // a channel with zero capacity can never drain: keep at least 1 where we demand draining
  bool can_drain = true;
  { int64_t cl = conf.geti("concurrencylocal", 10), cr = conf.geti("concurrencyremote", 20), sl = p.knobs.geti("spawn_limit_local", 120), sr = p.knobs.geti("spawn_limit_remote", 120);
    if (cl == 0 || cr == 0 || sl == 0 || sr == 0) can_drain = false; }
  p.knobs.set("conf", conf);
  p.ops.push(Json::obj().set("op", "boot"));
  int rid = 0;
  std::vector<Json> later;
  for (int m = 0; m < nmsg; m++) {
    Json inj = Json::obj(); inj.set("op", "inject").set("id", "m" + std::to_string(m + 1));
    std::string sender; int sf = (int)r.below(6);
    if (sf == 0) sender = ""; else if (sf == 1) sender = "#@[]"; else if (sf == 2) sender = "owner-@lists.example-@[]"; else sender = "s" + std::to_string(m) + "@x.example";
    inj.set("sender", sender);
    Json rc = Json::arr(); int nr = (int)r.range(1, 4);
    for (int q = 0; q < nr; q++) {
      bool local = r.chance(0.5); std::string addr = (local ? "l" : "r") + std::to_string(++rid) + (local ? "@l.example" : "@r.example");
      rc.push(addr);
      Json sc = Json::obj(); sc.set("op", "script").set("rcpt", addr); Json at = Json::arr(); int na = (int)r.range(0, 3);
      for (int a = 0; a < na; a++) {
        Json x = Json::obj(); int v = (int)r.below(10);
        if (v < 3) x.set("v", "K"); else if (v < 6) x.set("v", "Z"); else if (v < 8) x.set("v", "D"); else if (v == 8) x.set("v", r.chance(0.5) ? "X" : "k"); else x.set("v", "");
        x.set("text", rand_text(r, 200)); x.set("lat", (long long)(r.chance(0.5) ? 0 : r.range(1, 50)));
        at.push(x);
      }
      // the final answer is always K or D so that the history is finite
      Json fin = Json::obj(); fin.set("v", r.chance(0.6) ? "K" : "D").set("text", rand_text(r, 100)).set("lat", (long long)r.below(5)); at.push(fin);
      sc.set("attempts", at); p.ops.push(sc);
    }
    inj.set("rcpts", rc).set("body_len", (long long)r.pick(std::vector<int64_t>{0, 1, 50, 300, 2100})).set("body_seed", (long long)r.below(1000));
    if (r.chance(0.6)) p.ops.push(inj); else later.push_back(inj);
    if (r.chance(0.3)) p.ops.push(Json::obj().set("op", "yield").set("n", (long long)r.range(1, 60)));
  }
  auto sig = [&](const char *s) { p.ops.push(Json::obj().set("op", "signal").set("to", "qmail-send").set("sig", s)); };
  auto nap = [&]() { if (r.chance(0.5)) p.ops.push(Json::obj().set("op", "yield").set("n", (long long)r.range(1, 400))); else p.ops.push(Json::obj().set("op", "sleep").set("s", (long long)r.range(1, 3000))); };
  int nsig = (int)r.below(3);
  for (int s = 0; s < nsig; s++) { nap(); sig(r.chance(0.5) ? "ALRM" : "HUP"); }
  for (auto &inj : later) { nap(); p.ops.push(inj); }
  // disturbances
  if (mode == 1) {  // clean stop and restart
    nap(); p.ops.push(Json::obj().set("op", "shutdown").set("max_s", 200000)); p.ops.push(Json::obj().set("op", "boot"));
  } else if (mode == 2) {  // process crash of a daemon before one of its calls
    Fault f; f.actor = r.chance(0.8) ? "qmail-send" : "qmail-clean"; f.call = r.chance(0.5) ? C_ANY : r.pick(std::vector<CallId>{C_UNLINK, C_WRITE, C_OPEN, C_FSYNC}); f.nth = (int)r.range(1, f.call == C_ANY ? 400 : 25); f.kind = "kill";
    p.faults.push_back(f);
  } else if (mode == 3 || mode == 4) {  // machine crash: completed writes kept / unsynced data lost
    Fault f; f.actor = r.chance(0.8) ? "qmail-send" : (r.chance(0.5) ? "qmail-clean" : "qmail-queue"); f.call = r.chance(0.5) ? C_ANY : r.pick(std::vector<CallId>{C_UNLINK, C_WRITE, C_OPEN, C_FSYNC, C_LINK});
    f.nth = (int)r.range(1, f.call == C_ANY ? 400 : 25); f.kind = "crash"; f.image = mode == 3 ? "best" : (r.chance(0.5) ? "worst" : "random");
    p.faults.push_back(f);
    if (mode == 4) p.knobs.set("lossy", true);
    if (r.chance(0.3)) { Fault g = f; g.nth = (int)r.range(1, 300); p.faults.push_back(g); }
  } else if (mode == 5) {  // one failing call in a daemon
    Fault f; f.actor = r.chance(0.85) ? "qmail-send" : "qmail-clean";
    f.call = r.pick(std::vector<CallId>{C_OPEN, C_READ, C_WRITE, C_FSYNC, C_UNLINK, C_STAT, C_UTIMES, C_FSTAT, C_OPENDIR});
    f.nth = (int)r.range(1, 30); f.kind = "error"; f.err = r.pick(std::vector<int>{EIO, ENOSPC, ENOMEM, ENFILE});
    if (f.call == C_WRITE) f.path = r.chance(0.7) ? "/queue/" : "";
    p.faults.push_back(f);
  } else if (mode == 6) {  // allocation failure in the daemon
    Fault f; f.actor = "qmail-send"; f.call = C_MALLOC; f.nth = (int)r.range(1, 120); f.kind = "null"; p.faults.push_back(f);
  } else if (mode == 7) {  // spawner dies with a delivery outstanding
    // replace one attempt by "die"
    for (auto &op : p.ops.a) if (op.gets("op") == "script" && r.chance(0.4)) { Json &at = op.at("attempts"); at.a[0].set("die", true); break; }
  } else if (mode == 8) {  // bounce injection trouble: a fault inside the qmail-queue that qmail-send runs
    Fault f; f.actor = "qmail-queue"; f.call = r.pick(std::vector<CallId>{C_WRITE, C_FSYNC, C_LINK, C_OPEN, C_READ}); f.nth = (int)r.range(1, 12); f.kind = "error"; f.err = EIO;
    p.faults.push_back(f);
  }
  int64_t horizon = lifetime + 400000;
  p.ops.push(Json::obj().set("op", "settle").set("max_s", (long long)horizon));
  if (mode >= 2) {
    for (int q = 0; q < 3; q++) { p.ops.push(Json::obj().set("op", "boot")); p.ops.push(Json::obj().set("op", "settle").set("max_s", (long long)horizon)); }
  }
  p.knobs.set("expect_drain", can_drain);
  p.knobs.set("max_sim_s", (long long)(horizon * 6 + 1000000));
}

static const char *kModeNames[] = {"fault-free", "term-restart", "process-crash", "machine-crash-kept", "machine-crash-lossy", "io-error", "alloc-fail", "spawner-death", "bounce-injection-fault"};

static bool gen_c03(uint64_t seed, const std::string &tier, uint64_t i, Plan &p) {
  (void)tier;
  p = Plan(); p.property = "C03"; p.world = "Q"; p.seed = mix64(mix64(seed, 0xC03), i);
  Rng r(p.seed);
  static const int modes[] = {0, 0, 0, 1, 2, 2, 3, 4, 4, 5, 5, 6, 7, 8, 8, 0};
  int mode = modes[i % 16];
  base_knobs(r, p, false);
  gen_history(r, p, mode, false);
  p.knobs.set("oracles", oracle_list({"c03"}));
  p.label = std::string("history/") + kModeNames[mode];
  return true;
}

static bool gen_c04(uint64_t seed, const std::string &tier, uint64_t i, Plan &p) {
  (void)tier;
  p = Plan(); p.property = "C04"; p.world = "Q"; p.seed = mix64(mix64(seed, 0xC04), i);
  Rng r(p.seed);
  static const int modes[] = {0, 0, 1, 1, 2, 3, 4, 0, 7, 1, 2, 3};
  int mode = modes[i % 12];
  base_knobs(r, p, false);
  gen_history(r, p, mode, true);
  p.knobs.set("oracles", oracle_list({"c04"}));
  p.label = std::string("history/") + kModeNames[mode];
  return true;
}

static std::vector<std::string> q_real() { return {"qmail-start", "qmail-send", "qmail-clean", "qmail-queue (injectors and bounce injection)", "trigger FIFO, flock, pipes via simos"}; }
static std::vector<std::string> q_stubs() { return {"qmail-lspawn/qmail-rspawn replaced by scripted spawner stubs speaking the delivery protocol", "message/envelope feeders (pre-filled pipes)", "log sink on qmail-send fd 0"}; }
static std::vector<std::string> q_assume() {
  return {"simos models POSIX/Linux semantics (DESIGN 2, Appendix A); directory operations synchronous and single-byte writes atomic, as conf-qmail stipulates",
          "fork is emulated vfork-style: a parent does not run between fork and the child's exec/_exit", "one yield point per system call; signal handlers run at call boundaries",
          "a clean batch is evidence bounded by the explored plans, not a proof"};
}

static RegisterProperty reg_c03(PropertyDef{
    "C03", "Q", "exploration", "deterministic simulation: seeded schedules/faults over real qmail-send+qmail-clean+qmail-queue, ghost-state oracle per recipient", gen_c03,
    "plan i = f(VERIF_SEED, i): 1-4 messages x 1-4 unique local/remote recipients, per-attempt outcome scripts (K/Z/D/garbled/empty, latencies), signals, and one disturbance class per plan "
    "(none, TERM+restart, daemon kill, machine crash with writes kept, machine crash losing unsynced data, one failing syscall, allocation failure, spawner death, fault inside bounce injection); "
    "a run is non-trivial if at least one delivery command reached a spawner; distinct = distinct (choice stream, trace) hashes among non-trivial runs",
    q_real(), q_stubs(), q_assume(), "hash over messages of (phase, #pending, #done, accepted) at end of run", 1500, 60000});

static RegisterProperty reg_c04(PropertyDef{
    "C04", "Q", "exploration", "deterministic simulation: same histories as C03 with concurrency settings 0-5 and announced spawner limits; ghost of outstanding attempts and completion marks", gen_c04,
    "plan i = f(VERIF_SEED, i): C03 histories with concurrencylocal/remote in 0..5 and spawner limits 0..5,255; disturbances restricted to those C04 quantifies over (signals, TERM+restart, daemon kill, machine crashes, spawner death); "
    "non-trivial = at least one delivery command; distinct = distinct (choice stream, trace) hashes among non-trivial runs",
    q_real(), q_stubs(), q_assume(), "hash over messages of (phase, #pending, #done, accepted) at end of run", 1500, 60000});

}  // namespace sim

// so_props.cc - plan generators for C06 (outbound DATA encoding), C09 (remote delivery verdicts), C17 (relay round trip)
#include "../world.h"
#include "gen_util.h"
#include <errno.h>
#include <string.h>

namespace sim {

static void so_knobs(Rng &r, Plan &p) {
  p.knobs.set("split_p", r.pick(std::vector<double>{0.0, 0.3, 0.9})).set("stick", r.pick(std::vector<double>{0.0, 0.5, 0.95}));
  Json routes = Json::arr(); routes.push(":[10.1.1.1]"); p.knobs.set("smtproutes", routes);   // no DNS unless the plan sets a zone
  Json hosts = Json::obj(); hosts.set(std::to_string(0x0a010101), Json::obj().set("kind", "accept")); p.knobs.set("hosts", hosts);
}

static const char *kTok6[] = {"\r", "\n", ".", "x"};

static bool gen_c06(uint64_t seed, const std::string &tier, uint64_t i, Plan &p) {
  p = Plan(); p.property = "C06"; p.world = "SO"; p.seed = mix64(mix64(seed, 0xC06), i);
  Rng r(p.seed); so_knobs(r, p);
  p.knobs.set("oracles", oracle_list({"c06"}));
  uint64_t maxlen = tier == "quick" ? 5 : 8; uint64_t total = 0, pw = 1; std::vector<uint64_t> cum; for (uint64_t l = 0; l <= maxlen; l++) { total += pw; cum.push_back(total); pw *= 4; }
  std::string msg, lab;
  if (i < total) { uint64_t l = 0; while (i >= cum[l]) l++; uint64_t idx = i - (l ? cum[l - 1] : 0); for (uint64_t q = 0; q < l; q++) { msg += kTok6[idx % 4]; idx /= 4; } if (r.chance(0.5) && (msg.empty() || msg.back() != '\n')) msg += "\n"; lab = "enumerated length " + std::to_string(l); }
  else {
    int kind = (int)r.below(5);
    if (kind == 4) {   // long lines: around the 998/1000-byte line limits of RFC 5321 and around the 1024/2048/4096-byte buffers, dots at the edges
      int nl = (int)r.range(1, 4);
      for (int q = 0; q < nl; q++) { size_t len = (size_t)r.pick(std::vector<int>{996, 997, 998, 999, 1000, 1001, 1002, 1022, 1023, 1024, 1025, 2047, 2048, 2049, 4095, 4096, 4097, 9000}) + (size_t)r.below(3);
        std::string line; for (size_t c = 0; c < len; c++) line += r.chance(0.03) ? '.' : (char)('a' + r.below(26));
        if (r.chance(0.5)) line[0] = '.'; if (r.chance(0.6)) line[len - 1] = '.'; if (len > 1000 && r.chance(0.6)) { line[997] = '.'; line[998] = '.'; line[999] = '.'; }
        msg += line + (r.chance(0.15) ? "\r\n" : "\n"); if (r.chance(0.5)) msg += "MAIL FROM:<evil@x.example>\nRCPT TO:<victim@r.example>\nDATA\nforged\n.\n"; }
      lab = "long lines"; }
    else if (kind == 0) { size_t n = (size_t)r.range(9, 60); for (size_t q = 0; q < n; q++) msg += kTok6[r.below(4)]; msg += "\n"; lab = "random tokens"; }
    else if (kind == 1) { size_t n = (size_t)r.pick(std::vector<int>{1020, 1021, 1022, 1023, 1024, 1025, 1026, 2047, 2048, 2049, 3000, 8000}); while (msg.size() < n) { int t = (int)r.below(30); msg += t == 0 ? "\n" : t == 1 ? ".\n" : t == 2 ? "\n." : t == 3 ? "\r" : t == 4 ? "\r\n" : std::string(1, (char)('a' + r.below(26))); } msg.resize(n); msg.back() = '\n'; lab = "around buffer sizes"; }
    else { msg = gen_body(r.next(), (size_t)r.range(0, 8000)); if (r.chance(0.85) && (msg.empty() || msg.back() != '\n')) msg += "\n"; lab = "random message"; }
  }
  p.knobs.set("msg", msg);
  // legal short writes on the connection (a blocked writer that was signalled or stopped): write() accepts only a few of the bytes offered
  if (r.chance(0.3)) { int nf = (int)r.range(1, 3); for (int q = 0; q < nf; q++) { Fault f; f.actor = "qmail-remote"; f.call = C_WRITE; f.nth = (int)r.range(1, 12); f.kind = "short"; f.arg = r.pick(std::vector<int64_t>{1, 2, 10, 100, 300, 500, 511, 513}); p.faults.push_back(f); } }
  // the queue file becomes unreadable half-way (I/O error on a refill of the input buffer)
  if (r.chance(0.1) && p.faults.empty()) { Fault f; f.actor = "qmail-remote"; f.call = C_READ; f.path = "/mess/"; f.nth = (int)r.range(1, 6); f.kind = "error"; f.err = EIO; p.faults.push_back(f); }
  bool relay = i % 5 == 4 && msg.find('\r') == std::string::npos;
  if (relay) { p.knobs.set("relay", true); lab += " (to own smtpd)"; }
  Json rc = Json::arr(); rc.push("u@r.example"); p.knobs.set("rcpts", rc);
  p.label = lab + " \"" + printable(msg, 40) + "\"";
  return true;
}

static Json rep(int code, const std::string &form = "single", const std::string &act = "reply", int64_t stall = 0) { Json j = Json::obj(); j.set("code", code).set("form", form).set("act", act); if (stall) j.set("stall", (long long)stall); return j; }

static Json rand_reply(Rng &r, int good, int64_t tmo) {
  int k = (int)r.below(20);
  static const std::vector<std::string> forms = {"single", "single", "multi", "long", "bin"};
  if (k < 9) return rep(good, r.pick(forms));
  if (k < 11) return rep((int)r.pick(std::vector<int>{200, 211, 220, 250, 251, 252, 299}), r.pick(forms));
  if (k == 11) return rep((int)r.pick(std::vector<int>{300, 354, 399}), r.pick(forms));
  if (k < 14) return rep((int)r.pick(std::vector<int>{400, 421, 450, 451, 452, 499}), r.pick(forms));
  if (k < 16) return rep((int)r.pick(std::vector<int>{500, 550, 552, 553, 554, 599, 600, 650, 700, 999}), r.pick(forms));
  if (k == 16) { Json g = rep(999); g.set("text", r.pick(std::vector<std::string>{"ERROR: go away", "-ERR not here", "HTTP/1.1 400 Bad Request", "abc hello", " 250 leading space", "\xff\xfe\x01", "+OK"})); return g; }
  if (k == 17) return rep(good, "single", "close");
  if (k == 18) return rep(good, "single", "stall", r.chance(0.5) ? tmo + 50 : tmo - 50);
  return rep(good, "single", r.chance(0.5) ? "rst" : "dribble");
}

static bool gen_c09(uint64_t seed, const std::string &tier, uint64_t i, Plan &p) {
  (void)tier;
  p = Plan(); p.property = "C09"; p.world = "SO"; p.seed = mix64(mix64(seed, 0xC09), i);
  Rng r(p.seed);
  if (i % 4 == 3) {   // spawner leg: every (exit status, crash) x output grammar combination through the real qmail-rspawn
    p.world = "H"; p.knobs.set("mode", "rspawn").set("oracles", oracle_list({"c09"})).set("split_p", r.pick(std::vector<double>{0.0, 0.5})).set("stick", r.pick(std::vector<double>{0.3, 1.0})).set("pipe_buf", 512);
    int n = (int)r.range(1, 4); std::string st; Json ag = Json::arr();
    const std::string Z(1, '\0');
    for (int q = 0; q < n; q++) {
      st.push_back((char)q); st += "1/1"; st.push_back('\0'); st += "s@x.example"; st.push_back('\0'); st += "u" + std::to_string(q) + "@r.example"; st.push_back('\0');
      std::string o; int segs = (int)r.range(0, 4);
      for (int s2 = 0; s2 < segs; s2++) { o += r.pick(std::vector<std::string>{"r", "h host does not like recipient.\n", "s try later\n", "K accepted", "Z deferred", "D failed", "k", "", "x junk", "Kok", "rK"}); if (r.chance(0.85)) o += Z; }
      int kind = (int)r.below(12); if (kind == 0) o = ""; else if (kind == 1) o = Z; else if (kind == 2) o = std::string((size_t)r.range(1000, 100000), 'K'); else if (kind == 3) o = "K" + Z; else if (kind == 4) o = "r" + Z + "K ok" + Z;
      Json a = Json::obj(); a.set("out", o).set("code", (long long)(r.chance(0.5) ? 0 : r.pick(std::vector<int>{111, 100, 1, 255, 0, 99, 112, 110}))).set("lat", (long long)r.below(2)); if (r.chance(0.1)) a.set("crash", true); if (r.chance(0.3)) a.set("linger", (long long)r.range(1, 5)); ag.push(a);
    }
    p.ops.push(Json::obj().set("op", "stream").set("bytes", st)); p.knobs.set("agents", ag);
    p.label = "spawner leg: " + std::to_string(n) + " deliveries";
    if (r.chance(0.15)) { Fault f; f.actor = "qmail-rspawn#"; f.call = r.pick(std::vector<CallId>{C_FSTAT, C_PIPE, C_FORK, C_FORK}); f.nth = (int)r.range(1, 4); f.kind = "error"; f.err = r.pick(std::vector<int>{EAGAIN, ENOMEM, EMFILE, EIO}); p.faults.push_back(f); p.label += " +spawner fault"; }
    return true;
  }
  so_knobs(r, p);
  p.knobs.set("oracles", oracle_list({"c09"}));
  int64_t tmo = r.pick(std::vector<int64_t>{100, 1200}); p.knobs.set("timeoutremote", (long long)tmo);
  int nr = (int)r.range(1, 3); Json rc = Json::arr(); for (int q = 0; q < nr; q++) rc.push("u" + std::to_string(q) + "@r.example"); p.knobs.set("rcpts", rc);
  p.knobs.set("msg", r.chance(0.9) ? "Subject: t\n\nbody\n.\nmore\n" : "partial last line");
  Json sv = Json::obj();
  // most phases behave; one or two misbehave
  auto ph = [&](int good) { return r.chance(0.25) ? rand_reply(r, good, tmo) : rep(good, r.chance(0.8) ? "single" : "multi"); };
  sv.set("greeting", ph(220)).set("helo", ph(250)).set("mail", ph(250)); Json rr = Json::arr(); for (int q = 0; q < nr; q++) rr.push(r.chance(0.4) ? rand_reply(r, 250, tmo) : rep(250)); sv.set("rcpt", rr);
  sv.set("data", r.chance(0.08) ? rep(354, "single", "reply_rst") : ph(354)).set("dot", r.chance(0.5) ? rand_reply(r, 250, tmo) : rep(250));
  // a server that says 354 and then reads nothing more (a full disk, a stuck filter): with a message larger than the connection holds
  // the client's writes stop and time out; a small message goes out and its acknowledgement never comes
  if (r.chance(0.06)) { sv.set("data", rep(354, "single", "noread", tmo + 5000)); bool big = r.chance(0.6); p.knobs.set("msg", big ? gen_body(r.next(), (size_t)r.range(150000, 400000)) + "\n" : gen_body(r.next(), (size_t)r.range(10, 20000)) + "\n"); }
  p.knobs.set("server", sv);
  int net = (int)(i % 6);
  std::string lab = "scripted server"; bool lab_self = false;
  if (net == 4) {   // MX set with 1-3 hosts, some refusing or timing out
    p.knobs.erase("smtproutes"); p.knobs.set("timeoutconnect", 30);
    Json zone = Json::obj(); Json mx = Json::obj(); Json a = Json::obj(); Json hosts = Json::obj(); Json mxl = Json::arr();
    int n = (int)r.range(1, 3); bool any_accept = false;
    for (int q = 0; q < n; q++) { std::string h = "mx" + std::to_string(q) + ".r.example"; Json e = Json::arr(); e.push((q + 1) * 10); e.push(h); mxl.push(e); uint32_t ip = 0x0a020200 + (uint32_t)q; Json al = Json::arr(); al.push((long long)ip); a.set(h, al);
      std::string kind = q + 1 == n && r.chance(0.7) ? "accept" : r.pick(std::vector<std::string>{"refuse", "timeout", "accept"}); if (kind == "accept") any_accept = true; hosts.set(std::to_string(ip), Json::obj().set("kind", kind).set("delay", (long long)r.below(5))); }
    // the first host answers before it is asked: a greeting that is not 220 and, in the same packet, a whole session's worth of further
    // replies. Whatever another host is told afterwards, it has to answer for itself: in about half of these plans the second host
    // refuses the sender, a recipient or the message.
    if (n >= 2 && r.chance(0.3)) {
      for (auto &hp : hosts.o) hp.second.set("kind", "accept"); any_accept = true;
      { Json g0 = rep((int)r.pick(std::vector<int>{421, 451, 421, 554, 450}), "burst" + std::to_string(nr)); for (auto &hp : hosts.o) if (hp.first == std::to_string(0x0a020200u)) hp.second.set("greeting", g0); }
      int bad = (int)r.below(6); if (bad == 0) sv.set("mail", rep(r.chance(0.5) ? 550 : 451)); else if (bad == 1) { Json rr2 = Json::arr(); for (int q = 0; q < nr; q++) rr2.push(rep(r.chance(0.5) ? 550 : 450)); sv.set("rcpt", rr2); } else if (bad == 2) sv.set("dot", rep(r.chance(0.5) ? 554 : 452)); else if (bad == 3) sv.set("data", rep(r.chance(0.5) ? 554 : 451));
      sv.set("greeting", rep(220)); p.knobs.set("server", sv);
    }
    // equal preferences (the order among them is random by design), and this host itself among the MX hosts: only better ones may be tried
    if (n > 1 && r.chance(0.3)) for (auto &e : mxl.a) e.a[0] = Json((long long)10);
    if (r.chance(0.3)) { std::string h = "self.r.example"; Json e = Json::arr(); e.push((long long)r.pick(std::vector<int>{5, 10, 15, 20, 25, 30, 35})); e.push(h); mxl.push(e); Json al = Json::arr(); al.push((long long)(r.chance(0.7) ? 0x0a000007 : 0x7f000001)); a.set(h, al); hosts.set(std::to_string(al.a[0].i()), Json::obj().set("kind", "accept")); lab_self = true; }
    if (r.chance(0.2)) for (auto &hp : hosts.o) if (hp.second.gets("kind") == "accept" && hp.second.geti("delay", 0) == 0) hp.second.set("immediate", true);
    // the address lookup of one MX host fails, for the moment or for good
    if (r.chance(0.2)) { Json fl = Json::obj(); fl.set(mxl.a[r.below(mxl.a.size())].a[1].str(), r.chance(0.7) ? "soft" : "hard"); zone.set("fail", fl); lab_self = lab_self; }
    if (i % 12 == 4) zone.set("mixed", (long long)(1 + (i / 12) % 3));   // every other MX-set plan: records of other types (CNAME, TXT, a signature) among the MX and A records of the answers; decided by the plan index alone, no draw
    mx.set("r.example", mxl); zone.set("mx", mx).set("a", a); p.knobs.set("zone", zone).set("hosts", hosts);
    lab = "mx set of " + std::to_string(n) + (any_accept ? "" : " (none accepts)") + (lab_self ? " +self" : "");
    // the hosts were all down a few minutes ago (one or two earlier attempts timed out) and are up now: a listed host is skipped for a while, a success clears its record
    if (any_accept && r.chance(0.25)) { p.knobs.set("earlier_runs", (long long)r.range(1, 3)).set("earlier_gap_s", (long long)r.pick(std::vector<int64_t>{10, 130, 200, 5000})).set("earlier_all_timeout", true); lab += " after an outage"; }
    // ... and the table of unreachable hosts is already full of OTHER hosts (or short, or of odd length) when these time out
    if (r.chance(0.4)) { p.knobs.set("tcpto_table", r.pick(std::vector<std::string>{"full", "full", "partial", "odd"})); lab += " tcpto " + p.knobs.gets("tcpto_table"); }
    // a destination that has been unreachable for a while: two or three earlier attempts, minutes apart, then the judged one
    if (!any_accept && r.chance(0.6)) { p.knobs.set("earlier_runs", (long long)r.range(1, 3)).set("earlier_gap_s", (long long)r.pick(std::vector<int64_t>{10, 130, 200, 1000, 5000})); lab += " after earlier attempts"; }
  } else if (net == 5) {   // resolver trouble
    p.knobs.erase("smtproutes"); Json zone = Json::obj(); Json fail = Json::obj(); fail.set("r.example", r.chance(0.6) ? "soft" : "hard"); zone.set("fail", fail); p.knobs.set("zone", zone);
    lab = "dns " + fail.gets("r.example");
  }
  // the canonical-name lookup for the sender's or a recipient's domain fails for the moment: nothing is sent, temporary failure
  if (r.chance(0.03)) { Json z = p.knobs.has("zone") ? p.knobs["zone"] : Json::obj(); if (!p.knobs.has("zone")) { Json a = Json::obj(); Json al = Json::arr(); al.push((long long)0x0a010101); a.set("r.example", al); z.set("a", a); } Json fl = z.has("fail") ? z["fail"] : Json::obj(); fl.set("x.example", "soft"); z.set("fail", fl); p.knobs.set("zone", z).set("sender", "s@x.example"); lab += " +cname-soft"; }
  if (r.chance(0.08)) { Fault f; f.actor = "qmail-remote"; f.call = C_MALLOC; f.nth = (int)r.range(1, 80); f.kind = "null"; p.faults.push_back(f); }
  add_short_io(r, p, "qmail-remote", 0.2, false);
  p.label = lab + " rcpts=" + std::to_string(nr);
  return true;
}

static std::string c17_local(Rng &r, uint64_t idx, bool enumerated) {
  static const char alpha[] = {'a', 'B', '.', '"', '\\', ' ', '\t', '\r', '(', ')', '<', '>', '@', ',', ';', ':', '[', ']', '\xe9', '-'};
  std::string s;
  if (enumerated) { uint64_t len = 1; uint64_t base = 20, lim = 20; while (idx >= lim && len < 3) { idx -= lim; len++; lim *= base; } for (uint64_t q = 0; q < len; q++) { s += alpha[idx % 20]; idx /= 20; } return s; }
  size_t n = (size_t)r.range(1, 12); for (size_t q = 0; q < n; q++) s += alpha[r.below(20)]; return s;
}

// reference header quoting of a local part (RFC 822: dot-atom or quoted-string)
static std::string hdr_quote(const std::string &box) {
  bool need = box.empty(); for (unsigned char c : box) if (c >= 128 || c <= 32 || c == 127 || strchr("()<>@,;:\\\"[]", c)) need = true;
  if (!need && (box[0] == '.' || box.back() == '.' || box.find("..") != std::string::npos)) need = true;
  if (!need) return box;
  std::string o = "\""; for (char c : box) { if (c == '"' || c == '\\' || c == '\r') o += '\\'; o += c; } return o + "\"";
}

// qmail-header(5), RESENT MESSAGES: a message that carries any Resent- field is a resent message, and its envelope recipients are the
// addresses in Resent-To, Resent-Cc and Resent-Bcc - not the original To/Cc/Bcc. One field alone must be enough, Resent-Bcc too (which,
// like Bcc, is then deleted from the header). Generator of its own for one in ten of the qmail-inject plans.
static bool gen_c17_resent(Plan &p) {
  Rng r(mix64(p.seed, 0x4e5e17));
  p.world = "I"; p.knobs.set("oracles", oracle_list({"c17"})).set("split_p", r.pick(std::vector<double>{0.0, 0.5})).set("stick", 1.0);
  p.knobs.set("env", Json::obj());
  std::string hdr = "From: Sender Person <sender@x.example>\n"; std::vector<std::string> orig, resent; int n = 0;
  auto box = [&](const char *pre) { return std::string(pre) + std::to_string(++n) + "@" + r.pick(std::vector<std::string>{"x.example", "y.example", "a.b.example"}); };
  auto field = [&](const std::string &name, std::vector<std::string> &into) { int k = (int)r.range(1, 2); std::string l; for (int q = 0; q < k; q++) { std::string b = box(name[0] == 'R' || name[0] == 'r' ? "rs" : "or"); into.push_back(b); l += (q ? ", " : "") + (r.chance(0.3) ? "Name <" + b + ">" : b); } hdr += name + ": " + l + "\n"; };
  field(r.pick(std::vector<std::string>{"To", "to"}), orig); if (r.chance(0.5)) field("Cc", orig); if (r.chance(0.3)) field("Bcc", orig);
  int which = (int)r.below(8);   // bit 0 Resent-To, bit 1 Resent-Cc, bit 2 Resent-Bcc; 0 = not resent at all
  std::vector<std::string> order = {"Resent-To", "Resent-Cc", "Resent-Bcc"}; if (r.chance(0.3)) std::swap(order[0], order[2]);
  for (auto &f : order) { int bit = f == "Resent-To" ? 1 : f == "Resent-Cc" ? 2 : 4; if (which & bit) { std::string fl = f; if (r.chance(0.2)) for (auto &c : fl) c = (char)tolower((unsigned char)c); field(fl, resent); } }
  if (which && r.chance(0.3)) hdr += "Resent-From: resender@x.example\n";
  hdr += "Subject: s\n\nbody line\n";
  p.knobs.set("stdin", hdr); Json args = Json::arr(); if (r.chance(0.4)) args.push("-h"); p.knobs.set("args", args);
  Json ex = Json::obj(); Json wr = Json::arr(); for (auto &w : (which ? resent : orig)) wr.push(w); ex.set("rcpts", wr); p.knobs.set("expect", ex);
  p.label = std::string("qmail-inject, ") + (which ? "resent message (fields " + std::to_string(which) + ")" : "not resent");
  return true;
}

static bool gen_c17_inject(Rng &r, Plan &p) {
  if (mix64(p.seed, 0x5e5e) % 10 == 0) return gen_c17_resent(p);
  p.world = "I"; p.knobs.set("oracles", oracle_list({"c17"})).set("split_p", r.pick(std::vector<double>{0.0, 0.5})).set("stick", 1.0);
  std::string dhost = "sim.example", ddom = "sim.example", pdom = "sim.example"; Json env = Json::obj();
  if (r.chance(0.4)) { dhost = r.pick(std::vector<std::string>{"dh.example", "shorthost"}); env.set("QMAILDEFAULTHOST", dhost); }
  if (r.chance(0.4)) { ddom = "dd.example"; env.set("QMAILDEFAULTDOMAIN", ddom); }
  if (r.chance(0.4)) { pdom = "plus.example"; env.set("QMAILPLUSDOMAIN", pdom); }
  if (r.chance(0.3)) env.set("QMAILINJECT", r.pick(std::vector<std::string>{"c", "s", "f", "i", "cs", "fi"}));
  p.knobs.set("env", env);
  auto rewrite = [&](std::string box, std::string host, bool has_host) { if (!has_host) host = dhost; if (!host.empty() && host.back() == '+') host = host.substr(0, host.size() - 1) + "." + pdom; else if (host.find('.') == std::string::npos && (host.empty() || host[0] != '[')) host += "." + ddom; return box + "@" + host; };
  static const std::vector<std::string> boxes = {"joe", "Joe.Shmoe", "a b", "a\"b", "x,y", "semi;colon", "back\\slash", "(paren)", "<angle>", "at@sign", "u-v_w+z", "we:ird", ".dot", "x..y", "\xe9t\xe9", "a\tb"};
  static const std::vector<std::string> hosts = {"x.example", "Mixed.Example", "shost", "lab.cs+", "[1.2.3.4]", "a.b.c.d.example"};
  auto cmt = [&]() -> std::string { return r.chance(0.3) ? " (c" + std::string(r.chance(0.3) ? " (nested \\) )" : "") + ") " : (r.chance(0.3) ? "\n\t" : " "); };
  std::vector<std::string> expect; std::string hdr; int last_form = -1;
  auto one = [&](std::vector<std::string> &into) -> std::string {
    std::string box = r.pick(boxes), host = r.pick(hosts); bool has_host = !r.chance(0.1);
    std::string addr = hdr_quote(box) + (has_host ? "@" + host : std::string());
    into.push_back(rewrite(box, host, has_host));
    int f = (int)r.below(7); last_form = f;
    switch (f) {
      case 0: return addr;
      case 1: return r.pick(std::vector<std::string>{"Some Name", "A. Person", "\"Quoted, Name\"", "Na=me"}) + cmt() + "<" + addr + ">";
      case 2: return addr + " (Somebody" + (r.chance(0.3) ? " (inner)" : "") + ")";
      case 3: return "(before)" + cmt() + hdr_quote(box) + (has_host ? cmt() + "@" + cmt() + host : std::string()) + cmt();
      case 4: return has_host ? "<@r1.example,@r2.example:" + addr + ">" : "<" + addr + ">";
      case 5: return "<" + addr + ">";
      default: return r.pick(std::vector<std::string>{"Name", "\"Q\""}) + "\n <" + addr + ">";
    }
  };
  int nf = (int)r.range(1, 3); bool have_to = false, has_bcc = false; std::vector<std::string> dummy;
  for (int fi = 0; fi < nf; fi++) {
    std::string name = fi == 0 ? r.pick(std::vector<std::string>{"To", "to", "TO", "Cc"}) : r.pick(std::vector<std::string>{"Cc", "Bcc", "bcc", "To", "Apparently-To"});
    if (name[0] == 'T' || name[0] == 't' || name[0] == 'C') have_to = true;
    if (name[0] == 'B' || name[0] == 'b') has_bcc = true;
    std::string list; int n = (int)r.range(1, 4);
    // qmail-header(5), OTHER FEATURES: "Addresses are separated by commas, not spaces. When qmail-inject sees an illegal space, it
    // inserts a comma: djb fred -> djb, fred". Two neighbouring mailboxes that are both written without angle brackets (comments
    // and folding count as space) are sometimes joined by white space only; the envelope must still hold both.
    auto plain = [](int f) { return f == 0 || f == 2 || f == 3; };
    std::vector<std::string> items; std::vector<int> forms;
    for (int q = 0; q < n; q++) {
      std::string item;
      if (r.chance(0.15)) {
        int gm = (int)r.below(3); item = r.pick(std::vector<std::string>{"random group", "list", "\"g;x\""}) + ":";
        std::vector<std::string> mem; std::vector<int> mf; for (int m = 0; m < gm; m++) { std::string lead = cmt(); mem.push_back(lead + one(expect)); mf.push_back(last_form); }
        for (int m = 0; m < gm; m++) { if (m) item += (plain(mf[(size_t)m - 1]) && plain(mf[(size_t)m]) && r.chance(0.25)) ? "" : ","; item += mem[(size_t)m]; }   // (every member starts with white space or a comment)
        item += ";"; forms.push_back(-1);
      }
      else { item = one(expect); forms.push_back(last_form); }
      items.push_back(item);
    }
    for (int q = 0; q < n; q++) {
      list += items[(size_t)q];
      if (q + 1 < n) { if (plain(forms[(size_t)q]) && plain(forms[(size_t)q + 1]) && r.chance(0.3)) list += r.pick(std::vector<std::string>{" ", "  ", "\n\t", " (c) ", "\n ", "\t"}); else list += r.chance(0.9) ? "," + cmt() : ",\n\t"; }
    }
    if (r.chance(0.1)) list += ",";
    // (white space between a field name and its colon is tolerated by the header recogniser: the field still counts)
    hdr += name + (r.chance(0.8) ? "" : r.pick(std::vector<std::string>{" ", "\t", " \t", "\t "})) + ":" + (r.chance(0.8) ? " " : "") + list + "\n";
  }
  if (r.chance(0.5)) hdr = "From: Sender Person <sender@x.example>\n" + hdr;
  // an mbox separator in front of the header (the message was piped in from a mailbox): it is kept as an MBOX-Line field and changes nothing else
  if (r.chance(0.08)) hdr = "From someone@x.example Thu Jan  1 00:00:00 1970\n" + hdr;
  // the user's list of mailing lists: when a recipient is on it a Mail-Followup-To field is added; the envelope stays what the header says
  if (r.chance(0.15)) { env.set("QMAILMFTFILE", "/home/user1/mft"); p.knobs.set("env", env).set("mft", r.pick(std::vector<std::string>{"joe@x.example\n", "Joe.Shmoe@Mixed.Example\nu-v_w+z@x.example\n", "nobody@nowhere.example\n", "", "joe@x.example\njoe@shost.dd.example\njoe@a.b.c.d.example\n"})); }
  if (r.chance(0.12)) hdr.pop_back();              // a message that is only a header and whose last line (a recipient field) lacks its newline
  else if (r.chance(0.1)) {}                        // header only, properly ended
  else { if (r.chance(0.3)) hdr += "Subject: s\n"; hdr += r.chance(0.9) ? "\nbody line\n" : "\nbody without newline"; }
  p.knobs.set("stdin", hdr);
  // recipients and sender given as arguments are quoted into a header field by qmail-inject and parsed back: hostile local parts
  auto hostile_box = [&]() -> std::string { std::string b; do { b = c17_local(r, r.next(), false); } while (b.empty()); return b; };
  Json args = Json::arr(); int mode = (int)r.below(8); std::string a1 = (r.chance(0.7) ? hostile_box() : std::string("arg1")) + "@x.example";
  std::vector<std::string> argr = {a1, "arg2"};
  std::vector<std::string> want = expect;
  if (mode == 0) { args.push("-a"); args.push("--"); for (auto &a : argr) args.push(a); want = {a1, rewrite("arg2", "", false)}; }
  else if (mode == 1) { args.push("-h"); args.push("--"); for (auto &a : argr) args.push(a); }
  else if (mode == 2) { args.push("-H"); args.push("--"); for (auto &a : argr) args.push(a); want.push_back(a1); want.push_back(rewrite("arg2", "", false)); }
  else if (mode == 3) { args.push("--"); for (auto &a : argr) args.push(a); want = {a1, rewrite("arg2", "", false)}; }
  std::string fsender = (r.chance(0.6) ? hostile_box() : std::string("env")) + "@sender.example";
  if (mode == 4) { args.push("-f" + fsender); }
  p.knobs.set("args", args);
  Json ex = Json::obj(); Json wr = Json::arr(); for (auto &w : want) wr.push(w); ex.set("rcpts", wr); if (mode == 4) ex.set("sender", fsender);
  p.knobs.set("expect", ex);
  // allocation failures while the header is parsed and rewritten (the token arrays are the large allocations)
  if (r.chance(0.2)) { Fault f; f.actor = "qmail-inject"; f.call = C_MALLOC; f.nth = (int)r.range(1, 120); f.kind = "null"; p.faults.push_back(f); }
  if (mode >= 4 && !has_bcc && p.faults.empty() && r.chance(0.7)) p.knobs.set("reinject", true);  // Bcc is deleted from the stored header, so its addresses cannot come back
  (void)have_to; (void)dummy;
  p.label = "qmail-inject header with " + std::to_string(expect.size()) + " mailboxes, mode " + std::to_string(mode);
  return true;
}

static bool gen_c17(uint64_t seed, const std::string &tier, uint64_t i, Plan &p) {
  p = Plan(); p.property = "C17"; p.world = "SO"; p.seed = mix64(mix64(seed, 0xC17), i);
  Rng r(p.seed);
  if (i % 3 == 2) return gen_c17_inject(r, p);
  so_knobs(r, p);
  p.knobs.set("oracles", oracle_list({"c17"})).set("relay", true);
  uint64_t nen = tier == "quick" ? 420 : 8420;   // 20 + 400 (+ 8000) enumerated local parts
  uint64_t j = i - i / 3;                        // index among the relay-leg plans (every third plan is an inject-leg plan)
  bool en = j < nen;
  std::string lp = c17_local(r, j, en);
  std::string s2 = c17_local(r, r.next(), false);
  bool as_sender = r.chance(0.5);
  p.knobs.set("sender", as_sender ? lp + "@x.example" : (r.chance(0.2) ? std::string() : s2 + "@x.example"));
  Json rc = Json::arr(); rc.push(as_sender ? "plain@r.example" : lp + "@r.example"); if (r.chance(0.3)) rc.push(c17_local(r, r.next(), false) + "@r.example"); p.knobs.set("rcpts", rc);
  p.knobs.set("msg", "Subject: t\n\nbody\n");
  p.label = std::string(en ? "enumerated" : "random") + " local part \"" + printable(lp, 30) + "\" as " + (as_sender ? "sender" : "recipient");
  return true;
}

static std::vector<std::string> so_real() { return {"qmail-remote (dns.c, ipme.c, tcpto.c, timeoutconn.c run for real)", "relay mode: qmail-smtpd + qmail-queue as the peer"}; }
static std::vector<std::string> so_stubs() { return {"scripted SMTP server with a strict reference receiver", "simulated TCP (connect outcomes, segmentation, close, reset, stall, dribble)", "resolver answering with wire-format packets from a zone"}; }

static RegisterProperty reg_c06(PropertyDef{
    "C06", "SO", "exploration", "deterministic simulation: real qmail-remote sends queue files over a simulated TCP connection to a strict reference receiver (or to the real qmail-smtpd+qmail-queue); the exact bytes between 354 and the final reply are checked and decoded", gen_c06,
    "plan i = f(VERIF_SEED, i): first ALL strings over {CR, LF, '.', 'x'} up to length 5 (quick) / 8 (thorough) with and without final newline, then random token strings, messages sized around the 1024-byte buffers and random messages up to 8 kB; every fifth CR-free plan sends to the package's own server instead. Reads of the message file and of the socket return seeded prefixes. "
    "non-trivial = a connection was made; distinct = distinct (choice stream, trace) hashes",
    so_real(), so_stubs(), q_assume(), "hash of qmail-remote's output and the payload", 3000, 150000});

static RegisterProperty reg_c09(PropertyDef{
    "C09", "SO", "exploration", "deterministic simulation: real qmail-remote against scripted server behaviours per protocol phase (reply classes, multi-line, long and binary text, close, reset, stall around timeoutremote, dribble), MX sets with refusing/timing-out hosts and resolver failures on a virtual clock; verdict model from qmail-remote(8)", gen_c09,
    "plan i = f(VERIF_SEED, i): 1-3 recipients; each phase (greeting, HELO, MAIL, each RCPT, DATA, final dot) answers 2xx/3xx/4xx/5xx in single/multi-line/6000-byte/binary form or closes, resets, stalls timeout+-50 s or dribbles a byte per second; one plan in six uses an MX set of 1-3 hosts with refuse/timeout/accept and connect delays, one in six a soft or hard resolver failure. "
    "Checked: per-recipient r/h/s reports in argument order, final K only if RCPT, DATA and final replies < 400 were received, 5xx => D, 4xx/loss/stall/connect trouble => Z, loss after the dot => 'Possible duplicate'. The spawner's forwarding of verdicts is checked in C18's world. non-trivial = a connection attempt was made",
    so_real(), so_stubs(), q_assume(), "hash of qmail-remote's output and the payload", 3000, 150000});

static RegisterProperty reg_c17(PropertyDef{
    "C17", "SO", "exploration", "deterministic simulation: (relay leg) addresses with hostile local parts travel as sender and recipient from the real qmail-remote across segmented simulated TCP to the real qmail-smtpd and qmail-queue, and the envelope in the receiving queue must equal the sending envelope byte for byte; (header leg) generated RFC 822 address lists go through the real qmail-inject and qmail-queue and the stored envelope is compared with the mailboxes the generator built in", gen_c17,
    "plan i = f(VERIF_SEED, i): ALL local parts up to length 2 (quick) / 3 (thorough) over a 20-symbol alphabet (letters, dot, quote, backslash, space, TAB, CR, parentheses, angle brackets, @, comma, semicolon, colon, brackets, 8-bit, dash), then random ones up to 12 bytes, as sender or recipient, optionally with a second random recipient. Every third plan is the qmail-inject leg instead: a generated header (To/Cc/Bcc/Apparently-To; angle, comment, route, group, quoted, folded, host-less, short-host, plus-host and literal forms; -a/-h/-H/-f modes; QMAILDEFAULTHOST/DOMAIN/PLUSDOMAIN) whose mailboxes are known by construction goes through the real qmail-inject + qmail-queue; the stored envelope must be exactly those mailboxes after the documented rewriting, Bcc must be gone, and (no Bcc) re-injecting the rewritten message must give the same envelope. "
    "non-trivial = a connection was made",
    so_real(), so_stubs(), q_assume(), "hash of qmail-remote's output and the payload", 3000, 150000});

}  // namespace sim

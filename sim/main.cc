// main.cc - simq: run / replay / check (batch with workers, shrinking, evidence)
#include "world.h"
#include "batch.h"
#include <stdio.h>
#include <string.h>
#include <stdlib.h>
#include <unistd.h>

using namespace sim;

extern "C" __attribute__((used, visibility("default"))) const char *__asan_default_options() {
  return "detect_leaks=0:detect_stack_use_after_return=0:exitcode=77:abort_on_error=0:allocator_may_return_null=1:detect_odr_violation=0:handle_segv=1";
}
extern "C" __attribute__((used, visibility("default"))) const char *__ubsan_default_options() { return "print_stacktrace=1:halt_on_error=1:exitcode=77"; }

static const char *arg_val(int argc, char **argv, const char *name, const char *dflt) {
  for (int i = 1; i + 1 < argc; i++) if (!strcmp(argv[i], name)) return argv[i + 1];
  return dflt;
}
static bool arg_flag(int argc, char **argv, const char *name) { for (int i = 1; i < argc; i++) if (!strcmp(argv[i], name)) return true; return false; }

static Json result_json(const RunResult &r) {
  Json j = Json::obj();
  j.set("verdict", r.verdict).set("trace_hash", hex64(r.trace_hash)).set("sched_hash", hex64(r.sched_hash)).set("steps", (unsigned long long)r.steps)
      .set("events", (unsigned long long)r.events).set("sim_seconds", (long long)r.sim_seconds).set("nontrivial", r.nontrivial);
  if (!r.note.empty()) j.set("note", r.note);
  Json v = Json::arr(); for (auto &x : r.violations) v.push(Json::obj().set("class", x.cls).set("detail", x.detail)); j.set("violations", v);
  Json f = Json::obj(); for (auto &p : r.faults_fired) f.set(p.first, (unsigned long long)p.second); j.set("faults_fired", f);
  Json pr = Json::obj(); for (auto &p : r.probes) pr.set(p.first, (unsigned long long)p.second); j.set("probes", pr);
  return j;
}

int main(int argc, char **argv) {
  setvbuf(stdout, nullptr, _IOLBF, 0);
  if (argc < 2) { fprintf(stderr, "usage: simq run|replay|check|gen|list ...\n"); return 2; }
  std::string cmd = argv[1];
  std::string images = arg_val(argc, argv, "--images", "");
  try {
    if (cmd == "run") {
      Plan p = Plan::from_json(Json::parse(read_file_host(arg_val(argc, argv, "--plan", ""))));
      bool tr = arg_flag(argc, argv, "--trace");
      RunResult r = run_plan(p, images, tr);
      if (tr) for (auto &l : r.trace) printf("%s\n", l.c_str());
      printf("%s\n", result_json(r).dump(1).c_str());
      return r.verdict == "ok" ? 0 : r.verdict == "violation" ? 1 : 2;
    }
    if (cmd == "gen") {  // print the i-th plan of a property
      std::string id = argv[2]; std::string tier = arg_val(argc, argv, "--tier", "quick");
      uint64_t seed = strtoull(arg_val(argc, argv, "--seed", "1"), 0, 10), i = strtoull(arg_val(argc, argv, "--i", "0"), 0, 10);
      for (auto &d : property_registry()) if (d.id == id) { Plan p; if (!d.gen(seed, tier, i, p)) { fprintf(stderr, "exhausted\n"); return 2; } printf("%s\n", p.to_json().dump(1).c_str()); return 0; }
      fprintf(stderr, "unknown property\n"); return 2;
    }
    if (cmd == "list") { for (auto &d : property_registry()) printf("%s %s\n", d.id.c_str(), d.world.c_str()); return 0; }
    if (cmd == "selftest") {   // differential test of simos against the host kernel (world K); exit 0 agreed, 2 disagreement
      std::string images = arg_val(argc, argv, "--images", ""); uint64_t n = strtoull(arg_val(argc, argv, "--n", "400"), 0, 10), seed = strtoull(arg_val(argc, argv, "--seed", "1"), 0, 10);
      uint64_t bad = 0, steps = 0;
      for (uint64_t i = 0; i < n; i++) {
        Plan p; p.property = "KSELF"; p.world = "K"; p.seed = mix64(seed, i); p.knobs.set("steps", (long long)(20 + i % 60)).set("stick", 1.0).set("split_p", 0.0);   // no injected short transfers: the host kernel does not make them
        if (i % 8 == 7) p.knobs.set("script", "fifo");
        RunResult r = run_plan(p, images);
        steps += r.probes.count("kself_steps") ? r.probes["kself_steps"] : 0;
        if (r.verdict != "ok") { bad++; if (bad <= 5) printf("selftest plan %llu (seed %llu): %s %s\n", (unsigned long long)i, (unsigned long long)p.seed, r.verdict.c_str(), r.violations.empty() ? r.note.c_str() : r.violations[0].detail.c_str()); }
      }
      printf("selftest: %llu operation sequences (%llu operations) run against simos and against the host kernel, %llu disagree\n", (unsigned long long)n, (unsigned long long)steps, (unsigned long long)bad);
      return bad ? 2 : 0;
    }
    if (cmd == "replay") return replay_main(argc, argv);
    if (cmd == "check") return check_main(argc, argv);
    if (cmd == "determinism") return determinism_main(argc, argv);
  } catch (std::exception &e) { fprintf(stderr, "simq: %s\n", e.what()); return 2; }
  fprintf(stderr, "simq: unknown command %s\n", cmd.c_str());
  return 2;
}

// net.cc - simulated stream sockets, interface list and resolver (DESIGN 2.5)
#include "simos.h"
#include "kpriv.h"
#include "net.h"
#include <errno.h>
#include <fcntl.h>
#include <string.h>
#include <unistd.h>
#include <sys/socket.h>
#include <sys/ioctl.h>
#include <net/if.h>
#include <netinet/in.h>
#include <arpa/nameser.h>
#include <netdb.h>

namespace sim {

Net *g_net = nullptr;

int net_socket(int d, int t, int p) {
  (void)p;
  Kernel *k = K; Proc *pr = k->cp();
  if (d != AF_INET || (t & 0xf) != SOCK_STREAM && (t & 0xf) != SOCK_DGRAM) { errno = EAFNOSUPPORT; return -1; }
  Fault *flt = k->match_fault(C_CONNECT, "socket");
  if (flt && flt->kind == "error") { k->note_fault("meta_error"); errno = flt->err ? flt->err : ENFILE; return -1; }
  OFile *of = new OFile; of->kind = O_SOCK; of->flags = O_RDWR; of->sock_state = 0;
  return k->alloc_fd(pr, of);
}

int net_connect(int fd, const struct sockaddr *sa, socklen_t len) {
  Kernel *k = K;
  k->yield_point();
  OFile *of = k->get_of(fd);
  Event e; e.call = C_CONNECT; e.fd = fd;
  auto fail = [&](int err) { e.ret = -1; e.err = err; k->emit(e); errno = err; return -1; };
  if (!of || of->kind != O_SOCK) return fail(ENOTSOCK);
  if (len < sizeof(struct sockaddr_in) || sa->sa_family != AF_INET) return fail(EAFNOSUPPORT);
  const struct sockaddr_in *sin = (const struct sockaddr_in *)sa;
  uint32_t ip = ntohl(sin->sin_addr.s_addr); uint16_t port = ntohs(sin->sin_port);
  e.a = ip; e.b = port;
  if (of->sock_state == 2) return fail(EISCONN);
  if (of->sock_state == 1) return fail(EALREADY);
  of->peer_ip = ip; of->peer_port = port;
  Net::ConnectResult r; r.kind = Net::K_REFUSED;
  if (g_net) r = g_net->on_connect(of, ip, port);
  bool nb = of->flags & O_NONBLOCK;
  switch (r.kind) {
    case Net::K_REFUSED:
      k->note_fault("net_connect_refused");
      if (nb && r.delay > 0) { of->sock_state = 1; of->sock_err = ECONNREFUSED; of->sock_ready_at = k->clock + r.delay; return fail(EINPROGRESS); }
      of->sock_state = 3; of->sock_err = ECONNREFUSED; return fail(ECONNREFUSED);
    case Net::K_UNREACH:
      of->sock_state = 3; of->sock_err = ENETUNREACH; return fail(ENETUNREACH);
    case Net::K_TIMEOUT:
      k->note_fault("net_connect_timeout");
      of->sock_state = 1; of->sock_err = ETIMEDOUT; of->sock_ready_at = k->clock + (r.delay > 0 ? r.delay : 100000);
      if (nb) return fail(EINPROGRESS);
      k->block([] { return false; }, of->sock_ready_at, true);
      of->sock_state = 3; return fail(ETIMEDOUT);
    case Net::K_ACCEPT:
      of->pipe = r.rx; of->tx = r.tx; r.rx->readers++; r.tx->writers++;
      of->sock_err = 0;
      if (nb && !(r.immediate && r.delay == 0)) { of->sock_state = 1; of->sock_ready_at = k->clock + r.delay; e.ret = -1; e.err = EINPROGRESS; k->emit(e); errno = EINPROGRESS; return -1; }
      if (r.delay > 0) k->block([] { return false; }, k->clock + r.delay, false);
      of->sock_state = 2; e.ret = 0; k->emit(e); return 0;
  }
  return fail(ECONNREFUSED);
}

int net_getpeername(int fd, struct sockaddr *sa, socklen_t *len) {
  Kernel *k = K; OFile *of = k->get_of(fd);
  if (!of || of->kind != O_SOCK) { errno = ENOTSOCK; return -1; }
  if (of->sock_state == 1) {
    if (k->clock < of->sock_ready_at) { errno = ENOTCONN; return -1; }
    of->sock_state = of->sock_err ? 3 : 2;
  }
  if (of->sock_state != 2) { errno = ENOTCONN; return -1; }
  struct sockaddr_in sin; memset(&sin, 0, sizeof sin); sin.sin_family = AF_INET; sin.sin_addr.s_addr = htonl(of->peer_ip); sin.sin_port = htons(of->peer_port);
  socklen_t n = *len < sizeof sin ? *len : (socklen_t)sizeof sin; memcpy(sa, &sin, n); *len = sizeof sin;
  return 0;
}

int net_ioctl(int fd, unsigned long req, void *arg) {
  Kernel *k = K; OFile *of = k->get_of(fd);
  if (!of) { errno = EBADF; return -1; }
  std::vector<uint32_t> ifs; if (g_net) ifs = g_net->interfaces; else ifs.push_back(0x7f000001);
  if (req == SIOCGIFCONF) {
    struct ifconf *ifc = (struct ifconf *)arg; int cap = ifc->ifc_len; int used = 0; char *p = ifc->ifc_buf;
    for (size_t i = 0; i < ifs.size(); i++) {
      if (used + (int)sizeof(struct ifreq) > cap) break;
      struct ifreq r; memset(&r, 0, sizeof r); snprintf(r.ifr_name, sizeof r.ifr_name, "sim%zu", i);
      struct sockaddr_in *sin = (struct sockaddr_in *)&r.ifr_addr; sin->sin_family = AF_INET; sin->sin_addr.s_addr = htonl(ifs[i]);
      memcpy(p + used, &r, sizeof r); used += sizeof r;
    }
    ifc->ifc_len = used; return 0;
  }
  if (req == SIOCGIFFLAGS) { struct ifreq *r = (struct ifreq *)arg; r->ifr_flags = IFF_UP | IFF_RUNNING; return 0; }
  if (req == SIOCGIFADDR) {
    struct ifreq *r = (struct ifreq *)arg; unsigned idx = 0; sscanf(r->ifr_name, "sim%u", &idx);
    if (idx >= ifs.size()) { errno = ENODEV; return -1; }
    struct sockaddr_in *sin = (struct sockaddr_in *)&r->ifr_addr; memset(sin, 0, sizeof *sin); sin->sin_family = AF_INET; sin->sin_addr.s_addr = htonl(ifs[idx]); return 0;
  }
  errno = EINVAL; return -1;
}

int net_res_query(const char *name, int cls, int type, unsigned char *ans, int anslen, bool search) {
  Kernel *k = K;
  k->yield_point();
  Event e; e.call = C_DNS; e.path = name ? name : ""; e.a = type; e.b = search;
  (void)cls;
  std::string pkt; int herr = HOST_NOT_FOUND;
  int r = -1;
  if (g_net) r = g_net->on_query(e.path, type, pkt, herr);
  if (r < 0) { h_errno = herr; e.ret = -1; e.err = herr; k->emit(e); return -1; }
  int n = (int)pkt.size();
  memcpy(ans, pkt.data(), (size_t)(n < anslen ? n : anslen));
  e.ret = n; k->emit(e);
  return n;
}

}  // namespace sim
